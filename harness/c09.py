"""C09 - compile-time evaluation of the primitives agrees with the emitted run-time logic.

(a) real Python objects (c09_worker.py) vs Models/Ops.v `py_bin` / `py_un` inside Coq: every operator, method, view and
    constructor on every pair of operand types (Unsigned, Signed, BitVector, Bit, cohdl.Integer, Python int; either
    order), exhaustive over all values for widths <= 3 and ints in -8..8, plus seeded cases with widths up to 130 and
    corner values;
(b) the property itself on the recorded results: a folded value must be the value `Ops.rt_bin` / `rt_un` compute, i.e.
    what numeric_std (Vhdl/NumStd.v) yields for the operation the backend emits on signals holding the operand values;
(c) end to end on the real compiler: the same design with the operands on input ports and with constant operands; the
    literal folded into the second must be the value the first computes (Vhdl.Sem) for those operand values.
The model has one switch per C09 defect of the round-0 tree (Ops.cfg); the default `current` is the CURRENT tree (rmul,
sub width and exact truncdiv/rem fixed; mul by an out-of-range int as coded = the known finding
{"op": "mul", "class": "int_factor_out_of_vector_range"}).  Development only: C09_MODEL=pinned|current|patched.
"""
from __future__ import annotations
import json
import os
import re

import common

MODEL = {"pinned": "pinned", "current": "current", "patched": "patched"}[os.environ.get("C09_MODEL", "current")]

BINOPS = ["add", "sub", "mul", "floordiv", "truncdiv", "mod", "rem", "lshift", "rshift", "and", "or", "xor", "concat",
          "eq", "ne", "lt", "le", "gt", "ge"]
UNOPS = ["neg", "abs", "inv", "pos", "bool", "unsigned", "signed", "bitvector", "msb", "lsb", "to_int", "from_int_u",
         "from_int_s"]
COQ_BOP = dict(zip(BINOPS, ["PAdd", "PSub", "PMul", "PFloorDiv", "PTruncDiv", "PMod", "PRem", "PShl", "PShr", "PAnd", "POr",
                            "PXor", "PConcat", "PEq", "PNe", "PLt", "PLe", "PGt", "PGe"]))
COQ_UOP = dict(zip(UNOPS, ["MNeg", "MAbs", "MInv", "MPos", "MToBool", "MAsU", "MAsS", "MAsBV", "MMsb", "MLsb", "MToInt",
                           "MFromIntU", "MFromIntS"]))
PY_SYM = {"add": "+", "sub": "-", "mul": "*", "floordiv": "//", "mod": "%", "lshift": "<<", "rshift": ">>", "and": "&",
          "or": "|", "xor": "^", "concat": "@", "eq": "==", "ne": "!=", "lt": "<", "le": "<=", "gt": ">", "ge": ">="}

PREAMBLE = common.COQ_HEADER + """From Cohdl Require Import Models.Ops.
Local Open Scope Z_scope.
Definition u (w : N) (v : Z) : operand := (TU w, v).
Definition s (w : N) (v : Z) : operand := (TS w, v).
Definition b (w : N) (v : Z) : operand := (TBV w, v).
Definition l (v : Z) : operand := (TBit, v).
Definition i (v : Z) : operand := (TInt, v).
Definition p (v : Z) : operand := (TPy, v).
Arguments u w%N v%Z.
Arguments s w%N v%Z.
Arguments b w%N v%Z.
Definition vu (w : N) (v : Z) := Value (TU w) v.
Definition vs (w : N) (v : Z) := Value (TS w) v.
Definition vb (w : N) (v : Z) := Value (TBV w) v.
Arguments vu w%N v%Z.
Arguments vs w%N v%Z.
Arguments vb w%N v%Z.
Definition vl := Value TBit.
Definition vo := Value TBool.
Definition vi := Value TInt.
Definition vp := Value TPy.
Definition nu (w : N) := Undef (TU w).
Definition ns (w : N) := Undef (TS w).
Definition J := Reject.
Definition X := NoImpl.
Definition R := Raise.
"""


# ----------------------------------------------------------------------------
# Coq terms
# ----------------------------------------------------------------------------

def z(v):
    return "(%d)" % v if v < 0 else "%d" % v


def opd_coq(d):
    k = d[0]
    if k in ("u", "s"):
        return "(%s %d %s)" % (k, d[1], z(d[2]))
    if k == "bv":
        return "(b %d %s)" % (d[1], z(d[2]))
    return "(%s %s)" % ({"bit": "l", "int": "i", "py": "p"}[k], z(d[1]))


def ty_coq(kind, w):
    return {"u": "(TU %d)" % w, "s": "(TS %d)" % w, "bv": "(TBV %d)" % w, "bit": "TBit", "int": "TInt", "py": "TPy",
            "bool": "TBool"}[kind]


def res_coq(r):
    """None if the recorded result has no counterpart in the model (never expected)"""
    t = r[0]
    if t == "v":
        k, w, v = r[1], r[2], r[3]
        if k in ("u", "s"):
            return "(v%s %d %s)" % (k, w, z(v))
        if k == "bv":
            return "(vb %d %s)" % (w, z(v))
        return "(v%s %s)" % ({"bit": "l", "bool": "o", "int": "i", "py": "p"}[k], z(v))
    if t == "undef":
        if r[1] in ("u", "s"):
            return "(n%s %d)" % (r[1], r[2])
        return "(Undef %s)" % ty_coq(r[1], r[2])
    return {"reject": "J", "noimpl": "X", "raise": "R"}.get(t)


def op_coq(op):
    if isinstance(op, str):
        return COQ_BOP.get(op) or COQ_UOP[op]
    n = op[0]
    if n == "resize":
        return "(MResize %d %d)" % (op[1], op[2])
    if n == "msbn":
        return "(MMsbN %s)" % z(op[1])
    if n == "lsbn":
        return "(MLsbN %s)" % z(op[1])
    if n == "index":
        return "(MIndex %s)" % z(op[1])
    if n == "slice":
        return "(MSlice %s %s)" % (z(op[1]), z(op[2]))
    if n == "ctor":
        return "(MCtor %s)" % ty_coq(op[1], op[2])
    raise ValueError(op)


def is_bin(op):
    return isinstance(op, str) and op in COQ_BOP


def case_coq(c, r):
    op, a, b = c
    rc = res_coq(r)
    if rc is None:
        return None
    if is_bin(op):
        return "CB %s %s %s %s" % (op_coq(op), opd_coq(a), opd_coq(b), rc)
    return "CU %s %s %s" % (op_coq(op), opd_coq(a), rc)


def py_expr(d):
    k = d[0]
    if k == "u":
        return "Unsigned[%d](%d)" % (d[1], d[2])
    if k == "s":
        return "Signed[%d](%d)" % (d[1], d[2])
    if k == "bv":
        return "BitVector[%d]('%s')" % (d[1], format(d[2], "0%db" % d[1]))
    if k == "bit":
        return "Bit(%d)" % d[1]
    if k == "int":
        return "Integer(%d)" % d[1]
    return "(%d)" % d[1]


def one_liner(c):
    op, a, b = c
    if is_bin(op):
        if op in PY_SYM:
            e = "%s %s %s" % (py_expr(a), PY_SYM[op], py_expr(b))
        else:
            e = "op.%s(%s, %s)" % (op, py_expr(a), py_expr(b))
    elif isinstance(op, str):
        e = {"neg": "-%s", "abs": "abs(%s)", "inv": "~%s", "pos": "+%s", "bool": "bool(%s)", "unsigned": "%s.unsigned",
             "signed": "%s.signed", "bitvector": "%s.bitvector", "msb": "%s.msb()", "lsb": "%s.lsb()",
             "to_int": "%s.to_int()", "from_int_u": "Unsigned.from_int(%s)", "from_int_s": "Signed.from_int(%s)"}[op] % py_expr(a)
    else:
        n = op[0]
        x = py_expr(a)
        e = {"resize": lambda: "%s.resize(%d, zeros=%d)" % (x, op[1], op[2]), "msbn": lambda: "%s.msb(%d)" % (x, op[1]),
             "lsbn": lambda: "%s.lsb(%d)" % (x, op[1]), "index": lambda: "%s[%d]" % (x, op[1]),
             "slice": lambda: "%s[%d:%d]" % (x, op[1], op[2]),
             "ctor": lambda: "%s(%s)" % ({"u": "Unsigned[%d]", "s": "Signed[%d]", "bv": "BitVector[%d]", "bit": "Bit%.0s",
                                          "int": "Integer%.0s"}[op[1]] % op[2], x)}[n]()
    return ("PYTHONPATH=%s /venv/bin/python -c \"from cohdl import *; from cohdl import op; r = %s; print(type(r), r)\""
            % (common.REPO, e))


# ----------------------------------------------------------------------------
# generators
# ----------------------------------------------------------------------------

def small_operands(maxw, ints):
    out = []
    for w in range(1, maxw + 1):
        out += [["u", w, v] for v in range(1 << w)]
        out += [["s", w, v] for v in range(-(1 << (w - 1)), 1 << (w - 1))]
        out += [["bv", w, v] for v in range(1 << w)]
    out += [["bit", 0], ["bit", 1]]
    out += [["int", v] for v in range(-ints, ints + 1)]
    out += [["py", v] for v in range(-ints, ints + 1)]
    return out


def method_ops(maxw):
    ops = list(UNOPS)
    for tw in range(1, maxw + 3):
        for zz in range(0, 3):
            ops.append(["resize", tw, zz])
    for n in range(0, maxw + 2):
        ops += [["msbn", n], ["lsbn", n]]
    for i in range(-1, maxw + 1):
        ops.append(["index", i])
    for hi in range(-1, maxw + 1):
        for lo in range(-1, maxw + 1):
            ops.append(["slice", hi, lo])
    for t in ("u", "s", "bv"):
        for w in range(1, maxw + 2):
            ops.append(["ctor", t, w])
    ops += [["ctor", "bit", 0], ["ctor", "int", 0]]
    return ops


def exhaustive_cases(maxw, ints):
    ops = small_operands(maxw, ints)
    cases = []
    for op in BINOPS:
        for a in ops:
            for b in ops:
                if a[0] == "py" and b[0] == "py" and op not in ("truncdiv", "rem"):
                    continue      # plain Python, no cohdl code involved
                cases.append([op, a, b])
    for op in method_ops(maxw):
        for a in ops:
            if a[0] == "py" and not (isinstance(op, str) and op.startswith("from_int")) and not (
                    not isinstance(op, str) and op[0] == "ctor"):
                continue
            cases.append([op, a, None])
    return cases


WIDTHS = [1, 2, 3, 4, 5, 7, 8, 9, 12, 15, 16, 17, 24, 31, 32, 33, 48, 52, 53, 54, 55, 63, 64, 65, 100, 127, 128, 129, 130]
# operand kind pairs on which some method is defined (weighted) + a share of arbitrary pairs
PAIRS = [("u", "u")] * 6 + [("s", "s")] * 6 + [("u", "py"), ("py", "u"), ("s", "py"), ("py", "s")] * 3 + [
    ("u", "int"), ("int", "u"), ("s", "int"), ("int", "s"), ("int", "int"), ("int", "py"), ("py", "int"), ("py", "py"),
    ("bv", "bv"), ("bv", "bv"), ("bit", "bit"), ("bv", "bit"), ("bit", "bv"), ("u", "bv"), ("s", "u"), ("u", "s"),
    ("bv", "s"), ("u", "bit"), ("bit", "int"), ("bv", "py")]


def corner_ints(rng, w):
    c = [0, 1, -1, 2, -2, (1 << w) - 1, 1 << w, (1 << w) + 1, -(1 << w), 1 << (w - 1), -(1 << (w - 1)), (1 << (w - 1)) - 1,
         -(1 << (w - 1)) - 1, (1 << 53) - 1, 1 << 53, (1 << 53) + 1, -(1 << 53) - 1, (1 << 63) + 3, (1 << 31) - 1, 1 << 31,
         -(1 << 31), -(1 << 31) - 1, 3, 7, 10]
    c += [rng.getrandbits(rng.choice([3, 8, 20, 40, 60, 70, 130])) * rng.choice([1, 1, -1]) for _ in range(6)]
    return c


def vec_value(rng, kind, w):
    if kind == "s":
        lo, hi = -(1 << (w - 1)), (1 << (w - 1)) - 1
    else:
        lo, hi = 0, (1 << w) - 1
    k = rng.randrange(w)
    c = [0, 1, -1, lo, hi, lo + 1, hi - 1, (1 << k), (1 << k) - 1, (1 << k) + 1, -(1 << k), -(1 << k) + 1, hi // 3,
         (1 << 53) + 1, (1 << 62) + 1, (1 << 63) + 3]
    c = [v for v in c if lo <= v <= hi]
    if rng.random() < 0.35:
        return rng.randint(lo, hi)
    return rng.choice(c)


def operand(rng, kind, w):
    if kind in ("u", "s", "bv"):
        return [kind, w, vec_value(rng, kind, w)]
    if kind == "bit":
        return ["bit", rng.randint(0, 1)]
    return [kind, rng.choice(corner_ints(rng, w))]


def seeded_cases(rng, n):
    cases = []
    while len(cases) < n:
        x = rng.random()
        if x < 0.8:
            op = rng.choice(BINOPS)
            ka, kb = rng.choice(PAIRS)
            wa = rng.choice(WIDTHS)
            wb = rng.choice(WIDTHS) if rng.random() < 0.7 else wa
            if ka == "py" and kb == "py" and op not in ("truncdiv", "rem"):
                continue      # plain Python
            a = operand(rng, ka, wa)
            b = operand(rng, kb, wb if kb in ("u", "s", "bv") else wa)
            if op in ("lshift", "rshift"):
                # shift counts stay small enough for Python to build the shifted integer
                cnt = rng.choice([0, 1, 2, wa - 1, wa, wa + 1, 2 * wa, 200, -1, rng.randrange(0, wa + 3)])
                if kb == "u":
                    wb = rng.choice([1, 2, 3, 5, 8])
                    b = ["u", wb, min(max(cnt, 0), (1 << wb) - 1)]
                elif kb in ("py", "int"):
                    b = [kb, cnt]
            cases.append([op, a, b])
        else:
            ka = rng.choice(["u", "u", "s", "s", "bv", "bit", "int", "py"])
            wa = rng.choice(WIDTHS)
            a = operand(rng, ka, wa)
            y = rng.random()
            if y < 0.4:
                op = rng.choice(UNOPS)
            elif y < 0.55:
                zz = rng.choice([0, 0, 1, 2, 5])
                op = ["resize", max(1, wa + zz + rng.choice([0, 0, 1, 7, -1])), zz]
            elif y < 0.7:
                op = [rng.choice(["msbn", "lsbn"]), rng.choice([0, 1, wa - 1, wa, wa + 1, rng.randint(1, wa)])]
            elif y < 0.78:
                op = ["index", rng.choice([0, wa - 1, wa, -1, rng.randrange(wa)])]
            elif y < 0.88:
                lo = rng.randrange(wa)
                op = ["slice", rng.choice([wa - 1, wa, lo, rng.randint(lo, wa - 1)]), lo]
            else:
                op = ["ctor", rng.choice(["u", "s", "bv"]), rng.choice([wa, wa, wa + 1, max(1, wa - 1), rng.choice(WIDTHS)])]
            if ka == "py" and isinstance(op, str) and not op.startswith("from_int"):
                continue
            cases.append([op, a, None])
    return cases


# regression corpus: the anchored mechanisms and the defects of the pinned tree
CORPUS = [
    ["mul", ["py", 3], ["u", 4, 2]], ["mul", ["int", 3], ["u", 4, 2]], ["mul", ["u", 4, 2], ["py", 3]],
    ["mul", ["u", 4, 5], ["py", 17]], ["mul", ["s", 4, 5], ["py", 17]], ["mul", ["py", -3], ["s", 4, 2]],
    ["sub", ["u", 4, 5], ["u", 2, 1]], ["sub", ["u", 4, 5], ["u", 6, 1]], ["sub", ["s", 4, 5], ["s", 2, -2]],
    ["sub", ["s", 4, 5], ["s", 4, -8]], ["sub", ["py", 17], ["u", 4, 5]], ["sub", ["u", 4, 5], ["py", 17]],
    ["rem", ["u", 64, (1 << 63) + 3], ["py", 2]], ["truncdiv", ["s", 64, (1 << 62) + 1], ["s", 64, 1]],
    ["truncdiv", ["int", (1 << 62) + 1], ["py", 1]], ["rem", ["py", (1 << 63) + 3], ["py", 2]],
    ["truncdiv", ["py", (1 << 63) + 3], ["py", 1]], ["rem", ["s", 64, -(1 << 63)], ["s", 2, -1]],
    ["truncdiv", ["u", 8, 200], ["u", 3, 7]], ["truncdiv", ["s", 4, -7], ["py", 2]], ["truncdiv", ["s", 4, -8], ["s", 4, -1]],
    ["mod", ["s", 4, -7], ["s", 3, 3]], ["rem", ["s", 4, -7], ["s", 3, 3]], ["mod", ["u", 4, 5], ["py", 0]],
    ["add", ["u", 4, 15], ["u", 4, 1]], ["add", ["s", 4, 7], ["py", 1]], ["add", ["s", 4, 5], ["py", 8]],
    ["add", ["u", 4, 5], ["py", -1]], ["lshift", ["s", 4, 3], ["py", 2]], ["rshift", ["s", 4, -8], ["u", 3, 5]],
    ["lshift", ["u", 4, 5], ["py", 70]], ["concat", ["u", 2, 1], ["s", 2, -1]], ["concat", ["bit", 1], ["bv", 3, 2]],
    ["and", ["u", 4, 5], ["u", 4, 3]], ["xor", ["s", 3, -1], ["s", 3, 2]], ["eq", ["u", 4, 5], ["s", 4, 5]],
    ["lt", ["s", 4, -1], ["py", 0]], ["ge", ["py", 3], ["u", 2, 3]],
    ["neg", ["s", 4, -8], None], ["neg", ["s", 1, -1], None], ["abs", ["s", 4, -8], None], ["inv", ["u", 3, 1], None],
    [["resize", 5, 1], ["s", 3, -1], None], [["resize", 5, 0], ["u", 3, 7], None], ["signed", ["u", 3, 7], None],
    [["slice", 2, 1], ["s", 3, -2], None], [["ctor", "s", 4], ["u", 3, 7], None], [["ctor", "u", 4], ["py", 16], None],
]


# ----------------------------------------------------------------------------
# Coq evaluation: four predicates per case file
# ----------------------------------------------------------------------------

PREDS = [("model", "model_ok %s" % MODEL), ("spec", "spec_ok"), ("type", "type_ok"), ("rtdef", "fun c => negb (rt_undefined c)")]


def coq_run(ck, tag, terms, shard=3000, timeout=2400):
    """-> {pred name: set of indices where the predicate is false}"""
    files = []
    for si in range(0, len(terms), shard):
        part = terms[si:si + shard]
        path = os.path.join(ck.gen, "%s_%04d.v" % (tag, si // shard))
        with open(path, "w") as f:
            f.write(PREAMBLE + "From Cohdl Require Import Base.Util.\n")
            f.write("Definition cases : list ccase := [\n  ")
            f.write(";\n  ".join(part))
            f.write("].\n")
            for _, pr in PREDS:
                f.write("Eval vm_compute in (bad_indices (%s) cases).\n" % pr)
        files.append((si, path))
    outs = common.coqc_many([p for _, p in files], timeout=timeout)
    bad = {n: set() for n, _ in PREDS}
    for (si, path), (rc, out, err) in zip(files, outs):
        if rc != 0:
            raise RuntimeError("coqc failed on %s:\n%s" % (path, (out + err)[-2000:]))
        res = common.coq_outputs(out)
        assert len(res) == len(PREDS), (path, res)
        for (n, _), o in zip(PREDS, res):
            bad[n] |= {si + i for i in common.parse_N_list(o)}
        common._cleanup_v(path)
    return bad


def rt_term(c):
    op, a, b = c
    if is_bin(op):
        return "rt_bin %s %s %s" % (op_coq(op), opd_coq(a), opd_coq(b))
    return "rt_un %s %s" % (op_coq(op), opd_coq(a))


def py_term(c):
    op, a, b = c
    if is_bin(op):
        return "py_bin %s %s %s %s" % (MODEL, op_coq(op), opd_coq(a), opd_coq(b))
    return "py_un %s %s" % (op_coq(op), opd_coq(a))


def parse_rt(s):
    """printed normal form of a `res value` -> worker-style result"""
    s = re.sub(r"%[A-Za-z]+", "", s)
    m = re.match(r"Ok \(VV (K\w+) (\d+) \(?(-?\d+)\)?\)", s)
    if m:
        k = {"KUns": "u", "KSgn": "s", "KSlv": "bv"}[m.group(1)]
        w, v = int(m.group(2)), int(m.group(3))
        if k == "s" and w and v >= 1 << (w - 1):
            v -= 1 << w
        return ["v", k, w, v]
    m = re.match(r"Ok \(V([LB]) (true|false)\)", s)
    if m:
        return ["v", "bit" if m.group(1) == "L" else "bool", 0, int(m.group(2) == "true")]
    m = re.match(r"Ok \(VI \(?(-?\d+)\)?\)", s)
    if m:
        return ["v", "int", 0, int(m.group(1))]
    m = re.match(r"Err (\w+)", s)
    if m:
        return ["err", m.group(1)]
    return ["?", s]


def failure_class(r, h):
    if h[0] != "v":
        return "other"
    kr = "int" if r[1] == "py" else r[1]
    if kr != h[1]:
        return "type"
    if r[2] != h[2]:
        return "width"
    return "value"


def int_factor_class(c):
    """mul of a Signed / Unsigned vector with an int that is not representable at the vector's width (either order)"""
    op, a, b = c
    if op != "mul" or b is None:
        return False
    for v, n in ((a, b), (b, a)):
        if v[0] in ("u", "s") and n[0] in ("int", "py"):
            w = v[1]
            lo, hi = (0, (1 << w) - 1) if v[0] == "u" else (-(1 << (w - 1)), (1 << (w - 1)) - 1)
            return not (lo <= n[1] <= hi)
    return False


INT_MIN, INT_MAX = -(1 << 31), (1 << 31) - 1


def rt_error_kind(c):
    """why the emitted run-time operation is an error although the fold gives a value"""
    op, a, b = c
    name = op if isinstance(op, str) else op[0]
    ka, kb = a[0], (b[0] if b is not None else None)
    num = ("int", "py")
    if name in ("and", "or", "xor"):
        if ka == "bit" or kb == "bit":
            return "Bit and/or/xor Integer (duck typing through Integer._val; no such VHDL operator)"
        return "and/or/xor on Integer (no such VHDL operator)"
    if name in ("eq", "ne") and not (ka in num and kb in num) and not (ka == kb) and not (
            (ka in num and kb in ("u", "s")) or (kb in num and ka in ("u", "s"))):
        return "== / != of unrelated types (Python identity fallback: False / True)"
    if name == "neg" and ka == "u":
        return "unary minus on Unsigned (numeric_std defines none)"
    if name in ("truncdiv", "mod", "rem") and ka == "int" and kb in num and b[1] == 0:
        return "Integer truncdiv/mod/rem by 0 folds to 0"
    ints = [d[1] for d in (a, b) if d is not None and d[0] in num]
    if any(not (INT_MIN <= v <= INT_MAX) for v in ints):
        return "int operand outside the 32-bit VHDL integer range"
    if name in ("lshift", "rshift"):
        return "shift count outside the natural range"
    if (ka == "u" and kb in num and b[1] < 0) or (kb == "u" and ka in num and a[1] < 0):
        return "negative int with Unsigned (NATURAL parameter of numeric_std)"
    if ka in num and (kb in num or kb is None):
        return "Integer result outside the 32-bit VHDL integer range"
    if name in ("to_int", "ctor"):
        return "%s outside the integer / natural range" % name
    return "other: %s %s %s" % (name, ka, kb)


def size_of(c):
    op, a, b = c
    n = 0
    for d in (a, b):
        if d is not None:
            n += (d[1] if d[0] in ("u", "s", "bv") else 0) * 1000 + min(abs(d[-1]), 999)
    return n


def kinds(c):
    op, a, b = c
    return (op if isinstance(op, str) else op[0], a[0], b[0] if b is not None else "-")


# ----------------------------------------------------------------------------
# the check
# ----------------------------------------------------------------------------

def run_worker_sharded(cases):
    n = max(1, min(common.NCPU, len(cases) // 2000))
    size = (len(cases) + n - 1) // n
    parts = [cases[i:i + size] for i in range(0, len(cases), size)]
    outs = common.run_workers("c09_worker.py", [{"cases": p} for p in parts], timeout=3000)
    res = []
    for o in outs:
        res += o["results"]
    return res


def run(ck: common.Check, replay=None):
    ck.check_props("C09_Properties.v")
    quick = ck.tier == "quick"
    ck.trusted += [
        "Models/Ops.v py_bin / py_un as the rendering of the Python methods (tied by the correspondence run (a))",
        "Models/Ops.v rt_bin / rt_un + Vhdl/NumStd.v as the value of the VHDL the backend emits for an operation "
        "(structure of the emitted text is property C02's; sampled end to end in (c))",
        "c09_worker.py: construction of the real objects and the canonical dump of results",
        "int(a / b) is modelled as exact truncation for |a|, |b| < 2**53 and not predicted beyond (Inexact)",
    ]
    ck.assumptions += [
        "operand values: all values for widths <= %d and ints in -8..8 (every operator x every ordered pair of operand "
        "types); widths up to 130 are sampled with corner values" % (3 if quick else 4),
        "shift counts <= 200 (Python builds the shifted integer); plain int (op) int is not cohdl code except "
        "op.truncdiv / op.rem",
        "a folded value where the emitted run-time operation is an error (negative int with an Unsigned signal, "
        "and/or/xor on Integer, unary minus on Unsigned, integer overflow, division by zero of Integer) has nothing to be "
        "compared with: counted under coverage.fold_defined_runtime_error, not a violation of C09 (C02/C06 own the emitted text)",
    ]
    ck.assumptions.append(
        "(c) end to end: sampled operators + - * << >> & | ^ @ == < >= on Unsigned / Signed / BitVector ports of width <= 13; "
        "division operators are left out there (the port design divides by the power-up value 0 before the first input "
        "is applied, which Vhdl.Sem reports as an error); variants rejected at compile time are counted, not compared")
    if replay is not None:
        cases = [replay["case"]] if "case" in replay else []
        exh = 0
    else:
        maxw, ints = (3, 8) if quick else (4, 9)
        exh_cases = exhaustive_cases(maxw, ints)
        exh = len(exh_cases)
        cases = [list(c) for c in CORPUS] + exh_cases + seeded_cases(ck.rng, 6000 if quick else 60000)
    results = run_worker_sharded(cases) if cases else []

    terms, idx_of = [], []
    unmodelled = []
    for i, (c, r) in enumerate(zip(cases, results)):
        t = case_coq(c, r)
        if t is None:
            unmodelled.append(i)
            continue
        terms.append(t)
        idx_of.append(i)
    bad = coq_run(ck, "ops", terms) if terms else {n: set() for n, _ in PREDS}
    bad = {n: {idx_of[j] for j in s} for n, s in bad.items()}

    # ---- bookkeeping -------------------------------------------------------------------------------
    for i, (c, r) in enumerate(zip(cases, results)):
        ck.evaluations += 1
        ok = i not in bad["model"] and i not in bad["spec"] and i not in bad["type"] and i not in unmodelled
        ck.obligation(ok)
        k = kinds(c)
        ck.hist("results", r[0])
        if r[0] == "v":
            ck.hist("folded_by_operator", k[0])
            ck.nontrivial([c[0], c[1][:2] if c[1][0] in ("u", "s", "bv") else c[1][0],
                           (c[2][:2] if c[2][0] in ("u", "s", "bv") else c[2][0]) if c[2] else None, min(size_of(c), 50)])
            if i in bad["rtdef"]:
                ck.hist("fold_defined_runtime_error", rt_error_kind(c))
                ck.hist("fold_defined_runtime_error_by_operator", "%s %s %s" % k)
        if i in (0, 6, 12) or (i % 9973 == 0 and r[0] == "v"):
            ck.sample({"case": c, "python": r})
    ck.cov["cases"] = len(cases)
    ck.cov["exhaustive_block"] = exh
    ck.cov["exhaustive"] = False
    ck.cov["model"] = MODEL
    ck.cov["rule"] = ("non-trivial = operation folded to a value; distinct by (operator, operand types and widths, magnitude "
                      "class); exhaustive block: all operators and methods x all ordered operand pairs of width <= %d / ints "
                      "-8..8 x all values; seeded block: widths up to 130, corner values" % (3 if quick else 4))

    # ---- (b) property violations: folded value differs from the hardware ---------------------------------
    groups = {}
    for i in sorted(bad["spec"] | bad["type"]):
        c = cases[i]
        if i in bad["spec"] and int_factor_class(c):
            groups.setdefault(("mul", "*", "int_factor_out_of_vector_range"), []).append(i)
        else:
            groups.setdefault(kinds(c), []).append(i)
    reps = {k: min(v, key=lambda i: (size_of(cases[i]), i)) for k, v in groups.items()}
    if reps:
        order = sorted(reps)
        outs = common.coq_eval_terms(ck, "rt", PREAMBLE, [rt_term(cases[reps[k]]) for k in order])
        for k, o in zip(order, outs):
            i = reps[k]
            c, r = cases[i], results[i]
            h = parse_rt(o)
            cls = failure_class(r, h) if i in bad["spec"] else "documented type"
            key = {"op": k[0], "lhs": k[1], "rhs": k[2], "class": cls}
            if k[2] == "int_factor_out_of_vector_range":
                # one key for the whole input class: Unsigned / Signed vector times an int that is not representable at the
                # vector's width, either operand order (numeric_std converts the int to that width first)
                key = {"op": "mul", "class": "int_factor_out_of_vector_range"}
                by = {}
                for j in groups[k]:
                    kk = "%s * %s" % (cases[j][1][0], cases[j][2][0])
                    by[kk] = by.get(kk, 0) + 1
                ck.cov["int_factor_out_of_vector_range"] = by
            ck.violation(key, "constant folding gives %s but the emitted logic computes %s for %s (%d failing cases of this "
                         "operator / operand-type class)" % (r[1:], h[1:], one_liner(c).split("r = ")[1].split(";")[0],
                                                            len(groups[k])),
                         {"case": c, "folded": r, "hardware": h, "failing_cases": len(groups[k]),
                          "more": [cases[j] for j in groups[k][:8]], "python": one_liner(c)})

    # ---- (a) model out of date --------------------------------------------------------------------------
    mgroups = {}
    for i in sorted(bad["model"]):
        if i in bad["spec"] or i in bad["type"]:
            continue
        mgroups.setdefault(kinds(cases[i]), []).append(i)
    if mgroups:
        order = sorted(mgroups)
        mreps = [min(mgroups[k], key=lambda i: (size_of(cases[i]), i)) for k in order]
        outs = common.coq_eval_terms(ck, "py", PREAMBLE, [py_term(cases[i]) for i in mreps])
        for k, i, o in zip(order, mreps, outs):
            c, r = cases[i], results[i]
            ck.violation({"op": k[0], "lhs": k[1], "rhs": k[2], "class": "model"},
                         "Models/Ops.v (%s) predicts %s, the real method gives %s; the folded result still equals the "
                         "run-time value on all %d cases of this class (model out of date)" % (MODEL, o, r, len(mgroups[k])),
                         {"case": c, "python_result": r, "model": o, "python": one_liner(c)}, no_input=True)
    if replay is None or replay.get("e2e"):
        run_e2e(ck, 60 if quick else 400)
    if replay is None:
        probe_kinds(ck)
    for i in unmodelled[:5]:
        ck.violation({"op": kinds(cases[i])[0], "lhs": kinds(cases[i])[1], "rhs": kinds(cases[i])[2], "class": "malformed result"},
                     "the operation returned an object that is neither two-valued nor uninitialised: %s" % results[i],
                     {"case": cases[i], "python_result": results[i], "python": one_liner(cases[i])})


# ----------------------------------------------------------------------------
# (c) end to end: the same design with operands on input ports and with constant operands
# ----------------------------------------------------------------------------

E2E_SRC = """import cohdl
from cohdl import Bit, Port, Unsigned, Signed, BitVector, Integer, op
from cohdl import std

class W(cohdl.Entity):
    clk = Port.input(Bit)
    a = Port.input({ta})
    b = Port.input({tb})
    o = Port.output({tr})

    def architecture(self):
        @std.concurrent
        def logic():
            self.o <<= {expr}
"""

E2E_OPS = ["add", "sub", "mul", "lshift", "rshift", "and", "or", "xor", "concat", "eq", "lt", "ge",
           "mod", "rem", "truncdiv", "floordiv", "add", "sub", "mod", "lt", "ne", "le", "gt"]
E2E_CMP = ("eq", "ne", "lt", "le", "gt", "ge")
E2E_DIV = ("mod", "rem", "truncdiv", "floordiv")


def ty_src(kind, w):
    return {"u": "Unsigned[%d]" % w, "s": "Signed[%d]" % w, "bv": "BitVector[%d]" % w, "bit": "Bit", "bool": "bool"}[kind]


def expr_src(op, x, y):
    if op in PY_SYM:
        return "%s %s %s" % (x, PY_SYM[op], y)
    return "op.%s(%s, %s)" % (op, x, y)


def vhdl_val(d):
    k = d[0]
    if k == "u":
        return "(VV KUns %d %d)" % (d[1], d[2])
    if k == "s":
        return "(VV KSgn %d %d)" % (d[1], d[2] % (1 << d[1]))
    if k == "bv":
        return "(VV KSlv %d %d)" % (d[1], d[2])
    if k == "py":
        return "(VL false)"       # unused port of the int-literal variants
    return "(VL %s)" % ("true" if d[1] else "false")


def e2e_cases(rng, n):
    out = []
    # grid: every comparison of an Unsigned with a NEGATIVE Python int, in both operand orders (the back end folds these
    # comparisons itself because numeric_std only compares unsigned with NATURAL), and with ints just outside the range
    for op in E2E_CMP:
        for wa, v in ((1, 1), (3, 0), (3, 5)):
            for lit in (-1, -(1 << wa), (1 << wa)):
                out.append([op, ["u", wa, v], ["py", lit]])
                out.append([op, ["py", lit], ["u", wa, v]])
        for lit in (-5, 4):
            out.append([op, ["s", 3, -4], ["py", lit]])
            out.append([op, ["py", lit], ["s", 3, 3]])
    n += len(out)
    tries = 0
    while len(out) < n and tries < 50 * n:
        tries += 1
        op = E2E_OPS[len(out) % len(E2E_OPS)]
        kind = rng.choice(["u", "s"]) if op not in ("and", "or", "xor", "concat", "eq", "ne") else rng.choice(["u", "s", "bv"])
        wa = rng.choice([1, 2, 3, 4, 5, 8, 13])
        wb = rng.choice([wa, wa, rng.choice([1, 2, 3, 4, 5, 8])]) if op not in ("and", "or", "xor", "eq", "ne") else wa
        if op in ("lt", "ge", "le", "gt") and kind == "bv":
            continue
        a = [kind, wa, vec_value(rng, kind, wa)]
        if op == "floordiv" and kind == "s":
            kind = "u"
            a = [kind, wa, vec_value(rng, kind, wa)]
        if op in E2E_DIV + ("add", "sub") + E2E_CMP and kind != "bv" and rng.random() < 0.5:
            # vector (op) Python int, either order; the int is inside the vector's range (and not 0 as a divisor)
            lo, hi = (0, (1 << wa) - 1) if kind == "u" else (-(1 << (wa - 1)), (1 << (wa - 1)) - 1)
            lit = rng.randint(lo, hi)
            if rng.random() < 0.5:
                if op in E2E_DIV and lit == 0:
                    lit = hi
                out.append([op, a, ["py", lit]])
            else:
                if op in E2E_DIV and a[2] == 0:
                    a = [kind, wa, hi]
                out.append([op, ["py", lit], a])
            continue
        if op == "mul" and rng.random() < 0.6:
            # vector * int literal (the literal stays a literal in both variants), half of them outside the vector's range
            lo, hi = (0, (1 << wa) - 1) if kind == "u" else (-(1 << (wa - 1)), (1 << (wa - 1)) - 1)
            lit = rng.randint(lo, hi) if rng.random() < 0.5 else rng.choice([hi + 1, hi + 2, 2 * hi + 3, lo - 1 if kind == "s" else hi + 7])
            c = ["mul", a, ["py", lit]]
            out.append(c if rng.random() < 0.5 else ["mul", ["py", lit], a])
            continue
        kb = "u" if op in ("lshift", "rshift") else kind
        if op in ("lshift", "rshift"):
            wb = rng.choice([1, 2, 3])
        b = [kb, wb, vec_value(rng, kb, wb)]
        if op in E2E_DIV and b[2] == 0:
            b = [kb, wb, 1 if wb == 1 and kb == "u" else (-1 if wb == 1 else 1)]
        out.append([op, a, b])
    return out


def e2e_conversions(rng, n):
    """the conversion applied by an assignment to a wider / differently typed target: (source operand, target type)"""
    out = []
    # the grid first: every allowed (source kind, target kind, widening) with the top bit of the source set
    for w in (1, 3):
        allones = (1 << w) - 1
        for kt, wt in (("u", w), ("u", w + 2), ("s", w + 1), ("s", w + 3), ("bv", w)):
            out.append((["u", w, allones], (kt, wt)))
        for kt, wt in (("s", w), ("s", w + 2), ("bv", w)):
            out.append((["s", w, -1], (kt, wt)))
            out.append((["s", w, -(1 << (w - 1))], (kt, wt)))
        for kt in ("bv", "u", "s"):
            out.append((["bv", w, allones], (kt, w)))
    n += len(out)
    while len(out) < n:
        ks = rng.choice(["u", "u", "s", "bv"])
        w = rng.choice([1, 2, 3, 4, 5, 8])
        if ks == "u":
            kt, wt = rng.choice([("u", w + rng.choice([0, 1, 2, 5])), ("s", w + rng.choice([1, 2, 5])), ("bv", w)])
        elif ks == "s":
            kt, wt = rng.choice([("s", w + rng.choice([0, 1, 3])), ("bv", w)])
        else:
            kt, wt = rng.choice([("bv", w), ("u", w), ("s", w)])
        v = vec_value(rng, ks, w)
        if rng.random() < 0.5:
            v = ((1 << w) - 1) if ks != "s" else rng.choice([-1, -(1 << (w - 1))])     # top bit set
        out.append(([ks, w, v], (kt, wt)))
    return out


def run_e2e(ck, n):
    import explore as X
    import vhdl_reader as R
    cases = e2e_cases(ck.rng, n)
    folded = run_worker_sharded(cases)
    designs, meta = [], []
    for i, (c, r) in enumerate(zip(cases, folded)):
        op, a, b = c
        if r[0] != "v" or r[1] == "py":
            ck.hist("e2e", "fold not a value: " + r[0])
            continue
        tr = ty_src(r[1], r[2])
        ta = ty_src(a[0], a[1]) if a[0] != "py" else "Bit"
        tb = ty_src(b[0], b[1]) if b[0] != "py" else "Bit"
        designs.append({"name": "c09_p%d" % i, "entity": "W",
                        "source": E2E_SRC.format(ta=ta, tb=tb, tr=tr,
                                                 expr=expr_src(op, "self.a" if a[0] != "py" else py_expr(a),
                                                               "self.b" if b[0] != "py" else py_expr(b)))})
        designs.append({"name": "c09_k%d" % i, "entity": "W",
                        "source": E2E_SRC.format(ta=ta, tb=tb, tr=tr, expr=expr_src(op, py_expr(a), py_expr(b)))})
        meta.append((c, r))
    for i, (a, (kt, wt)) in enumerate(e2e_conversions(ck.rng, max(8, n // 6))):
        tr = ty_src(kt, wt)
        c = [["assign_to", kt, wt], a, ["py", 0]]
        designs.append({"name": "c09_cp%d" % i, "entity": "W",
                        "source": E2E_SRC.format(ta=ty_src(a[0], a[1]), tb="Bit", tr=tr, expr="self.a")})
        designs.append({"name": "c09_ck%d" % i, "entity": "W",
                        "source": E2E_SRC.format(ta=ty_src(a[0], a[1]), tb="Bit", tr=tr, expr=py_expr(a))})
        meta.append((c, ["v", kt, wt, None]))
    res = X.compile_designs(ck, designs)
    terms, info = [], []
    for j, (c, r) in enumerate(meta):
        rp, rk = res[2 * j], res[2 * j + 1]
        if not (rp["ok"] and rk["ok"]):
            # rejected at compile time in one of the variants: nothing to compare (the fold half is (a))
            ck.hist("e2e", "rejected: ports=%s constants=%s" % (rp["ok"], rk["ok"]))
            continue
        try:
            ddp, ddk = R.read_design(rp["vhdl"])[1], R.read_design(rk["vhdl"])[1]
            for dd in (ddp, ddk):
                for sd in dd.sigs:
                    # the test bench drives the operand values from time 0 (a divisor port must not power up as 0)
                    if sd.dir == "in" and sd.name in ("a", "b") and c[{"a": 1, "b": 2}[sd.name]][0] != "py":
                        opd = c[{"a": 1, "b": 2}[sd.name]]
                        sd.init = (("V", {"u": "uns", "s": "sgn", "bv": "slv"}[opd[0]], opd[1], opd[2] % (1 << opd[1]))
                                   if opd[0] in ("u", "s", "bv") else ("L", bool(opd[1])))
            dp, dk = R.design_to_coq(ddp), R.design_to_coq(ddk)
        except R.Unparsed as ex:
            ck.hist("e2e", "outside the reader's subset")
            ck.obligation(False)
            ck.violation({"op": c[0], "lhs": c[1][0], "rhs": c[2][0], "class": "e2e unparsed"},
                         "emitted VHDL outside the reader's subset: %s" % str(ex)[:200],
                         {"case": c, "sources": [designs[2 * j]["source"], designs[2 * j + 1]["source"]]}, no_input=True)
            continue
        inp = "[%s; %s]" % (vhdl_val(c[1]), vhdl_val(c[2]))
        terms.append("(snd (vstep (%s) false (power_up (%s)) %s), snd (vstep (%s) false (power_up (%s)) %s))" % (
            dp, dp, inp, dk, dk, inp))
        info.append((j, c, r))
    if not terms:
        return
    outs = common.coq_eval_terms(ck, "e2e", common.COQ_HEADER, terms, timeout=1200)
    for (j, c, r), o in zip(info, outs):
        ck.evaluations += 1
        m = re.match(r"\((.*), (Ok .*|Err .*)\)$", o)
        parts = None
        if m:
            # both components print identically when they are equal
            half = len(o) // 2
            parts = (o[1:half - 0].rstrip(", "), o[half + 1:-1].strip())
        same = parts is not None and parts[0] == parts[1] and parts[0].startswith("Ok")
        ck.obligation(same)
        ck.hist("e2e", "agree" if same else "differ")
        ck.nontrivial(["e2e", c[0], c[1][:2], c[2][:2]])
        if not same and not isinstance(c[0], str):
            ck.violation({"op": "assign", "src": c[1][0], "tgt": c[0][1], "class": "e2e"},
                         "an assignment converts a constant and a run-time value differently: %s -> %s[%d], source value %d: "
                         "(ports, constants) = %s" % (ty_src(c[1][0], c[1][1]), c[0][1], c[0][2], c[1][2], o[:300]),
                         {"case": c, "outputs_ports_constants": o, "source_ports": designs[2 * j]["source"],
                          "source_constants": designs[2 * j + 1]["source"]})
            continue
        if not same:
            key = {"op": c[0], "lhs": c[1][0], "rhs": c[2][0], "class": "e2e"}
            if int_factor_class(c):
                key = {"op": "mul", "class": "int_factor_out_of_vector_range", "stage": "e2e"}
                ck.count("e2e_int_factor_out_of_vector_range")
                if ck.cov["e2e_int_factor_out_of_vector_range"] > 1:
                    continue      # one report for the input class
            ck.violation(key,
                         "design with constant operands and design with the operands on input ports produce different "
                         "outputs for %s: (ports, constants) = %s" % (one_liner(c).split("r = ")[1].split(";")[0], o[:300]),
                         {"case": c, "folded": r, "outputs_ports_constants": o,
                          "source_ports": designs[2 * j]["source"], "source_constants": designs[2 * j + 1]["source"],
                          "python": one_liner(c)})
    ck.cov["e2e_designs"] = len(designs)


# ----------------------------------------------------------------------------
# folds that are defined although the emitted run-time operation is an error: does the compiler accept the run-time design?
# (recorded in the evidence only: the emitted text is property C02 / C06's)
# ----------------------------------------------------------------------------

PROBE_SRC = """import cohdl
from cohdl import Bit, Port, Unsigned, Signed, BitVector, Integer, Signal, op
from cohdl import std

class W(cohdl.Entity):
    clk = Port.input(Bit)
    a = Port.input(Unsigned[4])
    s = Port.input(Signed[4])
    b = Port.input(Bit)
    o = Port.output({to})

    def architecture(self):
        @std.concurrent
        def logic():
            i = Signal[Integer](5)
            self.o <<= {expr}
"""

PROBES = [
    ("unary minus on Unsigned (numeric_std defines none)", "Unsigned[4]", "-self.a"),
    ("negative int with Unsigned (NATURAL parameter of numeric_std)", "Unsigned[4]", "self.a + (-1)"),
    ("negative int with Unsigned (NATURAL parameter of numeric_std) [compare]", "Bit", "self.a < -1"),
    ("and/or/xor on Integer (no such VHDL operator)", "Bit", "(i | 3) == 7"),
    ("Bit and/or/xor Integer (duck typing through Integer._val; no such VHDL operator)", "Bit", "self.b & i"),
    ("Integer truncdiv/mod/rem by 0 folds to 0", "Bit", "(i % 0) == 0"),
    ("int operand outside the 32-bit VHDL integer range", "Bit", "(i + 2**31) == 7"),
    ("== / != of unrelated types (Python identity fallback: False / True)", "Bit", "self.a == self.s"),
    ("== / != of unrelated types (Python identity fallback: False / True) [Bit, Unsigned]", "Bit", "self.b != self.a"),
    ("int factor outside the vector range (known finding of C09)", "Unsigned[8]", "self.a * 17"),
]


def probe_kinds(ck):
    import explore as X
    designs = [{"name": "c09_probe%d" % i, "entity": "W", "source": PROBE_SRC.format(to=to, expr=e)}
               for i, (_, to, e) in enumerate(PROBES)]
    res = X.compile_designs(ck, designs)
    out = {}
    for (kind, _, e), r in zip(PROBES, res):
        if r["ok"]:
            lines = [ln.strip() for ln in r["vhdl"].split("\n") if re.search(r"temp\w* <= ", ln)]
            out[kind] = {"design": "o <<= " + e, "compiler": "accepted", "emitted": lines[:2]}
        else:
            out[kind] = {"design": "o <<= " + e, "compiler": "rejected", "error": r["error"][:160]}
    ck.cov["fold_defined_runtime_error_compiler"] = out
