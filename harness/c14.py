"""C14 - std.Fifo / std.Stack keep order, content and occupancy exact.

wrapper entities around the REAL std.Fifo / std.Stack -> real compiler -> VHDL -> parsed design;
per configuration a kernel-checked theorem: for all admissible input sequences the design's trace equals the
abstract queue / stack specification (Models/StdSpecs.v)."""
from __future__ import annotations
import common
import explore as X

FIFO_SRC = """import cohdl
from cohdl import Bit, Port, Unsigned, Null
from cohdl import std

class W(cohdl.Entity):
    clk = Port.input(Bit)
    push = Port.input(Bit)
    pop = Port.input(Bit)
    din = Port.input(Unsigned[{w}])
    dout = Port.output(Unsigned[{w}], default=Null)
    empty = Port.output(Bit)
    full = Port.output(Bit)

    def architecture(self):
        fifo = std.Fifo[Unsigned[{w}], {n}]()

        @std.sequential(std.Clock(self.clk))
        def proc():
            if self.push:
                fifo.push(self.din)
            if self.pop:
                self.dout <<= fifo.pop()

        @std.concurrent
        def logic():
            self.empty <<= fifo.empty()
            self.full <<= fifo.full()
"""

STACK_SRC = """import cohdl
from cohdl import Bit, Port, Unsigned, Null
from cohdl import std

class W(cohdl.Entity):
    clk = Port.input(Bit)
    push = Port.input(Bit)
    pop = Port.input(Bit)
    rst = Port.input(Bit)
    din = Port.input(Unsigned[{w}])
    dout = Port.output(Unsigned[{w}], default=Null)
    empty = Port.output(Bit)
    full = Port.output(Bit)
    size = Port.output(Unsigned[{sw}])

    def architecture(self):
        stack = std.Stack[Unsigned[{w}], {n}](mode=std.StackMode.{mode})

        @std.sequential(std.Clock(self.clk))
        def proc():
            if self.rst:
                stack.reset()
            elif self.push:
                stack.push(self.din)
            elif self.pop:
                self.dout <<= stack.pop()

        @std.concurrent
        def logic():
            self.empty <<= stack.empty()
            self.full <<= stack.full()
            self.size <<= stack.size()
"""


FIFO_DELAY_SRC = """import cohdl
from cohdl import Bit, Port, Unsigned, Null
from cohdl import std

class W(cohdl.Entity):
    clk = Port.input(Bit)
    push = Port.input(Bit)
    pop = Port.input(Bit)
    din = Port.input(Unsigned[{w}])
    pushed = Port.output(Bit, default=False)
    popped = Port.output(Bit, default=False)
    dout = Port.output(Unsigned[{w}], default=Null)

    def architecture(self):
        fifo = std.Fifo[Unsigned[{w}], {n}]({args})

        @std.sequential(std.Clock(self.clk))
        def producer():
            if self.push:
                if {full_first}:
                    fifo.push(self.din)
                    self.pushed ^= True

        @std.sequential(std.Clock(self.clk))
        def consumer():
            if self.pop:
                if {empty_first}:
                    self.dout <<= fifo.pop()
                    self.popped ^= True
"""


def configs(tier):
    fifo = [(2, 1), (3, 1), (4, 1), (2, 2)] if tier == "quick" else [(2, 1), (3, 1), (4, 1), (5, 1), (8, 1), (2, 2), (3, 2), (4, 2), (5, 2)]
    stack = [(1, 1), (2, 1), (3, 1)] if tier == "quick" else [(1, 1), (2, 1), (3, 1), (4, 1), (5, 1), (2, 2), (3, 2), (4, 2)]
    return fifo, stack


def run(ck: common.Check, replay=None):
    ck.check_props("C14_Properties.v")
    fifo_cfg, stack_cfg = configs(ck.tier)
    designs = []
    metas = []
    for n, w in fifo_cfg:
        name = f"fifo_n{n}_w{w}"
        designs.append({"name": name, "source": FIFO_SRC.format(n=n, w=w), "entity": "W"})
        metas.append(("fifo", n, w, None))
    for n, w in stack_cfg:
        for mode in ("NO_OVERFLOW", "DROP_OLD"):
            name = f"stack_n{n}_w{w}_{mode.lower()}"
            sw = n.bit_length()
            designs.append({"name": name, "source": STACK_SRC.format(n=n, w=w, sw=sw, mode=mode), "entity": "W"})
            metas.append(("stack", n, w, mode))
    # delayed Fifo: producer and consumer in different contexts (safety monitor)
    dl = [(2, 1, 1, 0), (3, 1, 1, 1)] if ck.tier == "quick" else [(n, 1, t, r) for n in (2, 3, 4) for (t, r) in ((1, 0), (0, 1), (1, 1), (2, 1))]
    for n, w, tx, rx in dl:
        args = ", ".join(a for a in (f"tx_delay={tx}" if tx else "", f"rx_delay={rx}" if rx else "") if a)
        name = f"fifo_delay_n{n}_w{w}_t{tx}_r{rx}"
        designs.append({"name": name, "source": FIFO_DELAY_SRC.format(n=n, w=w, args=args, full_first="~fifo.full()", empty_first="~fifo.empty()"), "entity": "W"})
        metas.append(("fifo_delay", n, w, (tx, rx)))
    res = X.compile_designs(ck, designs)
    cases = []
    for dsg, meta, r in zip(designs, metas, res):
        kind, n, w, mode = meta
        if not r["ok"]:
            ck.obligation(False)
            ck.violation({"config": dsg["name"]}, "wrapper around the real component no longer compiles: " + r["error"][:200],
                         {"source": dsg["source"], "error": r.get("trace", r["error"])}, no_input=True)
            continue
        if kind == "fifo_delay":
            tx, rx = mode
            k = 2 * (tx + rx) + 4
            c = X.Case(dsg["name"], r["vhdl"], step=f"fifo_monitor {n} {k}%Z", init="[0%Z; 0%Z]", monitor=True,
                       imports="From Cohdl Require Import Models.StdSpecs.",
                       meta={"component": "Fifo (two contexts)", "N": n, "w": w, "tx_delay": tx, "rx_delay": rx,
                             "response_bound": k, "source": dsg["source"]})
        elif kind == "fifo":
            c = X.Case(dsg["name"], r["vhdl"], step=f"queue_step {n} {w}%N", init="[0%Z]",
                       assume=f"queue_assume {n}", imports="From Cohdl Require Import Models.StdSpecs.",
                       meta={"component": "Fifo", "N": n, "w": w, "source": dsg["source"]})
        else:
            drop = "true" if mode == "DROP_OLD" else "false"
            c = X.Case(dsg["name"], r["vhdl"], step=f"stack_step {n} {w}%N {n.bit_length()}%N {drop}", init="[0%Z]",
                       assume=f"stack_assume {n} {drop}", imports="From Cohdl Require Import Models.StdSpecs.",
                       meta={"component": "Stack", "N": n, "w": w, "mode": mode, "source": dsg["source"]})
        cases.append(c)
        ck.hist("components", kind)
    X.run_cases(ck, cases, "compiled component and its abstract specification differ on an admissible input sequence",
                key_of=lambda c: {"config": c.name})
    ck.cov["rule"] = ("one case per configuration (component, capacity N, data width w, stack mode); each case is a theorem over "
                      "all admissible input sequences; all are non-trivial")
    ck.trusted += ["fail-closed VHDL reader (harness/vhdl_reader.py)", "Vhdl.Sem (modelled VHDL-93 simulation cycle)",
                   "queue_step/stack_step (Models/StdSpecs.v) as the rendering of the documented behaviour"]
    ck.assumptions += ["configurations quantifier is enumerated up to the listed N and w; producer and consumer share one clock",
                       "memory cells without initial value start at zero (unobservable before the first push under the preconditions)"]
