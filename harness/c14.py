"""C14 - std.Fifo / std.Stack keep order, content and occupancy exact.

wrapper entities around the REAL std.Fifo / std.Stack -> real compiler -> VHDL -> parsed design;
per configuration a kernel-checked theorem: for all admissible input sequences the design's trace equals the
abstract queue / stack specification (Models/StdSpecs.v); and a second one: ... equals the trace of the AS-CODED
model of that size (Models/Ring.v: ring_step N / stackm_step N - memory, index registers and index arithmetic as
written in cohdl/std/utility.py), about which Models/RingProofs.v proves for ALL N that it refines the abstract
specification (C14_*_all_N theorems of Props/C14_Properties.v)."""
from __future__ import annotations
import common
import explore as X

FIFO_SRC = """import cohdl
from cohdl import Bit, Port, Unsigned, Null
from cohdl import std

class W(cohdl.Entity):
    clk = Port.input(Bit)
    push = Port.input(Bit)
    pop = Port.input(Bit)
    din = Port.input(Unsigned[{w}])
    dout = Port.output(Unsigned[{w}], default=Null)
    empty = Port.output(Bit)
    full = Port.output(Bit)

    def architecture(self):
        fifo = std.Fifo[Unsigned[{w}], {n}]()

        @std.sequential(std.Clock(self.clk))
        def proc():
            if self.push:
                fifo.push(self.din)
            if self.pop:
                self.dout <<= fifo.pop()

        @std.concurrent
        def logic():
            self.empty <<= fifo.empty()
            self.full <<= fifo.full()
"""

STACK_SRC = """import cohdl
from cohdl import Bit, Port, Unsigned, Null
from cohdl import std

class W(cohdl.Entity):
    clk = Port.input(Bit)
    push = Port.input(Bit)
    pop = Port.input(Bit)
    rst = Port.input(Bit)
    din = Port.input(Unsigned[{w}])
    dout = Port.output(Unsigned[{w}], default=Null)
    empty = Port.output(Bit)
    full = Port.output(Bit)
    size = Port.output(Unsigned[{sw}])

    def architecture(self):
        stack = std.Stack[Unsigned[{w}], {n}](mode=std.StackMode.{mode})

        @std.sequential(std.Clock(self.clk))
        def proc():
            if self.rst:
                stack.reset()
            elif self.push:
                stack.push(self.din)
            elif self.pop:
                self.dout <<= stack.pop()

        @std.concurrent
        def logic():
            self.empty <<= stack.empty()
            self.full <<= stack.full()
            self.size <<= stack.size()
"""


FIFO_DELAY_SRC = """import cohdl
from cohdl import Bit, Port, Unsigned, Null
from cohdl import std

class W(cohdl.Entity):
    clk = Port.input(Bit)
    push = Port.input(Bit)
    pop = Port.input(Bit)
    din = Port.input(Unsigned[{w}])
    pushed = Port.output(Bit, default=False)
    popped = Port.output(Bit, default=False)
    dout = Port.output(Unsigned[{w}], default=Null)

    def architecture(self):
        fifo = std.Fifo[Unsigned[{w}], {n}]({args})

        @std.sequential(std.Clock(self.clk))
        def producer():
            if self.push:
                if {full_first}:
                    fifo.push(self.din)
                    self.pushed ^= True

        @std.sequential(std.Clock(self.clk))
        def consumer():
            if self.pop:
                if {empty_first}:
                    self.dout <<= fifo.pop()
                    self.popped ^= True
"""


def configs(tier):
    fifo = [(2, 1), (3, 1), (4, 1), (2, 2)] if tier == "quick" else [(2, 1), (3, 1), (4, 1), (5, 1), (8, 1), (2, 2), (3, 2), (4, 2), (5, 2)]
    stack = [(1, 1), (2, 1), (3, 1)] if tier == "quick" else [(1, 1), (2, 1), (3, 1), (4, 1), (5, 1), (2, 2), (3, 2), (4, 2)]
    return fifo, stack


def run(ck: common.Check, replay=None):
    ck.check_props("C14_Properties.v")
    fifo_cfg, stack_cfg = configs(ck.tier)
    designs = []
    metas = []
    for n, w in fifo_cfg:
        name = f"fifo_n{n}_w{w}"
        designs.append({"name": name, "source": FIFO_SRC.format(n=n, w=w), "entity": "W"})
        metas.append(("fifo", n, w, None))
    for n, w in stack_cfg:
        for mode in ("NO_OVERFLOW", "DROP_OLD"):
            name = f"stack_n{n}_w{w}_{mode.lower()}"
            sw = n.bit_length()
            designs.append({"name": name, "source": STACK_SRC.format(n=n, w=w, sw=sw, mode=mode), "entity": "W"})
            metas.append(("stack", n, w, mode))
    # delayed Fifo: producer and consumer in different contexts (safety monitor)
    dl = [(2, 1, 1, 0), (3, 1, 1, 1)] if ck.tier == "quick" else [(n, 1, t, r) for n in (2, 3, 4) for (t, r) in ((1, 0), (0, 1), (1, 1), (2, 1))]
    for n, w, tx, rx in dl:
        args = ", ".join(a for a in (f"tx_delay={tx}" if tx else "", f"rx_delay={rx}" if rx else "") if a)
        name = f"fifo_delay_n{n}_w{w}_t{tx}_r{rx}"
        designs.append({"name": name, "source": FIFO_DELAY_SRC.format(n=n, w=w, args=args, full_first="~fifo.full()", empty_first="~fifo.empty()"), "entity": "W"})
        metas.append(("fifo_delay", n, w, (tx, rx)))
    # regression (d369d21): a Fifo with a single memory cell cannot hold N-1 = 0 elements sensibly; it must be rejected
    n1 = X.compile_designs(ck, [{"name": "fifo_n1_w1", "source": FIFO_SRC.format(n=1, w=1), "entity": "W"}])[0]
    ck.evaluations += 1
    ck.obligation(not n1["ok"])
    if n1["ok"]:
        ck.violation({"config": "fifo_n1"}, "std.Fifo[T, 1] is accepted: it holds one element instead of N-1 = 0 and push, pop, push "
                     "addresses mem(1) of a one-cell memory", {"source": FIFO_SRC.format(n=1, w=1), "inputs": ["push", "pop", "push"],
                                                                "vhdl": n1["vhdl"]})
    res = X.compile_designs(ck, designs)
    cases = []
    ring_cases = []
    by_theorem = []

    def direct_ok(est_transitions, name):
        """the second exploration (against the as-coded model) is run for configurations whose estimated product
        (memory x indices x dout x inputs) is moderate; for the largest thorough-tier configurations the tie is the
        all-sizes theorem C14_*_code_matches_*_all_N applied to the abstract-specification case of that configuration"""
        if est_transitions <= 600000:
            return True
        by_theorem.append(name)
        return False
    for dsg, meta, r in zip(designs, metas, res):
        kind, n, w, mode = meta
        if not r["ok"]:
            ck.obligation(False)
            ck.violation({"config": dsg["name"]}, "wrapper around the real component no longer compiles: " + r["error"][:200],
                         {"source": dsg["source"], "error": r.get("trace", r["error"])}, no_input=True)
            continue
        if kind == "fifo_delay":
            tx, rx = mode
            k = 2 * (tx + rx) + 4
            c = X.Case(dsg["name"], r["vhdl"], step=f"fifo_monitor {n} {k}%Z", init="[0%Z; 0%Z]", monitor=True,
                       imports="From Cohdl Require Import Models.StdSpecs.",
                       meta={"component": "Fifo (two contexts)", "N": n, "w": w, "tx_delay": tx, "rx_delay": rx,
                             "response_bound": k, "source": dsg["source"]})
        elif kind == "fifo":
            c = X.Case(dsg["name"], r["vhdl"], step=f"queue_step {n} {w}%N", init="[0%Z]",
                       assume=f"queue_assume {n}", imports="From Cohdl Require Import Models.StdSpecs.",
                       meta={"component": "Fifo", "N": n, "w": w, "source": dsg["source"]})
            # second theorem for the same VHDL: the as-coded ring-buffer model (Models/Ring.v), about which
            # Models/RingProofs.v proves the refinement to queue_step for ALL N
            if not direct_ok(2 ** (n * w) * n * n * 2 ** w * 2 ** (2 + w), dsg["name"]):
                continue
            ring_cases.append(X.Case(dsg["name"] + "_ring", r["vhdl"], step=f"ring_step {n} {w}%N", init=f"ring_init {n}",
                                     assume=f"ring_assume {n}", imports="From Cohdl Require Import Models.Ring.",
                                     meta={"component": "Fifo", "reference": "as-coded model ring_step (Models/Ring.v)",
                                           "N": n, "w": w, "source": dsg["source"]}))
        else:
            drop = "true" if mode == "DROP_OLD" else "false"
            c = X.Case(dsg["name"], r["vhdl"], step=f"stack_step {n} {w}%N {n.bit_length()}%N {drop}", init="[0%Z]",
                       assume=f"stack_assume {n} {drop}", imports="From Cohdl Require Import Models.StdSpecs.",
                       meta={"component": "Stack", "N": n, "w": w, "mode": mode, "source": dsg["source"]})
            if not direct_ok(2 ** (n * w) * (n + 1) ** 2 * 2 ** w * 2 ** (3 + w), dsg["name"]):
                continue
            ring_cases.append(X.Case(dsg["name"] + "_ring", r["vhdl"],
                                     step=f"stackm_step {n} {w}%N {n.bit_length()}%N {drop}", init=f"stackm_init {n}",
                                     assume=f"stackm_assume {n} {drop}", imports="From Cohdl Require Import Models.Ring.",
                                     meta={"component": "Stack", "reference": "as-coded model stackm_step (Models/Ring.v)",
                                           "N": n, "w": w, "mode": mode, "source": dsg["source"]}))
        cases.append(c)
        ck.hist("components", kind)
    # the as-coded-model cases run in the same parallel batch, after the abstract-specification cases.
    # A difference between the VHDL and the as-coded model while the abstract-specification theorem of the same
    # configuration holds is not a violation of the property (which is decided on the abstract specification):
    # it means Models/Ring.v no longer describes the code, and is reported as a correspondence that no longer checks.
    failed = set()
    orig_violation = ck.violation

    def violation(key, what, replay, no_input=False):
        cfg = key.get("config", "")
        if cfg.endswith("_ring"):
            what = "emitted VHDL and the as-coded model (Models/Ring.v) differ: " + what
            if cfg[:-5] not in failed:
                what += " [the abstract-specification theorem of this configuration holds: the model is out of date]"
                no_input = True
        else:
            failed.add(cfg)
        return orig_violation(key, what, replay, no_input)
    ck.violation = violation
    try:
        X.run_cases(ck, cases + ring_cases, "compiled component and its reference machine differ on an admissible input sequence",
                    key_of=lambda c: {"config": c.name})
    finally:
        ck.violation = orig_violation
    ck.cov["as_coded_model_cases"] = len(ring_cases)
    ck.cov["as_coded_model_tied_by_theorem_only"] = by_theorem
    ck.cov["rule"] = ("one case per configuration (component, capacity N, data width w, stack mode); each case is a theorem over "
                      "all admissible input sequences; all are non-trivial")
    ck.trusted += ["fail-closed VHDL reader (harness/vhdl_reader.py)", "Vhdl.Sem (modelled VHDL-93 simulation cycle)",
                   "queue_step/stack_step (Models/StdSpecs.v) as the rendering of the documented behaviour"]
    ck.cov["all_sizes"] = ("Models/RingProofs.v: for every N >= 2 (Fifo) / N >= 1 (Stack, both modes), every data width and every "
                           "admissible input sequence the as-coded models ring_step N / stackm_step N have the trace of queue_step N / "
                           "stack_step N; the '*_ring' cases tie these models to the emitted VHDL per configuration")
    ck.assumptions += ["configurations quantifier is enumerated up to the listed N and w; producer and consumer share one clock",
                       "memory cells without initial value start at zero (unobservable before the first push under the preconditions)"]
