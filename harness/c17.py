"""C17 - serialisation round-trips with the documented bit layout.

random type compositions (JSON descriptions) -> c17_worker.py builds them with the REAL classes and records
count_bits / to_bits / from_bits(to_bits(x)) / to_bits(from_bits(b)) -> compared inside Coq with Models/Ser.v
(tcase_ok / bcase_ok) and, independently, with the Python specification below (width, round trips, layout:
first record field and array element 0 at the least significant bits, BitField exact ranges).
"""
from __future__ import annotations
import json

import common

# ----------------------------------------------------------------------------
# specification (independent of the worker and of the Coq model)
# ----------------------------------------------------------------------------

VEC = ("bv", "u", "s")


def spec_width(t):
    k = t[0]
    if k in ("bit", "bool"):
        return 1
    if k in VEC or k == "bf":
        return t[1]
    if k in ("carr", "sarr"):
        return t[2] * spec_width(t[1])
    if k == "rec":
        return sum(spec_width(f) for f in t[1])
    if k == "enum":
        return spec_width(t[1])
    if k in ("sfix", "ufix"):
        return t[1] - t[2] + 1
    raise AssertionError(t)


def int_bits(v, n):
    return [(v >> i) & 1 for i in range(n)]


def str_bits(s):
    return [int(c) for c in reversed(s)]


def bits_str(bits):
    return "".join(str(b) for b in reversed(bits))


def spec_bits(t, v):
    """LSB-first bit list; first field / element 0 at the least significant end"""
    k = t[0]
    if k in ("bit", "bool"):
        return [1 if v else 0]
    if k in ("bv", "bf"):
        return str_bits(v)
    if k in ("u", "s"):
        return int_bits(v, t[1])
    if k in ("carr", "sarr"):
        return [b for e in v for b in spec_bits(t[1], e)]
    if k == "rec":
        return [b for ft, fv in zip(t[1], v) for b in spec_bits(ft, fv)]
    if k == "enum":
        return spec_bits(t[1], v)
    if k in ("sfix", "ufix"):
        return int_bits(v, spec_width(t))
    raise AssertionError(t)


def bits_int(bits, signed=False):
    v = sum(b << i for i, b in enumerate(bits))
    if signed and bits and bits[-1]:
        v -= 1 << len(bits)
    return v


def spec_value(t, bits):
    """inverse of spec_bits: value description read from an LSB-first bit list of the right length"""
    k = t[0]
    assert len(bits) == spec_width(t)
    if k in ("bit", "bool"):
        return bits[0]
    if k in ("bv", "bf"):
        return bits_str(bits)
    if k == "u" or k == "ufix":
        return bits_int(bits)
    if k == "s" or k == "sfix":
        return bits_int(bits, True)
    if k in ("carr", "sarr"):
        w = spec_width(t[1])
        return [spec_value(t[1], bits[i * w:(i + 1) * w]) for i in range(t[2])]
    if k == "rec":
        out, off = [], 0
        for ft in t[1]:
            w = spec_width(ft)
            out.append(spec_value(ft, bits[off:off + w]))
            off += w
        return out
    if k == "enum":
        return spec_value(t[1], bits)
    raise AssertionError(t)


def spec_dump(t, v):
    """the canonical dump (format of c17_worker.dump) a correct implementation yields for value v"""
    k = t[0]
    if k in ("bit", "bool"):
        return [k, 1 if v else 0]
    if k in ("bv", "bf"):
        return [k, v]
    if k in ("u", "s"):
        return [k, t[1], v]
    if k == "carr":
        return ["carr", [spec_dump(t[1], e) for e in v]]
    if k == "sarr":
        return ["sarr", ["carr", [spec_stored(t[1], e) for e in v]]]
    if k == "rec":
        return ["rec", [spec_dump(ft, fv) for ft, fv in zip(t[1], v)]]
    if k == "enum":
        return ["enum", spec_dump(t[1], v)]
    if k in ("sfix", "ufix"):
        return [k, t[1], t[2], v]
    raise AssertionError(t)


def spec_stored(et, e):
    """what std.Array keeps for one element: nested arrays as arrays, everything else serialised"""
    if et[0] == "carr":
        return spec_dump(et, e)
    if et[0] == "sarr":
        return spec_dump(et, e)[1]
    return ["bv", bits_str(spec_bits(et, e))]


# ----------------------------------------------------------------------------
# Coq terms
# ----------------------------------------------------------------------------

def cz(z):
    return "(%d)%%Z" % z


def cB(s):
    """msb-first string -> Coq bit list (LSB first)"""
    return "(B %d %s)" % (len(s), cz(int(s, 2) if s else 0))


def cb(b):
    return "true" if b else "false"


def ty_coq(t):
    k = t[0]
    if k == "bit":
        return "TBit"
    if k == "bool":
        return "TBool"
    if k in VEC:
        return "(%s %d)" % ({"bv": "TBV", "u": "TU", "s": "TS"}[k], t[1])
    if k == "carr":
        return "(TCArr %s %d)" % (ty_coq(t[1]), t[2])
    if k == "sarr":
        return "(TSArr %s %d)" % (ty_coq(t[1]), t[2])
    if k == "rec":
        r = "FNil"
        for f in reversed(t[1]):
            r = "(FCons %s %s)" % (ty_coq(f), r)
        return "(TRec %s)" % r
    if k == "enum":
        return "(TEnum %s)" % ty_coq(t[1])
    if k == "sfix":
        return "(TSFix %s %s)" % (cz(t[1]), cz(t[2]))
    if k == "ufix":
        return "(TUFix %s %s)" % (cz(t[1]), cz(t[2]))
    if k == "bf":
        return "(TBF %d)" % t[1]
    raise AssertionError(t)


def val_coq(t, v):
    """model value built the way the worker builds the real one (std.Array through sarr_make)"""
    k = t[0]
    if k == "bit":
        return "(VBit %s)" % cb(v)
    if k == "bool":
        return "(VBool %s)" % cb(v)
    if k == "bv":
        return "(VBV %s)" % cB(v)
    if k == "bf":
        return "(VBF %s)" % cB(v)
    if k == "u":
        return "(VU %d %s)" % (t[1], cz(v))
    if k == "s":
        return "(VS %d %s)" % (t[1], cz(v))
    if k == "carr":
        return "(VCArr [%s])" % "; ".join(val_coq(t[1], e) for e in v)
    if k == "sarr":
        return "(sarr_make %s [%s])" % (ty_coq(t[1]), "; ".join(val_coq(t[1], e) for e in v))
    if k == "rec":
        return "(VRec [%s])" % "; ".join(val_coq(ft, fv) for ft, fv in zip(t[1], v))
    if k == "enum":
        return "(VEnum %s)" % val_coq(t[1], v)
    if k == "sfix":
        return "(VSFix %s %s %s)" % (cz(t[1]), cz(t[2]), cz(v))
    if k == "ufix":
        return "(VUFix %s %s %s)" % (cz(t[1]), cz(t[2]), cz(v))
    raise AssertionError(t)


def dump_coq(d):
    k = d[0]
    if k == "bit":
        return "(VBit %s)" % cb(d[1])
    if k == "bool":
        return "(VBool %s)" % cb(d[1])
    if k == "bv":
        return "(VBV %s)" % cB(d[1])
    if k == "bf":
        return "(VBF %s)" % cB(d[1])
    if k == "u":
        return "(VU %d %s)" % (d[1], cz(d[2]))
    if k == "s":
        return "(VS %d %s)" % (d[1], cz(d[2]))
    if k == "carr":
        return "(VCArr [%s])" % "; ".join(dump_coq(e) for e in d[1])
    if k == "sarr":
        return "(VSArr %s)" % dump_coq(d[1])
    if k == "rec":
        return "(VRec [%s])" % "; ".join(dump_coq(e) for e in d[1])
    if k == "enum":
        return "(VEnum %s)" % dump_coq(d[1])
    if k == "sfix":
        return "(VSFix %s %s %s)" % (cz(d[1]), cz(d[2]), cz(d[3]))
    if k == "ufix":
        return "(VUFix %s %s %s)" % (cz(d[1]), cz(d[2]), cz(d[3]))
    raise AssertionError(d)


def decl_coq(fields, path):
    """bfdecl for the field reached by `path` through the (nested) field list"""
    f = dict((n, d) for n, d in fields)[path[0]]
    if f[0] == "bit":
        return "(FBit %d)" % f[1]
    if f[0] == "vec":
        return "(FVec %d %d)" % (f[1], f[2])
    return "(FSub %d %d %s)" % (f[1], f[2], decl_coq(f[3], path[1:]))


# ----------------------------------------------------------------------------
# generators
# ----------------------------------------------------------------------------

WIDTHS = [1, 1, 2, 2, 3, 3, 4, 5, 5, 6, 7, 7, 8, 9, 11, 13, 15, 16, 17, 23, 31, 32, 33]


class Gen:
    def __init__(self, rng, max_depth, cap):
        self.rng = rng
        self.max_depth = max_depth
        self.cap = cap

    def width(self, small=False):
        r = self.rng
        return r.choice(WIDTHS[:12]) if small or r.random() < 0.6 else r.choice(WIDTHS)

    def vec(self):
        return [self.rng.choice(VEC), self.width()]

    def leaf(self, in_sarr=False):
        r = self.rng
        x = r.random()
        if in_sarr and x >= 0.90:
            # to_bits(BitField) is Temporary-qualified; a std.Array cannot store that outside the compiler
            x = r.random() * 0.9
        if x < 0.12:
            return ["bit"]
        if x < 0.20:
            return ["bool"]
        if x < 0.62:
            return self.vec()
        if x < 0.74:
            return ["enum", self.vec(), r.random() < 0.4]
        if x < 0.90:
            w = self.width(small=True)
            right = r.randint(-9, 6)
            return [r.choice(["sfix", "ufix"]), right + w - 1, right]
        return ["bf", self.width()]

    def prim(self, depth):
        """element type admissible for cohdl.Array (primitive types only)"""
        r = self.rng
        if depth > 0 and r.random() < 0.3:
            return ["carr", self.prim(depth - 1), r.randint(1, 4)]
        return ["bit"] if r.random() < 0.25 else self.vec()

    def ty(self, depth, in_sarr=False):
        r = self.rng
        if depth <= 0 or r.random() < 0.22:
            return self.leaf(in_sarr)
        x = r.random()
        if x < 0.2:
            return ["carr", self.prim(depth - 1), r.randint(1, 5)]
        if x < 0.5:
            return ["sarr", self.ty(depth - 1, True), r.randint(1, 5)]
        n = r.choice([1, 2, 2, 3, 3, 4, 5, 6])
        fields = [self.ty(depth - 1, in_sarr) for _ in range(n)]
        return ["rec", fields, self.style(fields)]

    def style(self, fields):
        st = self.style0(fields)
        # how record VALUES are constructed: keywords in declaration order, keywords reversed / rotated, positional, mixed
        st["ctor"] = self.rng.choice(["kw", "rev", "rot", "pos", "mix"])
        return st

    def style0(self, fields):
        r = self.rng
        how = r.choice(["type", "class", "inherit", "inherit", "templ", "templ"])
        if how == "templ":
            ws = [f[1] for f in fields if f[0] in VEC]
            if not ws:
                return {"how": "class"}
            st = {"how": "templ", "w": r.choice(ws)}
            if r.random() < 0.5 and len(fields) >= 2:
                # the template declaration itself inherits from another template declaration
                n = len(fields)
                groups = r.randint(2, 3)
                cuts = sorted(r.randint(0, n) for _ in range(groups - 1))
                st["split"] = [b - a for a, b in zip([0] + cuts, cuts + [n])]
                st["touch"] = r.random() < 0.5
            return st
        if how == "inherit":
            n = len(fields)
            groups = r.randint(2, 4)
            cuts = sorted(r.randint(0, n) for _ in range(groups - 1))
            split = [b - a for a, b in zip([0] + cuts, cuts + [n])]
            # touch: every class of the chain is serialised (count_bits) as soon as it is declared, base first
            return {"how": "inherit", "split": split, "touch": r.random() < 0.5}
        return {"how": how}

    def top(self):
        for _ in range(200):
            d = self.rng.randint(1, self.max_depth)
            t = self.ty(d)
            if 1 <= spec_width(t) <= self.cap:
                return t
        return ["bv", 7]

    # -- values ---------------------------------------------------------------
    def value(self, t, mode="rand"):
        r = self.rng
        k = t[0]
        if k in ("bit", "bool"):
            return {"rand": r.randint(0, 1), "zeros": 0, "min": 0}.get(mode, 1)
        if k in ("bv", "bf"):
            n = t[1]
            if mode == "rand":
                return "".join(r.choice("01") for _ in range(n))
            if mode == "alt":
                return ("10" * n)[:n]
            return ("0" if mode in ("zeros", "min") else "1") * n
        if k in ("u", "ufix"):
            n = spec_width(t)
            return {"rand": r.getrandbits(n), "zeros": 0, "min": 0, "alt": (1 << n) // 3}.get(mode, (1 << n) - 1)
        if k in ("s", "sfix"):
            n = spec_width(t)
            lo, hi = -(1 << (n - 1)), (1 << (n - 1)) - 1
            return {"rand": r.randint(lo, hi), "zeros": 0, "ones": -1, "min": lo, "max": hi, "alt": hi // 3}[mode]
        if k in ("carr", "sarr"):
            return [self.value(t[1], mode) for _ in range(t[2])]
        if k == "rec":
            return [self.value(f, mode) for f in t[1]]
        if k == "enum":
            return self.value(t[1], mode)
        raise AssertionError(t)

    # -- bitfields --------------------------------------------------------------
    def bf_fields(self, w, depth, names):
        r = self.rng
        fields = []
        for _ in range(r.randint(1, 4)):
            name = "m%d" % len(names)
            names.append(name)
            x = r.random()
            if x < 0.3:
                fields.append([name, ["bit", r.randrange(w)]])
            elif x < 0.75 or depth <= 0 or w < 2:
                lo = r.randrange(w)
                hi = r.randint(lo, w - 1)
                fields.append([name, ["vec", hi, lo, r.choice(["bv", "u", "s", "BitVector"])]])
            else:
                sw = r.randint(1, w)
                off = r.randint(0, w - sw)
                fields.append([name, ["sub", off, sw, self.bf_fields(sw, depth - 1, names), r.choice(["int", "slice"])]])
        return fields

    def bf_paths(self, fields):
        out = []
        for name, f in fields:
            if f[0] == "sub":
                out += [[name] + p for p in self.bf_paths(f[3])]
            else:
                out.append([name])
        return out

    def bf_case(self, invalid=False):
        r = self.rng
        w = r.choice([1, 2, 3, 4, 5, 8, 9, 16, 17, 32, 33])
        if invalid:
            x = r.random()
            if x < 0.35:
                fields = [["m0", ["bit", w + r.randint(0, 2)]]]
            elif x < 0.7:
                fields = [["m0", ["vec", w + r.randint(0, 2), r.randrange(w), "bv"]]]
            else:
                sw = r.randint(1, w)
                fields = [["m0", ["sub", w - sw + r.randint(1, 2), sw, [["m1", ["bit", 0]]], "int"]]]
        else:
            fields = self.bf_fields(w, 2, [])
        vec = "".join(r.choice("01") for _ in range(w))
        ops = []
        for p in self.bf_paths(fields):
            lo, n = bf_spec_range(fields, p)
            ops.append({"path": p, "wr": "".join(r.choice("01") for _ in range(n))})
            ops.append({"path": p, "wr": bits_str([1 - b for b in str_bits(vec)[lo:lo + n]]) if lo + n <= w else "0" * n})
        return {"w": w, "fields": fields, "vec": vec, "ops": ops, "invalid": invalid}


def bf_spec_range(fields, path, base=0):
    f = dict((n, d) for n, d in fields)[path[0]]
    if f[0] == "bit":
        return base + f[1], 1
    if f[0] == "vec":
        return base + f[2], max(f[1] - f[2] + 1, 1)
    return bf_spec_range(f[3], path[1:], base + f[1])


# fixed regression corpus: one per anchored mechanism (shapes of upstream test_serialization / record / array / enum)
def R(fields, **style):
    return ["rec", fields, style or {"how": "type"}]


CORPUS = [
    ["bit"], ["bool"], ["bv", 1], ["bv", 17], ["u", 5], ["s", 1], ["s", 9], ["s", 33],
    ["carr", ["bit"], 4], ["carr", ["u", 7], 3], ["carr", ["carr", ["s", 4], 4], 3],
    ["carr", ["carr", ["carr", ["s", 2], 4], 4], 3],
    ["sarr", ["bit"], 2], ["sarr", ["carr", ["bv", 2], 2], 3], ["sarr", ["sarr", ["bv", 2], 2], 3],
    ["sarr", ["sarr", ["sarr", ["s", 3], 2], 3], 2],
    R([["bit"]]), R([["bit"], ["bit"]], how="inherit", split=[1, 1]),
    R([["bit"], ["bit"], ["s", 7]], how="inherit", split=[1, 1, 0, 1]),
    R([["bit"], ["bv", 15]], how="inherit", split=[1, 0, 1]),
    # the base record is serialised before the derived one is first used
    R([["bit"], ["bv", 3]], how="inherit", split=[1, 1], touch=True),
    R([["u", 2], ["bit"], ["s", 3]], how="inherit", split=[1, 1, 1], touch=True),
    ["sarr", R([["bv", 2], ["bit"], ["u", 2]], how="inherit", split=[2, 1], touch=True), 2],
    R([R([["bit"], ["u", 2]], how="inherit", split=[1, 1], touch=True), ["bit"]], how="class"),
    R([["bv", 4], ["bit"], ["u", 4]], how="templ", w=4, split=[1, 2], touch=True),
    R([["bool"]]), R([["sarr", ["bit"], 4]]), R([["carr", ["bv", 4], 3]]),
    R([["bit"], ["bv", 4], ["u", 4], ["s", 4]], how="templ", w=4),
    R([R([["bit"], ["bv", 2], ["u", 2], ["s", 2]], how="templ", w=2),
       R([["bit"], ["bv", 8], ["u", 8], ["s", 8]], how="templ", w=8), ["bit"], ["bv", 2]], how="templ", w=2),
    ["sarr", R([["bit"], ["u", 3], ["s", 5]], how="class"), 3],
    R([["bit"], ["u", 3], ["s", 5]], how="class", ctor="rev"), R([["bv", 2], ["u", 3], ["bit"]], how="type", ctor="mix"),
    R([["bv", 2], ["u", 3], ["bit"], ["s", 2]], how="inherit", split=[2, 2], ctor="rot"),
    R([["bv", 4], ["bit"], ["u", 4]], how="templ", w=4, split=[1, 2], ctor="pos"),
    R([["bit"], ["bv", 3], ["u", 2], ["s", 3]], how="templ", w=3, split=[2, 1, 1], ctor="rev"),
    ["sarr", R([["u", 3], ["sarr", R([["bit"], ["s", 2]]), 2], ["bit"]], how="class"), 2],
    ["enum", ["u", 3], False], ["enum", ["bv", 4], True], ["enum", ["s", 2], False],
    ["sfix", 3, -2], ["sfix", 3, 3], ["ufix", 3, -2], ["ufix", -3, -7], ["sfix", 9, 2],
    ["bf", 1], ["bf", 16],
    R([["sfix", 1, -2], ["enum", ["s", 3], False], ["bf", 4], ["ufix", 3, 1], ["bool"]], how="class"),
    # rejected: records without a single bit
    R([]), R([R([])]), ["sarr", R([]), 2],
]


# ----------------------------------------------------------------------------
# the check
# ----------------------------------------------------------------------------

PREAMBLE = common.COQ_HEADER + "From Cohdl Require Import Models.Ser.\n"


def top_components(t):
    """[(offset, width)] of the top-level fields / elements, by the documented layout"""
    if t[0] == "rec":
        out, off = [], 0
        for f in t[1]:
            out.append((off, spec_width(f)))
            off += spec_width(f)
        return out
    if t[0] in ("carr", "sarr"):
        w = spec_width(t[1])
        return [(i * w, w) for i in range(t[2])]
    return []


def comp_type(t, i):
    return t[1][i] if t[0] == "rec" else t[1]


def kinds(t, acc=None, depth=0):
    acc = acc if acc is not None else {"depth": 0}
    acc[t[0]] = acc.get(t[0], 0) + 1
    acc["depth"] = max(acc["depth"], depth)
    if t[0] in ("carr", "sarr", "enum"):
        kinds(t[1], acc, depth + 1)
    elif t[0] == "rec":
        hw = t[2].get("how", "type") + ("_inherit" if t[2].get("how") == "templ" and t[2].get("split") else "")
        acc["rec_" + hw] = acc.get("rec_" + hw, 0) + 1
        acc["ctor_" + t[2].get("ctor", "kw")] = acc.get("ctor_" + t[2].get("ctor", "kw"), 0) + 1
        for f in t[1]:
            kinds(f, acc, depth + 1)
    return acc


def make_cases(ck, replay):
    rng = ck.rng
    quick = ck.tier == "quick"
    g = Gen(rng, 3 if quick else 4, 160 if quick else 260)
    if replay is not None:
        return [replay["case"]] if "case" in replay else []
    types = list(CORPUS) + [g.top() for _ in range(300 if quick else 5000)]
    exh_limit = 6 if quick else 9
    cases = []
    for i, t in enumerate(types):
        n = spec_width(t)
        c = {"id": i, "ty": t, "vals": [], "pats": [], "flips": [], "exhaustive": False}
        if n >= 1:
            modes = ["zeros", "ones", "min", "max", "alt"] + ["rand"] * (3 if quick else 5)
            c["vals"] = [g.value(t, m) for m in modes]
            comps = top_components(t)
            if comps:
                # layout: change exactly one top-level component of the last random value
                ia = len(c["vals"]) - 1
                base = c["vals"][ia]
                for _ in range(2):
                    j = rng.randrange(len(comps))
                    other = list(base)
                    other[j] = g.value(comp_type(t, j), rng.choice(["rand", "ones", "zeros", "max"]))
                    c["flips"].append({"a": ia, "b": len(c["vals"]), "j": j})
                    c["vals"].append(other)
            if n <= exh_limit:
                c["pats"] = [format(v, "0%db" % n) for v in range(1 << n)]
                c["exhaustive"] = True
            else:
                c["pats"] = ["0" * n, "1" * n, ("10" * n)[:n]] + [
                    "".join(rng.choice("01") for _ in range(n)) for _ in range(3 if quick else 5)]
            # malformed stream: wrong widths (must be rejected; bool reads bit 0 of anything)
            c["pats"] += ["1" * (n + 1), ("01" * n)[:max(n - 1, 1)] if n > 1 else "10"]
        cases.append(c)
    return cases


def case_term(c, r):
    """Coq tcase term from the case and the worker's record (only structurally complete observations)"""
    t = c["ty"]
    if r["count"] is None:
        return "(mkT %s None [] [] [])" % ty_coq(t)
    vals, pats, gets = [], [], []
    for v, rv in zip(c["vals"], r["vals"]):
        if "err" in rv:
            continue
        vals.append("(mkV %s %s %s)" % (val_coq(t, v), cB(rv["bits"]), dump_coq(rv["back"])))
        gets += rv["gets"]
    for b, rp in zip(c["pats"], r["pats"]):
        if "err" in rp:
            pats.append("(mkP %s None)" % cB(b))
        else:
            pats.append("(mkP %s (Some (%s, %s)))" % (cB(b), dump_coq(rp["dump"]), cB(rp["bits"])))
            gets += rp["gets"]
    seen, gl = set(), []
    for gt in gets:
        key = json.dumps(gt, sort_keys=True)
        if key in seen:
            continue
        seen.add(key)
        gl.append("(mkG %s %s [%s])" % (ty_coq(gt["ty"]), dump_coq(gt["arr"]), "; ".join(dump_coq(e) for e in gt["elems"])))
    return "(mkT %s (Some %d) [%s] [%s] [%s])" % (ty_coq(t), r["count"], "; ".join(vals), "; ".join(pats), "; ".join(gl[:40]))


def spec_check_case(c, r):
    """the property, evaluated on the real results only; returns a list of (what, detail)"""
    t = c["ty"]
    n = spec_width(t)
    bad = []
    if n == 0:
        if r["count"] is not None:
            bad.append(("a type without any bit was accepted by count_bits", {"count": r["count"]}))
        return bad
    if r["count"] is None:
        return [("count_bits rejects a serialisable type", {"err": r.get("err")})]
    if r["count"] != n:
        bad.append(("count_bits differs from the sum of the component widths", {"count": r["count"], "expected": n}))
    for i, (v, rv) in enumerate(zip(c["vals"], r["vals"])):
        if "err" in rv:
            bad.append(("to_bits/from_bits raised on a valid value", {"value": v, "err": rv["err"]}))
            continue
        exp = bits_str(spec_bits(t, v))
        if rv["count_inst"] != n:
            bad.append(("count_bits(instance) wrong", {"value": v, "got": rv["count_inst"]}))
        if len(rv["bits"]) != r["count"]:
            bad.append(("to_bits(x) does not have count_bits(T) bits", {"value": v, "bits": rv["bits"]}))
        if rv["bits"] != exp:
            bad.append(("to_bits(x) does not follow the documented layout", {"value": v, "bits": rv["bits"], "expected": exp}))
        if rv["x"] != spec_dump(t, v):
            bad.append(("constructed value reads back differently", {"value": v, "dump": rv["x"]}))
        if rv["back"] != rv["x"] or rv["back"] != spec_dump(t, v):
            bad.append(("from_bits[T](to_bits(x)) != x", {"value": v, "back": rv["back"], "x": rv["x"]}))
        if rv["back_bits"] != rv["bits"]:
            bad.append(("to_bits(from_bits[T](to_bits(x))) != to_bits(x)", {"value": v, "bits": rv["bits"], "again": rv["back_bits"]}))
        if not rv["type_ok"]:
            bad.append(("from_bits[T] did not return a T", {"value": v}))
        bad += spec_check_gets(rv["gets"])
    for b, rp in zip(c["pats"], r["pats"]):
        if len(b) != n:
            if "err" not in rp and t[0] != "bool":
                bad.append(("from_bits[T] accepted a vector of the wrong width", {"pattern": b, "got": rp.get("bits")}))
            continue
        if "err" in rp:
            bad.append(("from_bits[T] raised on a bit pattern of the right width", {"pattern": b, "err": rp["err"]}))
            continue
        if rp["bits"] != b:
            bad.append(("to_bits(from_bits[T](b)) != b", {"pattern": b, "got": rp["bits"]}))
        if rp["dump"] != spec_dump(t, spec_value(t, str_bits(b))):
            bad.append(("from_bits[T](b) does not read the documented layout", {"pattern": b, "dump": rp["dump"]}))
        if not rp["type_ok"]:
            bad.append(("from_bits[T] did not return a T", {"pattern": b}))
        bad += spec_check_gets(rp["gets"])
    comps = top_components(t)
    for fl in c["flips"]:
        ra, rb = r["vals"][fl["a"]], r["vals"][fl["b"]]
        if "err" in ra or "err" in rb:
            continue
        off, w = comps[fl["j"]]
        ba, bb = str_bits(ra["bits"]), str_bits(rb["bits"])
        outside = [i for i in range(min(len(ba), len(bb))) if ba[i] != bb[i] and not (off <= i < off + w)]
        inner = bits_str(spec_bits(comp_type(t, fl["j"]), c["vals"][fl["b"]][fl["j"]]))
        if outside or len(ba) != len(bb) or bits_str(bb[off:off + w]) != inner:
            bad.append(("changing one field/element changes bits outside its range [off, off+w)",
                        {"component": fl["j"], "off": off, "w": w, "a": ra["bits"], "b": rb["bits"], "outside": outside}))
    return bad


def spec_check_gets(gets):
    bad = []
    for gt in gets:
        # get_elem(i) must read element i of what the array serialises to
        try:
            content = gt["arr"][1][1]
            for i, e in enumerate(gt["elems"]):
                stored = content[i]
                et = gt["ty"]
                exp = e if et[0] == "carr" else (e[1] if et[0] == "sarr" else None)
                if exp is not None:
                    ok = stored == exp
                else:
                    ok = stored[0] == "bv" and e == spec_dump(et, spec_value(et, str_bits(stored[1])))
                if not ok:
                    bad.append(("std.Array.get_elem(i) differs from element i of the stored content", {"get": gt, "i": i}))
        except (IndexError, TypeError, KeyError, AssertionError) as ex:
            bad.append(("std.Array dump malformed", {"get": gt, "exc": str(ex)}))
    return bad


def one_liner(t):
    return ("PYTHONPATH=/repo /venv/bin/python /verif/harness/c17_worker.py <<< '%s'" %
            json.dumps({"cases": [{"ty": t, "vals": [], "pats": []}]}))


def run(ck: common.Check, replay=None):
    ck.check_props("C17_Properties.v")
    ck.trusted += [
        "Models/Ser.v as the rendering of std.count_bits/to_bits/from_bits, Record/Array/Enum/Fixed/BitField adapters",
        "c17_worker.py: construction of the real types/values from JSON and the canonical dump of real objects",
        "harness/c17.py: Python specification of the documented layout (spec_bits/spec_value/spec_dump)",
        "plain-Python evaluation on constants stands for the evaluated (synthesised) context; to_bits results are "
        "decayed to plain BitVector constants before from_bits (Temporary-qualified constants are a compiler artefact)",
    ]
    ck.assumptions += [
        "type compositions are sampled (corpus + seeded generator, nesting and width bounds in coverage); the Coq "
        "theorems quantify over all compositions of the model",
        "cohdl.Array element types are primitive (Bit, vectors, cohdl.Array) as the real class demands; array counts >= 1",
        "values: corner values per leaf (zeros, ones, min, max, alternating) + seeded random values; bit patterns "
        "exhaustive up to the stated width, sampled above",
    ]
    cases = make_cases(ck, replay)
    nshard = max(1, min(common.NCPU, len(cases) // 8))
    shards = [cases[i::nshard] for i in range(nshard)]
    for i, c in enumerate(cases):
        c["id"] = i
    g = Gen(ck.rng, 2, 64)
    bfs = []
    nbf = 60 if ck.tier == "quick" else 800
    if replay is not None:
        nbf = 0
        if "bitfield" in replay:
            bfs = [replay["bitfield"]]
    for i in range(nbf):
        b = g.bf_case(invalid=(i % 6 == 5))
        b["id"] = i
        bfs.append(b)
        if not b["invalid"] and i % 2 == 0:
            # the same BitField owning its storage (Variable[B](bits)) instead of referring to an existing vector:
            # nested sub-BitFields must still alias the bits of the enclosing object
            bfs.append(dict(b, owned=True, id=10000 + i))
    sers = []
    if replay is not None and "serialized" in replay:
        sers = [replay["serialized"]]
    if replay is None:
        # a BitField serialises to a Temporary-qualified vector, which Serialized cannot hold outside the compiler
        src = [c for c in cases if spec_width(c["ty"]) >= 1 and "bf" not in kinds(c["ty"])][
            :: (4 if ck.tier == "quick" else 20)]
        for i, c in enumerate(src):
            n = spec_width(c["ty"])
            pat = next(p for p in c["pats"][::-1] if len(p) == n)
            sers.append({"id": i, "ty": c["ty"], "val": c["vals"][-1], "pat": pat})
    payloads = [{"cases": sh} for sh in shards]
    payloads[0]["bitfields"] = bfs
    payloads[0]["serialized"] = sers
    outs = common.run_workers("c17_worker.py", payloads, timeout=3000)
    results = {}
    for o in outs:
        for r in o["cases"]:
            results[r["id"]] = r
    bf_res = outs[0]["bitfields"]
    ser_res = outs[0]["serialized"]

    # ---- type cases: model vs real inside Coq --------------------------------------------------
    terms = [case_term(c, results[c["id"]]) for c in cases]
    bad = set(common.coq_bad_indices(ck, "ser", PREAMBLE, "tcase", terms, "tcase_ok", shard=60)) if terms else set()
    n_exh = 0
    for idx, c in enumerate(cases):
        r = results[c["id"]]
        t = c["ty"]
        nobs = 1 + len(c["vals"]) + len(c["pats"])
        ck.evaluations += nobs
        spec_bad = spec_check_case(c, r)
        model_ok = idx not in bad
        ck.obligation(model_ok and not spec_bad)
        kd = kinds(t)
        for k, v in kd.items():
            if k != "depth":
                ck.hist("type_kinds", k)
        ck.hist("nesting", kd["depth"])
        ck.hist("width", min(spec_width(t) // 16 * 16, 256))
        if c["exhaustive"]:
            n_exh += 1
        if kd["depth"] >= 1 and r["count"] is not None:
            ck.nontrivial(t)
        if idx % 97 == 0:
            ck.sample({"type": t, "count_bits": r["count"], "values": len(c["vals"]), "patterns": len(c["pats"]),
                       "first_bits": (r.get("vals") or [{}])[0].get("bits")})
        key = {"kind": t[0], "type": json.dumps(t)}
        if spec_bad:
            what, detail = spec_bad[0]
            ck.violation(key, what, {"case": c, "type": t, "detail": detail, "all": [w for w, _ in spec_bad][:10],
                                     "real": r if len(json.dumps(r)) < 20000 else "(large)", "python": one_liner(t)})
        elif not model_ok:
            ck.violation(key, "Models/Ser.v and the real serialisation differ although the specification holds on "
                         "this input (model out of date); spec checked on all %d cases" % len(cases),
                         {"case": c, "type": t, "term": terms[idx][:6000], "python": one_liner(t)}, no_input=True)
    ck.cov["types"] = len(cases)
    ck.cov["types_all_patterns_enumerated"] = n_exh

    # ---- BitField: exact ranges -------------------------------------------------------------------
    bterms, binfo = [], []
    for b, rb in zip(bfs, bf_res):
        if "err" in rb:
            rb = {"ops": [{"err": rb["err"]} for _ in b["ops"]]}
        for op, ro in zip(b["ops"], rb["ops"]):
            err = "err" in ro
            bterms.append("(mkB %d %s %s %s %s %s)" % (
                b["w"], cB(b["vec"]), decl_coq(b["fields"], op["path"]),
                "None" if err else "(Some %s)" % cB(ro["read"]), cB(op["wr"]),
                "None" if err else "(Some %s)" % cB(ro["after"])))
            binfo.append((b, op, ro))
    bbad = set(common.coq_bad_indices(ck, "bf", PREAMBLE, "bcase", bterms, "bcase_ok", shard=400)) if bterms else set()
    for i, (b, op, ro) in enumerate(binfo):
        ck.evaluations += 1
        lo, n = bf_spec_range(b["fields"], op["path"])
        vec = str_bits(b["vec"])
        sbad = None
        if b["invalid"]:
            if "err" not in ro:
                sbad = "a field outside the BitField's width was accepted"
        elif "err" in ro:
            sbad = "reading/writing a declared BitField range raised: " + ro["err"]
        else:
            exp_after = vec[:lo] + str_bits(op["wr"]) + vec[lo + n:]
            if ro["read"] != bits_str(vec[lo:lo + n]):
                sbad = "BitField field does not read its declared range"
            elif ro["after"] != bits_str(exp_after):
                sbad = "writing a BitField field changed other bits than its declared range"
            elif ro["ser"] != b["vec"] or ro["after_ser"] != ro["after"]:
                sbad = "to_bits(BitField) is not its vector"
        ck.obligation(sbad is None and i not in bbad)
        ck.hist("bitfield_ops", "invalid" if b["invalid"] else "nested" if len(op["path"]) > 1 else "flat")
        ck.nontrivial({"bf": b["fields"], "path": op["path"], "w": b["w"]})
        key = {"kind": "bitfield", "path_len": len(op["path"])}
        if sbad:
            ck.violation(key, sbad, {"bitfield": dict(b, ops=[op]), "observed": ro, "range": [lo, n]})
        elif i in bbad:
            ck.violation(key, "Models/Ser.v bf_get/bf_set and the real BitField differ although the specification holds",
                         {"bitfield": dict(b, ops=[op]), "observed": ro, "term": bterms[i]}, no_input=True)
    ck.cov["bitfield_ops_total"] = len(binfo)

    # ---- Serialized[T] adapter -------------------------------------------------------------------
    copy_fail = []
    for s, rs in zip(sers, ser_res):
        t, v = s["ty"], s["val"]
        ck.evaluations += 1
        expb = bits_str(spec_bits(t, v))
        what = None
        if rs["make_bits"] != expb:
            what = "Serialized[T](x).bits() != to_bits(x)"
        elif rs["make_value"] != spec_dump(t, v):
            what = "Serialized[T](x).value() != x"
        elif rs["raw_bits"] != s["pat"] or rs["raw_value_bits"] != s["pat"]:
            what = "Serialized[T].from_raw(b) does not keep b"
        elif rs["raw_value"] != spec_dump(t, spec_value(t, str_bits(s["pat"]))):
            what = "Serialized[T].from_raw(b).value() != from_bits[T](b)"
        elif not (isinstance(rs["bad_raw"], dict) and "err" in rs["bad_raw"]):
            what = "Serialized[T].from_raw accepted a vector of the wrong width"
        elif rs["copy_bits"] != expb or rs["copy_value"] != spec_dump(t, v):
            what = "Serialized[T](Serialized[T](x)) does not carry the serialised bits of x"
        ck.obligation(what is None)
        ck.hist("serialized", "ok" if what is None else what[:40])
        if what:
            is_copy = "Serialized[T](Serialized" in what
            if is_copy:
                copy_fail.append((spec_width(t), len(json.dumps(t)), s, rs))
                continue
            ck.violation({"kind": "serialized", "op": "adapter"}, what, {"serialized": s, "observed": rs})
    if copy_fail:
        # one finding for the whole class, shown on the smallest failing type
        copy_fail.sort(key=lambda x: x[:2])
        _, _, s, rs = copy_fail[0]
        ck.violation({"kind": "serialized", "op": "copy"},
                     "Serialized[T](Serialized[T](x)) does not carry the serialised bits of x (%d of %d types)" % (
                         len(copy_fail), len(sers)),
                     {"serialized": s, "observed": {k: rs[k] for k in ("make_bits", "copy_bits", "copy_value")},
                      "failing_types": [json.dumps(x[2]["ty"])[:80] for x in copy_fail[:12]],
                      "python": "PYTHONPATH=/repo /venv/bin/python -c \"from cohdl import std, Unsigned; "
                                "S = std.Serialized[Unsigned[4]]; s = S(Unsigned[4](5)); "
                                "print(type(s.bits()), type(S(s).bits()))\"  # second must be a BitVector, is Unsigned; "
                                "with a Record T the copy raises"})
    ck.cov["serialized_cases"] = len(sers)
    ck.cov["exhaustive"] = False
    ck.cov["rule"] = ("types = fixed corpus (one per anchored mechanism) + seeded random compositions of Bit/bool/vectors/"
                      "cohdl.Array/std.Array/Record(type(), class, inherited, templated)/Enum/FlagEnum/SFixed/UFixed/BitField; "
                      "non-trivial = accepted type with nesting >= 1, distinct by type description; every type carries "
                      "corner + random values, bit patterns (all of them up to the stated width) and wrong-width patterns")
