#!/usr/bin/env python3
"""regenerates MANIFEST.json from the table below (kept in one place so it stays valid)"""
import json, os
HERE = os.path.dirname(os.path.dirname(os.path.abspath(__file__)))
NOTE_COMMON = ("Trusted: Coq 8.16.1 kernel incl. vm_compute; the hand-written Gallina models (tied to /repo by the "
               "correspondence run of this check on every invocation); the Python harness (generators, fail-closed VHDL reader "
               "and net-collapse elaboration, comparison); Vhdl.Sem as a two-valued rendering of the VHDL-93 simulation cycle. "
               "Axioms per theorem are recorded in the evidence (target: closed under the global context).")
CLAIMED = {
 "C01": dict(
   text="Proof. Unbounded theorem C01_explore_sound (verified product-reachability checker) + per generated program a kernel-checked theorem "
        "case_ok: for ALL input sequences of ALL lengths the parsed VHDL the compiler emitted on this run has the same output trace as the "
        "reference coroutine semantics Coro.ref of the source program. All programs: C01_lower_correct proves, for EVERY program of a stated grammar (all constructs of the property except wait_for) and every input sequence, "
        "that a Gallina model `lower` of the compiler's open-block lowering is trace-equivalent to the reference semantics; the model is tied to the real compiler by a second kernel-checked theorem per generated program "
        "(emitted VHDL = lower p for all input sequences). The programs quantifier for the real compiler itself is sampled (fixed corpus + seeded generator), the inputs/schedules quantifier is proved.",
   technique="Rocq proof: verified reflective equivalence checker (explore_sound) applied per compiled program; reference semantics in Gallina",
   design_ref="DESIGN.md §6 C01, Appendix A"),
 "C14": dict(
   text="Proof. Per configuration (capacity N, data width, stack mode) a kernel-checked theorem: for ALL admissible input sequences (every interleaving of push/pop/reset, all data values) "
        "the parsed VHDL of a wrapper around the REAL std.Fifo / std.Stack has the same trace (data out, empty, full, size) as the abstract bounded queue / stack specification. "
        "Configurations are enumerated (N and w up to the listed bounds); sequences are proved, not sampled. "
        "For ALL capacities: Gallina models of the ring buffer / stack as coded (Models/Ring.v: index arithmetic of _next_index, power-of-two and not) are proved to refine the abstract queue (N >= 2) / stack (N >= 1, both modes) "
        "for every admissible input sequence (C14_fifo_ring_refines_queue_all_N, C14_stack_model_refines_stack_all_N, with state abstraction and invariant), and each compiled configuration is also proved equal to the as-coded model.",
   technique="Rocq proof: verified product-reachability checker (explore_sound) against an abstract queue/stack specification per compiled configuration",
   design_ref="DESIGN.md §6 C14"),
 "C15": dict(
   text="Proof. Per (component, usage form, tx/rx delay) a kernel-checked theorem: for ALL input sequences (every relative timing of producer and consumer, every payload) the hand-over "
        "monitor (exactly once, in order, unmodified, no send while set, bounded response) never flags on the parsed VHDL of a wrapper around the REAL std.SyncFlag / std.Mailbox. "
        "For ALL delays: an as-coded Gallina model (Models/Handover.v) is proved, for every tx_delay / rx_delay, payload and input sequence, to hand over exactly once, in order, unmodified, never to overwrite, with exact visibility delays, and to satisfy the monitor "
        "(C15_exactly_once_all_delays, C15_send_visible_after_tx_delay, C15_model_satisfies_monitor_all_delays ...); each compiled two-context configuration is proved equal to that model.",
   technique="Rocq proof: verified reachability checker on design x safety-monitor product (mcheck_sound) per compiled configuration",
   design_ref="DESIGN.md §6 C15"),
 "C16": dict(
   text="Proof. wait_for/Waiter.wait_for (constant and run-time, first/middle/loop positions): theorem per program against the coroutine reference semantics extended with 'resume exactly n clocks later'; "
        "DelayLine/delayed, continuous_counter, ClockDivider, ToggleSignal, debounce: theorem per parameter setting against specification machines, for all input/enable sequences. "
        "Parameters enumerated to the listed bounds. For ALL parameter values: as-coded Gallina models (Models/TimingAll.v) of DelayLine, continuous_counter, ToggleSignal and ClockDivider are proved equal to the specification machines and "
        "their period / duty / delay / restart behaviour is proved exactly (C16_delay_line_exact_all_n, C16_counter_period_exact_all_limits, C16_toggle_period_duty_exact_all_durations, C16_divider_*), each compiled configuration is tied to the as-coded model. "
        "Models/TimingRt.v adds as-coded models of std.debounce (every period >= 1: equal to the saturating-counter specification, counter bounded, exact set/clear conditions and hold times), continuous_counter with a run-time limit (every width and limit sequence: wraps within one step after the limit drops below the count), "
        "ToggleSignal and ClockDivider with run-time durations (C16_debounce_*_all_periods, C16_counter_rt_*, C16_toggle_rt_*, C16_divider_rt_*_partial), tied per compiled configuration by a second case theorem. "
        "Duration.count_periods: differential on integral ratios only (binary64 not modelled).",
   technique="Rocq proof: verified product-reachability checker per compiled utility/parameter; reference machines in Gallina",
   design_ref="DESIGN.md §6 C16"),
 "C17": dict(
   text="Proof. Unbounded theorems over all type compositions (mutual structural induction): width, value round-trip, bit round-trip, injectivity, record/array/std.Array layout, Serialized, BitField exact range; "
        "plus a per-run correspondence of the Gallina model with the real classes on generated type compositions/values (evaluated inside Coq) and a direct check of the laws on the real results.",
   technique="Rocq proof by structural induction on a Gallina model of to_bits/from_bits; model tied to code by vm_compute correspondence on generated types",
   design_ref="DESIGN.md §6 C17"),
 "C18": dict(
   text="Proof. 35 unbounded theorems (all widths, list lengths, batch sizes, values): each helper's Gallina model, written to mirror the helper's recursion (tree folds, batching, per-batch popcount tables + widening adders, "
        "reversed-fold min/max, choose_first, CRC register), equals its mathematical definition (left fold for associative operators, population count, index permutation, first extremum, GF(2) polynomial remainder; multi-bit CRC = iterated single-bit). "
        "Model tied to the real helpers on every run by exhaustive small-width + seeded wide cases compared inside Coq, and the definitions are also checked directly on the real results. The emitted-VHDL half of the helpers is not covered here (constants only).",
   technique="Rocq proof by induction on Gallina models of the helpers; correspondence by vm_compute on generated cases",
   design_ref="DESIGN.md §6 C18"),
 "C19": dict(
   text="Proof. Unbounded theorems over all formats and raw values: +,-,* exact (UFixed subtraction modular), equality numeric, constructors preserve the number, and C19_resize_spec: the Gallina model of resize "
        "(written leaf by leaf after resize_fn of the current tree) equals 'round (floor | nearest-even) then overflow (wrap | saturate)' on exact arithmetic for every source/target format, value and style pair. "
        "Model tied to the real classes on every run: exhaustive over a box of formats x styles x all raw values (compared inside Coq) plus seeded wide cases; the exact-arithmetic spec is also checked directly on the real results.",
   technique="Rocq proof (lia/Z arithmetic) of a Gallina model of resize_fn against an exact-arithmetic specification; correspondence by exhaustive vm_compute cases",
   design_ref="DESIGN.md §6 C19"),
 "C10": dict(
   text="Proof for argument binding, operator/comparison dispatch and boolean operators: unbounded theorems C10_bind_agrees (for every signature and every call shape the tracer's binding = the binding rule of the Python language reference, "
        "rejections included), C10_dispatch_agrees, C10_compare_agrees (tracer value = CPython value or rejected), C10_boolop_truth_value, over Gallina models written after the code; both the spec model (against CPython itself) and the "
        "code model (against FunctionDefinition.bind_args and the whole tracer end to end) are tied on every run by thousands of generated signatures/calls compared inside Coq. Closures, classes, super(), comprehensions, unpacking etc. have "
        "no Gallina semantics: for them a grammar-based differential run (same program under CPython and through the tracer) is reported as supporting evidence and failing-input search, never as discharged obligations.",
   technique="Rocq proof by induction over parameter/argument lists on Gallina models of bind_args and of CPython's binding rule; correspondence by vm_compute; differential testing for the unmodelled constructs",
   design_ref="DESIGN.md §6 C10, §8"),
 "C13": dict(
   text="Proof. Unbounded theorems over ALL sequences of first uses (any order, any length): canonicity (equal parameters -> identical class, different -> distinct), the subclass relation after any history equals the documented lattice, ports are signals, "
        "unrelated widths/kinds never subclasses, views keep root and qualifier, alias the same cells, and their recorded reference denotes exactly their storage (iteration included); model of the three metaclass __getitem__s and of views written after the code and tied on every run by "
        "seeded sequences each executed in a fresh interpreter (identity partition, issubclass matrices, MRO, cache keys, view reads/writes compared inside Coq) plus the documented lattice checked directly.",
   technique="Rocq proof by induction over operation lists with a cache invariant; correspondence by vm_compute on per-interpreter sequences",
   design_ref="DESIGN.md §6 C13"),
 "C03": dict(
   text="Proof. Per generated context body (signals, pushed signals, variables, bit/slice targets with constant and run-time index, if/elif/else, match, for-break chains, for-else, helpers with returns in branches; clocked, unclocked and concurrent contexts) "
        "a kernel-checked theorem: for ALL input sequences the parsed VHDL the compiler emitted on this run has the trace of the documented activation semantics (Models/SeqRef.v: deferred signal updates, last write wins, unwritten holds, immediate variables, "
        "one-step pushes, first matching branch). Bodies are sampled (corpus per clause + seeded generator); input sequences are proved. "
        "All bodies (one activation, partial): Models/SeqLower.v models the rendering of a clocked body to VHDL statements; C03_lower_correct_partial proves for EVERY body of a stated grammar, every well-typed store and input vector that one activation of the lowered process under Vhdl.Sem "
        "computes exactly the next state of the reference (signals after finish, variables, nothing else changes); the lift to whole traces is stated, not proved; each in-grammar case is additionally proved trace-equal to the lowered design (second kernel-checked theorem).",
   technique="Rocq proof: verified product-reachability checker with verified dead-variable normalisation, applied per compiled body against a Gallina reference interpreter",
   design_ref="DESIGN.md §6 C03"),
 "C04": dict(
   text="Proof. Per generated design (sequential bodies and coroutines) x reset variant (sync/async x active high/low), with defaulted, default-less, noreset, pushed objects, variables and on_reset actions: kernel-checked theorem that for ALL input "
        "sequences (reset at any clock, for any duration, from any reachable state, followed by any inputs) the parsed VHDL equals 'reset => defaults on the resettable objects, coroutine back to its first state, everything else kept, nothing else runs', observed "
        "before and after every clock edge (asynchronous resets visible at once); plus unbounded lemmas that the reference returns to its power-up state from ANY state. For ALL programs of the C01 grammar: C04_lower_rst_correct (the lowering model with the emitted reset clause = the reference with reset, every variant, every input sequence) and C04_lower_reset_from_any_config_all (one reset clock takes any configuration to power-up; objects without default / noreset keep their value); compound noreset objects and derived contexts by equivalence pairs proved for all input sequences.",
   technique="Rocq proof: verified product-reachability checker per compiled design against reset-wrapped Gallina reference machines",
   design_ref="DESIGN.md §6 C04"),
 "C08": dict(
   text="Proof. Unbounded theorems: C08_search_sound (the temporaries analysis, modelled after the code, accepts only trees in which every temporary is written before read on every path - any shape/depth), C08_states_sound, C08_cleanup_preserves, and "
        "C08_def_assign_sound (a definite-assignment checker on the emitted VHDL is sound against the VHDL semantics: no output depends on a temporary left over from an earlier activation). Ties per run: synthetic IR trees through the REAL analysis vs the model (in Coq), "
        "source programs over a construct x placement grid through the whole compiler vs an independent definite-assignment verdict, and def_assign evaluated in Coq on every emitted process.",
   technique="Rocq proof by induction on IR trees / VHDL statements; correspondence by vm_compute; verified static checker evaluated on emitted VHDL",
   design_ref="DESIGN.md §6 C08"),
 "C09": dict(
   text="Proof. Unbounded theorems for all widths and values: for every operator/method family the Python fold (Gallina model written after the methods of the current tree) yields exactly type, width and value of the numeric_std operation the backend emits "
        "(C09_add/sub/truncdiv/floordiv/mod/rem/shl/shr/cmp/concat/logic/neg/abs/inv/view_agrees, C09_type_as_documented; multiplication under the exact guard with the refutation witness = the recorded known finding). Tie per run: real Python objects vs the model, "
        "exhaustive for widths <= 3 + seeded to width 130 (in Coq); the folded result is also compared directly with the run-time semantics; end-to-end design pairs (ports vs constants) through the real compiler.",
   technique="Rocq proof (Z arithmetic) relating a Gallina model of the folding methods to the numeric_std semantics; correspondence by exhaustive vm_compute cases",
   design_ref="DESIGN.md §6 C09"),
 "C12": dict(
   text="Proof. Per generated instantiation tree (leaf/mid templates, repeated templates, slice and typed-view actuals, registered and combinational leaves): the emitted interface of every entity equals its declaration, every template is emitted once and before its users, "
        "every formal is associated exactly once (checked by the fail-closed elaborator), and a kernel-checked theorem that the elaborated hierarchical design and the REAL compilation of the same logic placed inline have equal traces for ALL input sequences. "
        "For ALL instantiation graphs: a Gallina model of the compiler's bookkeeping (Models/EmitOrder.v: collect_subenties traversal, template / elaboration caches, port map by formal name) is proved to emit each reachable template exactly once, every sub-entity before every (transitive) user, the top entity last, "
        "independent of instance multiplicity, with every formal once in declaration order wired to the actual given for its name under any keyword order (C12_emit_order_*, C12_port_map_*); the model is compared exactly with the real compiler's unit order, instance lists, port maps and architecture runs on generated graphs on every run.",
   technique="Rocq proof: verified product-reachability checker, design against design, per generated tree; induction over instantiation graphs on a Gallina model of the emission order / port map",
   design_ref="DESIGN.md §6 C12"),
 "C11": dict(
   text="Proof. Unbounded theorems over ALL histories of compilations on a Gallina model of the compiler's module/class-level scratch state (16 fields, each stage performing exactly the set/restore operations of the current tree on normal and exceptional exit): "
        "C11_history_independent (the outcome of compiling a design after any history equals its outcome in a fresh interpreter), C11_relevant_clean_invariant, C11_scratch_transparent / C11_caches_transparent (the fields that do leak are never read). "
        "Tie per run: seeded histories over a 49-design pool executed in ONE interpreter each, real globals + output hash snapshotted after every compilation and compared with the model inside Coq; every accepted output is also compared byte-for-byte with a fresh interpreter. "
        "PYTHONHASHSEED independence is differential testing over three seeds (runtime behaviour, not modelled).",
   technique="Rocq proof by induction over histories on a Gallina state model; correspondence by vm_compute on in-process histories; differential test for hash seeds",
   design_ref="DESIGN.md §6 C11, §8"),
 "C07": dict(
   text="Proof. Unbounded theorems: C07_check_sound / C07_check_complete / C07_check_exact (the usage check, modelled after the current tree, accepts exactly the designs with at most one driver per root, at most one user per variable/temporary and no written input port), "
        "and C07_single_driver_sound (on the emitted VHDL: when the static single-driver rule holds, one delta cycle of the VHDL semantics is independent of the order of the concurrent statements - disjoint scalar sub-elements included). "
        "Tie per run: generated placements of writers/readers through the real compiler vs the model (verdict and rejection reason compared in Coq) and vs the driver-count specification; single_driver evaluated in Coq on every accepted emitted design.",
   technique="Rocq proof on a Gallina model of the usage check + verified static rule on the VHDL semantics; correspondence by vm_compute on generated placements",
   design_ref="DESIGN.md §6 C07"),
 "C02": dict(
   text="Proof. Unbounded theorems: C02_type_width (every well-typed expression tree evaluates, under the documented semantics written from the property text, to a value of exactly the documented type and width - induction over trees, all widths) and "
        "C02_agrees_with_numeric_std_* (for + - * truncdiv mod rem, comparisons, neg/abs, shifts, resize: the documented value equals what numeric_std computes on the operand shapes the backend emits, all widths and values), select-first-match, chained comparison, concat, shift kind. "
        "Per generated design (every operator x operand-type x width pair at small widths, int operands either side, slices, run-time indices, views, if-expressions, select_with, any/all, arrays, random trees of depth 3) a kernel-checked theorem that the parsed VHDL "
        "emitted on this run yields the documented value for ALL operand valuations. "
        "All expression trees: Models/ExprEmit.v models what the back end prints for a tree (temporaries inlined); C02_emit_correct proves by induction over the tree, for EVERY tree the model prints, all widths and all valuations on which the documented value is defined, that the printed expression evaluates under Vhdl.Sem to the documented value "
        "(inputs, constants, views, index, nested slices, unary operators, all comparisons, + - * truncdiv mod rem incl. int literals on either side, bitwise, concat, shifts, resize; if-expressions / select_with / chained comparisons / run-time indices are outside the printed-expression model and decided per design); the model is compared syntactically (expr_eqb inside Coq) with the inlined emitted VHDL of every generated expression on every run.",
   technique="Rocq proof: typed reference evaluator + agreement with the numeric_std model for all widths; verified checker per compiled expression design, exhaustive over operand values",
   design_ref="DESIGN.md §6 C02"),
 "C05": dict(
   text="Proof. Gallina model Conv of the assignment check (assign_ok, one clause per assignment form) and of the emitted cast (cast_emit, conv_val); unbounded theorems: every accepted pair of the documented matrix preserves the numeric value for all widths and values (C05_value_documented), "
        "widening is sign-/zero-correct and no accepted documented pair truncates (C05_no_truncation_documented), accepted port connections have identical types (C05_port_forms_sound), the merged type of conditional values is wide enough (C05_join_sound_partial); "
        "the places where the code accepts more than the documented matrix are stated as *_refuted theorems with witnesses (the known findings). Tie: every (form, source type, target type) cell is compiled with the REAL compiler and accept/reject is compared with assign_ok inside Coq; "
        "for accepted pairs a kernel-checked theorem per packed design that the parsed emitted VHDL outputs conv_val of the input for ALL source values; emitted cast text = cast_emit.",
   technique="Rocq proof on a Gallina model of the conversion matrix and casts (all widths); model tied to the compiler by per-cell accept/reject correspondence, per-design value theorems and cast-text comparison",
   design_ref="DESIGN.md §6 C05"),
 "C06": dict(
   text="Proof. Unbounded theorems: the static legality rules of Vhdl/Typing.v are sound for the VHDL semantics (C06_wt_sound, C06_exec_sound: a well-typed statement never evaluates to a type/width error), the model of name assignment (Names.uniquify = VhdlScope.complete_setup) "
        "always yields distinct, free, legal identifiers that avoid enumeration literals and terminates (C06_uniquify_*), reserved-word table theorems. Per run: every emitted entity of the regression corpus + naming/expression generators (thorough: + all upstream designs) is parsed fail-closed "
        "and the rules (well-typedness, port associations, case coverage, port modes, sensitivity, identifier syntax, unique declarations, no reserved words, no hiding of predefined names, unique units) are evaluated inside Coq; recorded complete_setup calls are compared with the model; "
        "the live reserved-word/operator tables are regenerated and checked against the checked-in VHDL-93 table. The delta-cycle lift of rule soundness is partial (C06_run_conc_sound_partial).",
   technique="Rocq proof: soundness of typing/naming rules over the VHDL semantics + Gallina model of the name uniquifier; rules evaluated in Coq on every emitted entity; model=code correspondence on recorded scopes",
   design_ref="DESIGN.md §6 C06"),
 "C20": dict(
   text="Proof. Per (register-map layout, phase) a kernel-checked theorem: for ALL input sequences over the phase's alphabet (every valid/ready timing on the write-address, write-data, write-response, read-address and read-data channels, mapped and unmapped addresses, the listed data patterns and byte strobes) "
        "the AXI4-Lite monitor of Models/AxiSpec.v (valid held until ready, exactly one response per transaction, OKAY/DECERR by address, strobed bytes written and others kept, read data = register content) never flags on the parsed VHDL of a wrapper around the REAL std.axi.axi4_light.Axi4Light + reg32 address map. "
        "Layouts (one / two memory words, register arrays at the top level and inside a RegFile at a non-zero offset, one- and two-level nested RegFiles, a Register with MemField / MemUField / hardware-driven UField and Field and PushOnNotify.Write/.Read), "
        "data patterns and strobes are enumerated per phase; sequences are proved.  The monitor also checks write masks (only writable bits change through the bus), that hardware-driven bits follow the hardware model, and that each notification is one pulse in exactly the clock in which the access completes. "
        "General facts about the reference model are proved for all inputs (C20_strobe_merge_exact, C20_strobe_merge_nothing_else, C20_masked_write_exact, C20_unmapped_write_keeps, C20_write_other_registers_kept, C20_decode_sound, ...). "
        "For ALL layouts: Models/AxiLayout.v models the address computation and decode of reg.py / connect_addr_map as coded (layout trees of registers, arrays and nested register files with field lists); proved for every accepted layout tree: absolute offset = sum of the offsets along the path (arrays: + index*step), "
        "no two registers at one address, decode exact (Some k iff the address lies in register k, None iff unmapped), write mask = union of the software-writable fields, fields disjoint, byte-strobe merge exact, and that these functions ARE the monitor's parameters (C20_layout_*, C20_layout_map_write_is_monitor_write); "
        "tied on every run by executing the real classes and the real read/write closures on ~330 generated layout trees and comparing inside Coq.",
   technique="Rocq proof: verified reachability checker on design x AXI-monitor product (mcheck_s_sound) per compiled register map",
   design_ref="DESIGN.md §6 C20"),
}
ALL = ["C%02d" % i for i in range(1, 21)]
PENDING = set()
for _p in PENDING:
    CLAIMED.pop(_p, None)

def main():
    checks = []
    for pid in ALL:
        if pid not in CLAIMED:
            continue
        c = CLAIMED[pid]
        checks.append({
            "property_id": pid,
            "quick_cmd": f"./check {pid} --tier quick",
            "thorough_cmd": f"./check {pid} --tier thorough",
            "evidence_file": f"/verif/evidence/{pid}.json",
            "replay_cmd_template": f"./check {pid} --replay {{path}}",
            "engine": "coq+py-harness",
            "level_claimed": {"category": "proof", "text": c["text"], "design_ref": c["design_ref"]},
            "level_note": c.get("note", NOTE_COMMON),
            "technique": c["technique"],
        })
    na = [{"property_id": pid, "reason": "check not built yet in this round (planned, see DESIGN.md §6); not claimed until its theorems, tie and failing-input search run"}
          for pid in ALL if pid not in CLAIMED]
    m = {
        "version": 1,
        "setup_cmd": "cd /verif && ./setup",
        "hooks": {"guard": "COHDL_VERIF", "enable": "no instrumentation hooks are needed; checks import /repo's working tree with PYTHONPATH=/repo (COHDL_VERIF=1 is set but unused); the unguarded repairs are the commits whose message starts with fix:, each recorded in /verif/known_findings.json",
                  "baseline_off_cmd": "cd /repo && /venv/bin/python -m pytest -ra -q -p no:cacheprovider --timeout=900 --continue-on-collection-errors",
                  "source_commits": [], "add_only": True},
        "engines": [
            {"name": "coq-theories", "path": "/verif/coq", "serves_properties": sorted(CLAIMED), "kind_free_text": "Coq 8.16.1 development: models, semantics, verified checker, property theorems (full .vo build)"},
            {"name": "coq-cases", "path": "/verif/gen", "serves_properties": sorted(CLAIMED), "kind_free_text": "per-run generated obligations evaluated/proved by coqc (vm_compute)"},
            {"name": "py-harness", "path": "/verif/harness", "serves_properties": sorted(CLAIMED), "kind_free_text": "generators, real-code workers, VHDL reader, evidence"},
        ],
        "checks": checks,
        "not_applicable": na,
        "notes": "Technique family: machine-checked proof in Rocq (Coq 8.16.1). See DESIGN.md.",
    }
    json.dump(m, open(os.path.join(HERE, "MANIFEST.json"), "w"), indent=1)

main()
