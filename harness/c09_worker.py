"""C09 worker: applies operators / methods of the REAL cohdl primitive types to constant operands.

stdin : {"cases": [[op, a, b], ...]}            (b is null for unary operators / methods)
stdout: one JSON line {"results": [res, ...]}

operand description:
  ["u", w, v]  Unsigned[w](v)          ["s", w, v]  Signed[w](v)  (v = signed value)
  ["bv", w, v] BitVector[w] with the unsigned bit pattern v
  ["bit", v]   Bit(v)                  ["int", v]   cohdl.Integer(v)          ["py", v]  Python int
op: a string (binary / unary operator, view) or a list [name, args...] for methods with integer arguments:
  add sub mul floordiv truncdiv mod rem lshift rshift and or xor concat eq ne lt le gt ge
  neg abs inv pos bool unsigned signed bitvector msb lsb to_int from_int_u from_int_s
  ["resize", tw, zeros] ["msbn", n] ["lsbn", n] ["index", i] ["slice", hi, lo] ["ctor", kind, w]
result (canonical, by RUNTIME type of the returned object):
  ["v", kind, w, value]   kind in u s bv bit bool int py  (w = 0 for the scalar kinds)
  ["undef", kind, w]      a vector / bit none of whose bits is initialised (the methods' division-by-zero result)
  ["x", kind, w, str]     a partially initialised / non two-valued vector (never expected)
  ["reject"]              AssertionError
  ["noimpl"]              TypeError / AttributeError / a NotImplemented result
  ["raise", name]         any other exception
"""
from __future__ import annotations
import json
import sys

import cohdl
from cohdl import Bit, BitVector, Unsigned, Signed, Integer
from cohdl import op as cop
from cohdl._core._boolean import _Boolean


def build(d):
    k = d[0]
    if k == "u":
        return Unsigned[d[1]](d[2])
    if k == "s":
        return Signed[d[1]](d[2])
    if k == "bv":
        return BitVector[d[1]](format(d[2], "0%db" % d[1]))
    if k == "bit":
        return Bit(d[1])
    if k == "int":
        return Integer(d[1])
    if k == "py":
        return int(d[1])
    raise ValueError(d)


def dump(r):
    if r is NotImplemented:
        return ["noimpl"]
    if isinstance(r, bool):
        return ["v", "bool", 0, int(r)]
    if isinstance(r, _Boolean):
        return ["v", "bool", 0, int(bool(r))]
    if isinstance(r, int):
        return ["v", "py", 0, r]
    if isinstance(r, Integer):
        return ["v", "int", 0, r.get_value()]
    if isinstance(r, Bit):
        s = str(r)
        if s in "01":
            return ["v", "bit", 0, int(s)]
        return ["undef", "bit", 0] if s == "U" else ["x", "bit", 0, s]
    if isinstance(r, BitVector):
        kind = "u" if isinstance(r, Unsigned) else "s" if isinstance(r, Signed) else "bv"
        s = r._bit_str()
        w = r.width
        # the class must be the canonical one for (kind, width)
        canon = {"u": Unsigned, "s": Signed, "bv": BitVector}[kind][w]
        if type(r) is not canon or len(s) != w:
            return ["x", kind, w, "type:" + str(type(r))]
        if set(s) <= {"0", "1"}:
            v = int(s, 2)
            if kind == "s" and s[0] == "1":
                v -= 1 << w
            return ["v", kind, w, v]
        if set(s) == {"U"}:
            return ["undef", kind, w]
        return ["x", kind, w, s]
    return ["x", "other", 0, repr(type(r))]


BIN = {
    "add": lambda a, b: a + b, "sub": lambda a, b: a - b, "mul": lambda a, b: a * b,
    "floordiv": lambda a, b: a // b, "truncdiv": cop.truncdiv, "mod": lambda a, b: a % b, "rem": cop.rem,
    "lshift": lambda a, b: a << b, "rshift": lambda a, b: a >> b,
    "and": lambda a, b: a & b, "or": lambda a, b: a | b, "xor": lambda a, b: a ^ b, "concat": lambda a, b: a @ b,
    "eq": lambda a, b: a == b, "ne": lambda a, b: a != b, "lt": lambda a, b: a < b, "le": lambda a, b: a <= b,
    "gt": lambda a, b: a > b, "ge": lambda a, b: a >= b,
}

UN = {
    "neg": lambda a: -a, "abs": lambda a: abs(a), "inv": lambda a: ~a, "pos": lambda a: +a, "bool": lambda a: bool(a),
    "unsigned": lambda a: a.unsigned, "signed": lambda a: a.signed, "bitvector": lambda a: a.bitvector,
    "msb": lambda a: a.msb(), "lsb": lambda a: a.lsb(), "to_int": lambda a: a.to_int(),
    "from_int_u": lambda a: Unsigned.from_int(a), "from_int_s": lambda a: Signed.from_int(a),
}


def ctor(kind, w):
    if kind == "u":
        return Unsigned[w]
    if kind == "s":
        return Signed[w]
    if kind == "bv":
        return BitVector[w]
    if kind == "bit":
        return Bit
    if kind == "int":
        return Integer
    raise ValueError(kind)


def apply(op, a, b):
    if isinstance(op, str):
        if op in BIN:
            return BIN[op](a, b)
        return UN[op](a)
    name = op[0]
    if name == "resize":
        return a.resize(op[1], zeros=op[2])
    if name == "msbn":
        return a.msb(op[1])
    if name == "lsbn":
        return a.lsb(op[1])
    if name == "index":
        return a[op[1]]
    if name == "slice":
        return a[op[1]:op[2]]
    if name == "ctor":
        return ctor(op[1], op[2])(a)
    raise ValueError(op)


def run_case(c):
    op, da, db = c
    a = build(da)
    b = build(db) if db is not None else None
    try:
        r = apply(op, a, b)
    except AssertionError:
        return ["reject"]
    except (TypeError, AttributeError):
        return ["noimpl"]
    except RecursionError:
        raise
    except Exception as e:  # noqa: BLE001 - canonicalised
        return ["raise", type(e).__name__]
    return dump(r)


def main():
    req = json.load(sys.stdin)
    out = [run_case(c) for c in req["cases"]]
    sys.stdout.write(json.dumps({"results": out}) + "\n")


if __name__ == "__main__":
    main()
