"""C06 worker: compiles designs with the REAL compiler from $COHDL_SRC, one forked child per design.

stdin : {"dir": scratch, "jobs": n,
         "designs": [{"name", "source", "entity", "reserved": [..]|None}],      generated sources
         "upstream": [module names] | "all"}                                     upstream reference designs
stdout: last line JSON {"results": [...], "upstream": [...]}

result per design: {"name", "ok", "vhdl", "scopes"} | {"name", "ok": False, "error", "error_type", "trace"}
"scopes" = what every VhdlScope.complete_setup saw and produced, in call order:
    {"cls", "used": names taken before (as stored: NOT re-lowered), "reqs": requested raw names in declaration
     order (override / name hint / fallback, before strip), "names": assigned names}
(recorded by wrapping the method at run time; /repo is not modified)."""
import importlib.util
import json
import os
import sys
import traceback


def raw_request(V, decl, want_fallback=False):
    """the name complete_setup starts from (l.698-746), replicated; None if it would assert"""
    import cohdl
    from cohdl._core import _enum as cohdl_enum
    from cohdl import Port, Signal, Variable, Temporary, Array
    obj = decl.obj
    override = None
    fallback = None
    if isinstance(obj, Port):
        override = obj.name()
    elif isinstance(obj, Signal):
        override = obj.name()
        fallback = "sig"
    elif isinstance(obj, Variable):
        override = obj.name()
        fallback = "var"
    elif isinstance(obj, Temporary):
        override = obj.name()
        fallback = "temp"
    elif isinstance(obj, V.Concurrent):
        fallback = "concurrent"
    elif isinstance(obj, V.Process):
        fallback = "proc"
    elif isinstance(obj, V.Entity):
        override = obj.name()
    elif isinstance(obj, V.Architecture):
        override = obj.name()
    elif isinstance(obj, V.EntityInst):
        fallback = "inst"
    elif isinstance(obj, type):
        if issubclass(obj, (cohdl_enum.Enum, cohdl_enum.DynamicEnum)):
            override = obj.__name__
        elif issubclass(obj, Array):
            fallback = "array_type"
        elif issubclass(obj, cohdl.Attribute):
            override = obj.name
        else:
            return None
    else:
        return None
    if want_fallback:
        return fallback if fallback is not None else "obj"
    if override is not None:
        return override
    if decl.name_hint is not None:
        return decl.name_hint
    return fallback


def install_recorder(rec):
    from cohdl._compiler.backend.vhdl import _vhdl_repr as V
    orig = V.VhdlScope.complete_setup
    if getattr(orig, "_c06_wrapped", False):
        return

    def wrapped(self):
        try:
            if self._parent is None:
                used = set(self._used_names or ())
            else:
                used = set(self._parent._used_names) | set(self._used_names)
            active = [d for d in self._declarations.values() if d.active]
            entry = {"cls": type(self).__name__, "used": sorted(str(u) for u in used),
                     "reqs": [raw_request(V, d) for d in active],
                     "fallbacks": [raw_request(V, d, True) for d in active], "names": None}
            rec.append(entry)
        except BaseException as e:  # noqa
            entry = {"cls": type(self).__name__, "error": repr(e)}
            rec.append(entry)
            active = None
        orig(self)
        if active is not None:
            entry["names"] = [d.name for d in active]

    wrapped._c06_wrapped = True
    V.VhdlScope.complete_setup = wrapped


def compile_entity(ent, reserved, rec):
    from cohdl import std
    install_recorder(rec)
    if reserved is None:
        return std.VhdlCompiler.to_string(ent)
    return std.VhdlCompiler.to_string(ent, additional_reserved_names=set(reserved))


def compile_one(dirpath, d):
    rec = []
    try:
        if d.get("upstream"):
            import upstream
            ent, _mod = upstream.load_entity(d["upstream"])
        else:
            path = os.path.join(dirpath, d["name"] + ".py")
            with open(path, "w") as f:
                f.write(d["source"])
            spec = importlib.util.spec_from_file_location(d["name"], path)
            mod = importlib.util.module_from_spec(spec)
            sys.modules[d["name"]] = mod
            spec.loader.exec_module(mod)
            ent = getattr(mod, d["entity"])
            if callable(ent) and not isinstance(ent, type):
                ent = ent()
        vhdl = compile_entity(ent, d.get("reserved"), rec)
        return {"name": d["name"], "ok": True, "vhdl": vhdl, "scopes": rec}
    except BaseException as e:  # noqa
        tb = traceback.format_exc()
        return {"name": d["name"], "ok": False, "error": str(e)[-600:], "error_type": type(e).__name__,
                "trace": tb[-1500:]}


def main():
    req = json.load(sys.stdin)
    dirpath = req["dir"]
    os.makedirs(dirpath, exist_ok=True)
    import cohdl  # noqa: F401
    from cohdl import std  # noqa: F401
    designs = list(req.get("designs", []))
    ups = req.get("upstream")
    if ups:
        import upstream
        upstream.install_stubs()
        mods = list(upstream.iter_reference_modules()) if ups == "all" else list(ups)
        for m in mods:
            designs.append({"name": "up__" + m.replace(".", "__"), "upstream": m})
    jobs = int(req.get("jobs", 8))
    results = [None] * len(designs)
    running = {}
    idx = 0
    devnull = os.open(os.devnull, os.O_WRONLY)
    while idx < len(designs) or running:
        while idx < len(designs) and len(running) < jobs:
            d = designs[idx]
            out = os.path.join(dirpath, d["name"] + ".result.json")
            pid = os.fork()
            if pid == 0:
                try:
                    os.dup2(devnull, 1)
                    os.dup2(devnull, 2)
                    r = compile_one(dirpath, d)
                except BaseException as e:  # noqa
                    r = {"name": d["name"], "ok": False, "error": "worker crash: " + repr(e), "error_type": "Crash"}
                if d.get("upstream"):
                    r["upstream"] = d["upstream"]
                with open(out, "w") as f:
                    json.dump(r, f)
                os._exit(0)
            running[pid] = (idx, out)
            idx += 1
        pid, status = os.wait()
        if pid not in running:
            continue
        i, out = running.pop(pid)
        try:
            results[i] = json.load(open(out))
            os.unlink(out)
        except Exception:  # noqa
            results[i] = {"name": designs[i]["name"], "ok": False,
                          "error": "no result (child died, status %r)" % (status,), "error_type": "Crash"}
            if designs[i].get("upstream"):
                results[i]["upstream"] = designs[i]["upstream"]
    print(json.dumps({"results": results}))


if __name__ == "__main__":
    main()
