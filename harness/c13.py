"""C13 - parametrised types are canonical and form the documented subtype lattice; views alias.

sequences of first uses (type subscripts and view operations) -> real cohdl, each sequence in a freshly
forked interpreter (c13_worker.py) -> identity / issubclass / mro / cache-dictionary observations and view
behaviour -> compared inside Coq with Models/TyCache.v (observe, View.run_scenario); the documented lattice
and the aliasing spec are also evaluated directly (in Python, written independently) on the real results.
"""
from __future__ import annotations
import itertools
import json
import os

import common

WIDTHS = [1, 2, 3, 8]
FAMS = ["bv", "u", "s"]
QS = ["sig", "var", "tmp", "port"]
DIRS = ["in", "out", "inout"]
FIXED = [["leaf", "bit"], ["leaf", "bool"], ["leaf", "int"], ["vany", "bv"], ["vany", "u"], ["vany", "s"],
         ["arrany"], ["qany", "sig"], ["qany", "port"], ["qany", "var"], ["qany", "tmp"]]


# ----------------------------------------------------------------------------
# Coq printers
# ----------------------------------------------------------------------------
CF = {"bv": "FBV", "u": "FU", "s": "FS"}
CQF = {"sig": "QSig", "var": "QVar", "tmp": "QTmp", "port": "QPort"}
CD = {None: "None", "in": "(Some DIn)", "out": "(Some DOut)", "inout": "(Some DInOut)"}
CL = {"bit": "LBit", "bool": "LBool", "int": "LInt"}


def prim_coq(p):
    k = p[0]
    if k == "leaf":
        return f"(PLeaf {CL[p[1]]})"
    if k == "vany":
        return f"(PVecAny {CF[p[1]]})"
    if k == "vec":
        return f"(PVec {CF[p[1]]} {'Down' if p[2] == 'down' else 'Up'} {p[3]}%positive)"
    if k == "arrany":
        return "PArrAny"
    if k == "arr":
        return f"(PArr {prim_coq(p[1])} ({p[2]})%Z)"
    raise AssertionError(p)


def texpr_coq(e):
    if e[0] == "qany":
        return f"(TQAny {CQF[e[1]]})"
    if e[0] == "q":
        return f"(TQ {CQF[e[1]]} {CD[e[2]]} {prim_coq(e[3])})"
    return f"(TP {prim_coq(e)})"


def cname_coq(e):
    if e[0] == "qany":
        return f"(CQAny {CQF[e[1]]})"
    if e[0] == "q":
        return f"(CQ {CQF[e[1]]} {CD[e[2]]} {prim_coq(e[3])})"
    return f"(CP {prim_coq(e)})"


def blist(bs):
    return "[" + ";".join("true" if b else "false" for b in bs) + "]"


def nlist(ns):
    return "[" + ";".join(str(n) for n in ns) + "]"


def bits_lsb(s):
    """'10100110' (msb first) -> coq list bool, element 0 = rightmost bit"""
    return blist([c == "1" for c in reversed(s)])


# ----------------------------------------------------------------------------
# the documented relation, written from the property text (independent of the model)
# ----------------------------------------------------------------------------

def is_vec(p):
    return p[0] in ("vec", "vany")


def prim_le(a, b, same_order=True):
    if a == b:
        return True
    ka, kb = a[0], b[0]
    if ka == "vec" and kb == "vany":
        return b[1] == "bv" or b[1] == a[1]
    if ka == "vec" and kb == "vec":
        return a[1] != "bv" and b[1] == "bv" and a[3] == b[3] and ((a[2] == b[2]) if same_order else b[2] == "down")
    if ka == "vany" and kb == "vany":
        return b[1] == "bv"
    if ka == "arr" and kb == "arrany":
        return True
    return False


def wrapped_le(a, b, same_order=True):
    return a == b or (is_vec(a) and is_vec(b) and prim_le(a, b, same_order))


def q_le(q, q2):
    return q == q2 or (q == "port" and q2 == "sig")


def doc_le(a, b, same_order=True):
    """same_order=False: the coded treatment of UPTO shapes (f[0:n-1] derives from the DOWNTO BitVector[n])"""
    qa, qb = a[0] in ("q", "qany"), b[0] in ("q", "qany")
    if not qa and not qb:
        return prim_le(a, b, same_order)
    if qa != qb:
        return False
    if b[0] == "qany":
        return q_le(a[1], b[1])
    if a[0] == "qany":
        return False
    same = a[1] == b[1] and a[2] == b[2]
    port_sig = a[1] == "port" and b[1] == "sig" and b[2] is None
    return (same or port_sig) and wrapped_le(a[3], b[3], same_order)


def has_up(e):
    if e[0] == "vec":
        return e[2] == "up"
    if e[0] == "arr":
        return has_up(e[1])
    if e[0] == "q":
        return has_up(e[3])
    return False


def equiv(base, param):
    """the documented-form expression a re-subscription  base[param]  has to denote (the family's class)"""
    k = param[0]
    if k == "w":
        return ["vec", base[1], "down", param[1]]
    if k == "a":
        return ["arr", param[1], param[2]]
    return ["q", base[1], param[1], param[2]]


def item_expr(it):
    return it[1] if it[0] == "t" else equiv(it[1], it[2])


def should_reject(e):
    return e[0] == "q" and ((e[1] == "port") != (e[2] is not None))


# ----------------------------------------------------------------------------
# generators
# ----------------------------------------------------------------------------

def gen_width(rng):
    return rng.choice(WIDTHS) if rng.random() < 0.85 else rng.choice([4, 5, 7, 9, 16, 32, 64])


def gen_prim(rng, depth=0):
    r = rng.random()
    if r < 0.12:
        return ["leaf", rng.choice(["bit", "bit", "bool", "int"])]
    if r < 0.24:
        return ["vany", rng.choice(FAMS)]
    if r < 0.82 or depth >= 2:
        return ["vec", rng.choice(FAMS), "down" if rng.random() < 0.9 else "up", gen_width(rng)]
    if r < 0.85:
        return ["arrany"]
    return ["arr", gen_prim(rng, depth + 1), rng.choice([0, 1, 2, 3, 8, 8, -1])]


def gen_texpr(rng):
    r = rng.random()
    if r < 0.3:
        return gen_prim(rng)
    if r < 0.35:
        return ["qany", rng.choice(QS)]
    q = rng.choice(QS + ["port", "sig"])
    d = rng.choice(DIRS) if q == "port" else None
    if rng.random() < 0.07:   # malformed: direction on a non-port / port without direction
        d = None if q == "port" else rng.choice(DIRS)
    return ["q", q, d, gen_prim(rng)]


def rand_bits(rng, n):
    return "".join(rng.choice("01") for _ in range(n))


def gen_chain(rng, w, neg=True):
    ch = []
    n = w
    bit = False
    for _ in range(rng.randint(0, 5)):
        r = rng.random()
        if bit:
            if r < 0.3:
                ch.append([rng.choice(["bv", "u", "s"])])
                if ch[-1][0] != "bv":
                    break
                continue
            break
        if r < 0.35:
            ch.append([rng.choice(["u", "s", "bv"])])
        elif r < 0.75:
            r2 = rng.random()
            if r2 < 0.86:
                lo = rng.randrange(n)
                hi = rng.randrange(lo, n)
            elif r2 < 0.91:
                lo = rng.randrange(n)
                hi = n + rng.randrange(0, 2)          # exceeds the width
            elif r2 < 0.95:
                hi = rng.randrange(n)
                lo = hi + 1 + rng.randrange(0, 2)     # upto slice: not implemented
            elif neg and rng.random() < 0.35:
                hi = -rng.randint(1, n + 1)
                lo = hi - rng.randrange(0, 3)         # negative bounds
            else:
                lo, hi = 0, n - 1
            ch.append(["sl", hi, lo])
            if not (0 <= lo <= hi < n):
                break                                  # (whether it is rejected is decided by the real code / model)
            n = hi - lo + 1
        elif r < 0.9:
            i = rng.randrange(n) if rng.random() < 0.9 else rng.choice([-1, n, n + 1])
            ch.append(["ix", i])
            if not (0 <= i < n):
                break
            bit = True
        else:
            ch.append(["it", rng.randrange(n)])
            bit = True
    return ch


def sim_chain(w, fam, ch):
    """documented behaviour of a view chain: (cells, kind) or None when a step is outside the documented domain
    (index / slice bounds within the current view, hi >= lo, no vector operation on a Bit)"""
    cells = list(range(w))
    kind = fam
    for s in ch:
        k = s[0]
        if k in ("u", "s", "bv"):
            if kind == "bit":
                if k == "bv":
                    continue
                return None
            kind = k
        elif kind == "bit":
            return None
        elif k == "sl":
            hi, lo = s[1], s[2]
            if not (0 <= lo <= hi < len(cells)):
                return None
            cells = cells[lo:hi + 1]
            kind = "bv"
        elif k == "ix":
            if not (0 <= s[1] < len(cells)):
                return None
            cells = [cells[s[1]]]
            kind = "bit"
        elif k == "it":
            if not (0 <= s[1] < len(cells)):
                return None
            cells = [cells[s[1]]]
            kind = "bit"
    return cells, kind


def gen_view(rng, neg=True):
    q = rng.choice(QS)
    d = rng.choice(DIRS) if q == "port" else None
    w = rng.choice([1, 2, 3, 8, 8, 8, 5])
    fam = rng.choice(FAMS)
    chains = [[]] + [gen_chain(rng, w, neg) for _ in range(rng.randint(2, 6))]
    writes = []
    for _ in range(rng.randint(1, 4)):
        ci = rng.randrange(len(chains))
        sim = sim_chain(w, fam, chains[ci])
        if sim is None:
            continue
        writes.append([ci, rand_bits(rng, len(sim[0]))])
    return {"q": q, "dir": d, "fam": fam, "w": w, "init": rand_bits(rng, w), "chains": chains, "writes": writes}


def implied_ops(sc):
    """type subscripts a view scenario performs inside cohdl, in order (as coded, incl. failing steps)"""
    q, d, w = sc["q"], sc["dir"], sc["w"]
    ops = [["q", q, d, ["vec", sc["fam"], "down", w]]]
    for ch in sc["chains"]:
        cells = list(range(w))
        kind = sc["fam"]
        for s in ch:
            k = s[0]
            if k in ("u", "s", "bv"):
                if kind == "bit":
                    if k == "bv":
                        continue
                    break
                if kind != k:
                    ops.append(["q", q, d, ["vec", k, "down", len(cells)]])
                    kind = k
            elif kind == "bit":
                break
            elif k == "sl":
                hi, lo = s[1], s[2]
                if lo > hi:
                    break
                if not (0 <= lo and hi < len(cells)):   # asserted before BitVector[width] is subscripted
                    break
                width = hi - lo + 1
                ops.append(["vec", "bv", "down", width])
                ops.append(["q", q, d, ["vec", "bv", "down", width]])
                cells, kind = cells[lo:hi + 1], "bv"
            elif k == "ix":
                if not (0 <= s[1] < len(cells)):
                    break
                ops.append(["q", q, d, ["leaf", "bit"]])
                cells, kind = [cells[s[1]]], "bit"
            elif k == "it":
                ops.append(["q", q, d, ["leaf", "bit"]])
                if s[1] >= len(cells):
                    break
                cells, kind = [cells[s[1]]], "bit"
    return ops


def gen_seq(rng, n_lo, n_hi, views=True):
    items = []
    pool = []
    for _ in range(rng.randint(n_lo, n_hi)):
        r = rng.random()
        if views and r < 0.12:
            items.append(["v", gen_view(rng)])
        elif pool and r < 0.3:
            items.append(["t", rng.choice(pool)])          # repeated use
        else:
            e = gen_texpr(rng)
            # related expressions make the lattice non-trivial
            if pool and rng.random() < 0.5:
                base = rng.choice(pool)
                e = relative(rng, base)
            pool.append(e)
            items.append(["t", e])
    if rng.random() < 0.08:
        pair = gen_resub(rng)
        at = rng.randint(0, len(items))
        items[at:at] = pair
        pool += [pair[0][1], equiv(pair[1][1], pair[1][2])]
    if rng.random() < 0.5:
        items += [["t", e] for e in pool]                  # everything once more at the end
    return {"items": items}


def gen_resub(rng):
    """[["t", base], ["r", base, param]] : subscript an already parametrised class again"""
    r = rng.random()
    if r < 0.45:
        base = ["vec", rng.choice(FAMS), "down", rng.choice(WIDTHS)]
        param = ["w", rng.choice(WIDTHS + [4])]
    elif r < 0.85:
        q = rng.choice(QS)
        d = rng.choice(DIRS) if q == "port" else None
        base = ["q", q, d, gen_prim(rng)]
        param = ["q", rng.choice(DIRS) if q == "port" else None, gen_prim(rng)]
    else:
        base = ["arr", gen_prim(rng, 1), rng.choice([1, 2, 3])]
        param = ["a", gen_prim(rng, 1), rng.choice([1, 2, 3])]
    return [["t", base], ["r", base, param]]


def relative(rng, e):
    """an expression related to e: other family / qualifier / width / the unparametrised parent"""
    p = e[3] if e[0] == "q" else (e if e[0] != "qany" else ["vec", "u", "down", 3])
    r = rng.random()
    if p[0] == "vec":
        if r < 0.3:
            p = ["vec", rng.choice(FAMS), p[2], p[3]]
        elif r < 0.45:
            p = ["vany", rng.choice(FAMS)]
        elif r < 0.55:
            p = ["vec", p[1], p[2], gen_width(rng)]
        elif r < 0.62:
            p = ["arr", p, rng.choice([1, 2, 8])]
        elif r < 0.66:
            p = ["vec", p[1], "up" if p[2] == "down" else "down", p[3]]
    if rng.random() < 0.25:
        return p
    q = rng.choice(QS + ["port", "sig"])
    return ["q", q, rng.choice(DIRS) if q == "port" else None, p]


def corpus():
    U3, S3, B3 = ["vec", "u", "down", 3], ["vec", "s", "down", 3], ["vec", "bv", "down", 3]
    seqs = []
    # the upstream tests' order
    seqs.append([B3, ["vany", "bv"], U3, ["vany", "u"], S3, ["vany", "s"], ["vec", "bv", "down", 4]])
    for q in QS:
        d = "in" if q == "port" else None
        seqs.append([["q", q, d, ["leaf", "bit"]], ["q", q, d, ["vany", "bv"]], ["q", q, d, ["vany", "u"]],
                     ["q", q, d, ["vec", "bv", "down", 4]], ["q", q, d, ["vec", "u", "down", 4]],
                     ["q", q, d, ["vec", "s", "down", 4]], ["q", q, d, ["vec", "bv", "down", 3]]])
        # most derived first
        seqs.append([["q", q, d, U3], ["q", q, d, S3], ["q", q, d, B3], ["q", q, d, ["vany", "s"]],
                     ["q", q, d, ["vany", "bv"]], ["qany", q]])
    seqs.append([["q", "port", "in", U3], ["q", "sig", None, U3], ["q", "port", "out", U3], ["q", "port", "inout", B3],
                 ["q", "var", None, U3], ["q", "tmp", None, U3]])
    seqs.append([["q", "sig", None, U3], ["q", "port", "in", U3], ["q", "sig", None, ["vany", "u"]]])
    seqs.append([["q", "port", None, U3], ["q", "sig", "in", U3], ["q", "var", "out", ["leaf", "bit"]],
                 ["q", "port", "in", U3]])
    seqs.append([["arr", U3, 4], ["arr", U3, 4], ["arr", S3, 4], ["arr", U3, 5], ["arr", ["arr", U3, 4], 2],
                 ["q", "sig", None, ["arr", U3, 4]], ["q", "port", "out", ["arr", U3, 4]], ["arrany"],
                 ["q", "var", None, ["arrany"]], ["arr", ["vany", "bv"], 0], ["arr", ["leaf", "bit"], -1]])
    seqs.append([["vec", "u", "up", 3], ["vec", "bv", "up", 3], B3, U3, ["q", "sig", None, ["vec", "u", "up", 3]],
                 ["q", "sig", None, ["vec", "bv", "up", 3]], ["q", "sig", None, U3]])
    seqs.append([["leaf", "bool"], ["leaf", "int"], ["q", "sig", None, ["leaf", "bool"]],
                 ["q", "var", None, ["leaf", "int"]], ["q", "port", "in", ["leaf", "bit"]]])
    # both spellings of the wrapped bool / int types (the worker spells items at odd positions with the Python builtins):
    # equal parameters, hence the identical class, in either order of first use; ports of bool derive from signals of bool
    QB, QI = ["q", "sig", None, ["leaf", "bool"]], ["q", "sig", None, ["leaf", "int"]]
    PB, PI = ["q", "port", "in", ["leaf", "bool"]], ["q", "port", "out", ["leaf", "int"]]
    seqs.append([QB, QB, QI, QI, PB, PB, ["q", "var", None, ["leaf", "bool"]], ["q", "var", None, ["leaf", "bool"]]])
    seqs.append([["leaf", "bit"], QB, QB, PB, QI, PI, PI, ["q", "tmp", None, ["leaf", "int"]], ["q", "tmp", None, ["leaf", "int"]]])
    seqs.append([PB, QB, PB, QB, PI, QI])
    out = [{"items": [["t", e] for e in s]} for s in seqs]
    # subscripting an already parametrised class (std.reg does it: underlying[arg.width])
    B3, B4, U8 = ["vec", "bv", "down", 3], ["vec", "bv", "down", 4], ["vec", "u", "down", 8]
    SBV, SB = ["q", "sig", None, ["vany", "bv"]], ["q", "sig", None, ["leaf", "bit"]]
    out.append({"items": [["t", B3], ["r", B3, ["w", 4]], ["t", B4], ["t", B3]]})
    out.append({"items": [["t", B4], ["t", B3], ["r", B3, ["w", 4]], ["t", B4]]})
    out.append({"items": [["t", U3], ["r", U3, ["w", 8]], ["t", U8], ["t", ["vec", "bv", "down", 8]]]})
    out.append({"items": [["t", B3], ["r", B3, ["w", 3]]]})
    out.append({"items": [["t", SBV], ["r", SBV, ["q", None, ["leaf", "bit"]]], ["t", SB]]})
    out.append({"items": [["t", ["q", "port", "in", ["leaf", "bit"]]],
                          ["r", ["q", "port", "in", ["leaf", "bit"]], ["q", "out", B3]],
                          ["t", ["q", "port", "out", B3]], ["t", ["q", "sig", None, B3]]]})
    out.append({"items": [["t", ["q", "var", None, ["vec", "u", "down", 4]]],
                          ["r", ["q", "var", None, ["vec", "u", "down", 4]], ["q", None, ["vec", "u", "down", 2]]],
                          ["t", ["q", "var", None, ["vec", "u", "down", 2]]]]})
    out.append({"items": [["t", ["arr", ["leaf", "bit"], 2]], ["r", ["arr", ["leaf", "bit"], 2], ["a", ["leaf", "bit"], 3]],
                          ["t", ["arr", ["leaf", "bit"], 3]]]})
    # views: the chain of the task text, nested slices + iteration, casts of casts
    out.append({"items": [["v", {"q": "sig", "dir": None, "fam": "bv", "w": 8, "init": "10100110",
                                 "chains": [[], [["u"], ["sl", 5, 2], ["bv"], ["ix", 1]], [["sl", 5, 2]],
                                            [["s"], ["u"], ["bv"]], [["sl", 7, 0], ["sl", 6, 1], ["sl", 3, 2]],
                                            [["it", 3]], [["sl", 5, 2], ["it", 1]]],
                                 "writes": [[1, "1"], [3, "00001111"], [4, "10"], [2, "0110"], [0, "11110000"]]}]]})
    out.append({"items": [["t", ["q", "port", "out", ["vany", "bv"]]],
                          ["v", {"q": "port", "dir": "out", "fam": "u", "w": 8, "init": "00000000",
                                 "chains": [[], [["bv"]], [["sl", 7, 4], ["u"]], [["sl", 9, 2]], [["ix", 8]],
                                            [["sl", 2, 3]], [["ix", 0], ["bv"]], [["ix", 0], ["u"]]],
                                 "writes": [[2, "1010"], [1, "01010101"]]}],
                          ["t", ["q", "port", "out", ["vec", "u", "down", 4]]],
                          ["t", ["q", "sig", None, ["vec", "u", "down", 4]]]]})
    return out


def perm_sets():
    """thorough tier: the sets of 6 first uses whose 720 orders are all run"""
    sets = []
    for w in WIDTHS:
        U, S, B = ["vec", "u", "down", w], ["vec", "s", "down", w], ["vec", "bv", "down", w]
        sets.append([["q", "sig", None, U], ["q", "port", "in", U], ["q", "sig", None, B], U,
                     ["q", "port", "in", ["vany", "bv"]], ["q", "sig", None, S]])
        sets.append([["q", "port", "out", S], ["q", "port", "in", S], ["q", "sig", None, S], ["q", "var", None, U],
                     ["arr", U, 2], ["q", "tmp", None, ["arr", U, 2]]])
        w2 = WIDTHS[(WIDTHS.index(w) + 1) % len(WIDTHS)]
        sets.append([["q", "sig", None, U], ["q", "sig", None, ["vec", "u", "down", w2]],
                     ["q", "port", "inout", B], ["q", "port", "inout", ["vec", "u", "down", w2]],
                     ["vec", "s", "up", w], ["q", "sig", None, ["vany", "u"]]])
    return sets


# ----------------------------------------------------------------------------
# building the Coq cases
# ----------------------------------------------------------------------------

def type_case(seq, res):
    """Coq term  (ops, obs)  for the type part of one sequence"""
    ops = []
    for it in seq["items"]:
        if it[0] == "t":
            ops.append((True, it[1]))
        elif it[0] == "r":
            ops += [(False, it[1]), (True, item_expr(it))]   # the family's class (only compared when the spec holds)
        else:
            ops += [(False, e) for e in implied_ops(it[1])]
    ops_t = "[" + "; ".join(f"({'true' if o else 'false'}, {texpr_coq(e)})" for o, e in ops) + "]"
    same = "[" + ";".join("None" if s is None else f"Some {s}" for s in res["same"]) + "]"
    mat = lambda m: "[" + ";".join(blist(r) for r in m) + "]"
    dicts = "[" + ";".join("[" + ";".join(cname_coq(k["key"]) for k in dct) + "]" for dct in res["caches"]) + "]"
    obs = (f"(mkobs {same} {mat(res['sub'])} {mat(res['subfix'])} {mat(res['fixsub'])} "
           f"{nlist(res['nmro'])} {nlist(res['nbases'])} {dicts})")
    return f"({ops_t}, {obs})"


def step_coq(s):
    k = s[0]
    if k == "u":
        return "View.SU"
    if k == "s":
        return "View.SS"
    if k == "bv":
        return "View.SBV"
    if k == "sl":
        return f"(View.SSlice ({s[1]})%Z ({s[2]})%Z)"
    if k == "ix":
        return f"(View.SIndex ({s[1]})%Z)"
    return f"(View.SIter {s[1]})"


def zlist(l):
    return "[" + ";".join(f"({x})%Z" for x in l) + "]"


def view_case(sc, vr):
    chains = "[" + ";".join("[" + ";".join(step_coq(s) for s in ch) + "]" for ch in sc["chains"]) + "]"
    writes = []
    exp_w = []
    for (ci, bits), wr in zip(sc["writes"], vr["writes"]):
        if wr is None:
            continue
        writes.append(f"({ci}, {bits_lsb(bits)})")
        exp_w.append("[" + ";".join("None" if x is None else f"Some {bits_lsb(x)}" for x in wr["reads"]) + "]")
    scn = f"(View.mkscn {CF[sc['fam']]} {bits_lsb(sc['init'])} {chains} [{';'.join(writes)}])"
    vobs = []
    for r in vr["views"]:
        if r["err"] is not None:
            vobs.append("None")
            continue
        wr = r["wrapped"]
        kind = "View.KBit" if wr == ["leaf", "bit"] else f"(View.KVec {CF[wr[1]]})" if wr and wr[0] == "vec" else "View.KBit"
        sp = r["spec"]
        if len(sp) == 0:
            spec = "View.RNone"
        elif sp[-1][0] == "slice":
            spec = f"(View.RSlice ({sp[-1][1]})%Z ({sp[-1][2]})%Z {zlist(sp[-1][3])})"
        else:
            spec = f"(View.ROffset ({sp[-1][1]})%Z {zlist(sp[-1][2])})"
        vobs.append(f"Some (View.mkvobs {kind} {nlist(r['cells'])} {spec} {bits_lsb(r['read'])})")
    return f"({scn}, ([{';'.join(vobs)}], [{';'.join(exp_w)}]))"


# ----------------------------------------------------------------------------
# direct evaluation of the specification on the real results
# ----------------------------------------------------------------------------

def spec_types(seq, res, obsv):
    """returns list of (key, what, detail) violations of the property text on the real results"""
    bad = []
    tex = [item_expr(it) for it in seq["items"] if it[0] in ("t", "r")]
    is_re = [it[0] == "r" for it in seq["items"] if it[0] in ("t", "r")]
    st = res["status"]
    for i, e in enumerate(tex):
        want = "rej" if should_reject(e) else "ok"
        if is_re[i] and st[i] == "rej":
            continue        # refusing to subscript a parametrised class again satisfies the property
        if st[i] != want:
            bad.append(({"defect": "acceptance", "expr": json.dumps(e)}, f"subscript {e}: expected {want}, real code: {st[i]}", {}))
    ok = res["ok"]
    exprs = [tex[i] for i in ok]
    # attributes of the returned class describe the requested parameters
    for k, i in enumerate(ok):
        want = norm_expr(exprs[k])
        if res["desc"][k] != want:
            bad.append(({"defect": "attributes", "expr": json.dumps(exprs[k])},
                        f"class returned for {exprs[k]} carries the attributes of {res['desc'][k]}", {}))
    # canonical: equal parameters <-> identical object
    first = {}
    for k, i in enumerate(ok):
        key = json.dumps(norm_expr(exprs[k]))
        if key in first:
            if res["same"][i] != res["same"][first[key]]:
                bad.append(({"defect": "not_canonical", "expr": key}, f"{key} evaluated twice gave two class objects", {}))
        else:
            first[key] = i
            if res["same"][i] != i:
                other = tex[res["same"][i]]
                bad.append(({"defect": "not_distinct", "expr": key},
                            f"{key} returned the class object created for {other}", {}))
    # lattice
    for a in range(len(ok)):
        ea = norm_expr(exprs[a])
        for b in range(len(ok)):
            eb = norm_expr(exprs[b])
            want = doc_le(ea, eb)
            got = bool(res["sub"][a][b])
            if want != got:
                if (has_up(ea) or has_up(eb)) and got == doc_le(ea, eb, same_order=False):
                    obsv["upto_pairs_deviating_from_same_order_rule"] = obsv.get("upto_pairs_deviating_from_same_order_rule", 0) + 1
                    continue
                bad.append(({"defect": "lattice", "a": json.dumps(ea), "b": json.dumps(eb)},
                            f"issubclass({ea}, {eb}) is {got}, documented: {want}", {}))
        for f, F in enumerate(FIXED):
            if bool(res["subfix"][a][f]) != doc_le(ea, F):
                bad.append(({"defect": "lattice", "a": json.dumps(ea), "b": json.dumps(F)},
                            f"issubclass({ea}, {F}) is {bool(res['subfix'][a][f])}", {}))
            if bool(res["fixsub"][a][f]) != doc_le(F, ea):
                bad.append(({"defect": "lattice", "a": json.dumps(F), "b": json.dumps(ea)},
                            f"issubclass({F}, {ea}) is {bool(res['fixsub'][a][f])}", {}))
        ins = res["inst"][a]
        if ins is not None:
            if "crash" in ins:
                obsv["instance_ctor_failed"] = obsv.get("instance_ctor_failed", 0) + 1
            elif not ins["type_is"] or ins["isinst"] != res["sub"][a]:
                bad.append(({"defect": "isinstance", "a": json.dumps(ea)},
                            f"instance of {ea}: type(x) is cls = {ins['type_is']}, isinstance row {ins['isinst']} vs issubclass row {res['sub'][a]}", {}))
    # every dictionary entry is keyed by the parameters its class carries
    for dct in res["caches"]:
        for ent in dct:
            if ent["key"] != ent["cls"]:
                bad.append(({"defect": "cache_key", "key": json.dumps(ent["key"])},
                            f"cache entry {ent['key']} holds a class describing itself as {ent['cls']}", {}))
    if any(r and st[i] == "ok" for i, r in enumerate(is_re)) and bad:
        # a sequence containing an accepted re-subscription: everything that goes wrong afterwards is its effect
        bad = [({"defect": "resubscription_pollutes_cache", "kind": key["defect"]},
                "after subscripting an already parametrised class: " + what, det) for (key, what, det) in bad]
    return bad


def norm_expr(e):
    """bool/int are replaced by _Boolean/Integer by the qualifier; nothing else is normalised"""
    return e


def resolve_spec(sp, w):
    if len(sp) == 0:
        return 0, w - 1
    if len(sp) != 1:
        return None
    s = sp[0]
    if s[0] == "slice":
        off = sum(s[3])
        return s[2] + off, s[1] + off
    if s[0] == "offset":
        off = sum(s[2])
        return s[1] + off, s[1] + off
    return None


def spec_views(sc, vr):
    bad = []
    if "crash" in vr:
        return [({"defect": "view_crash"}, "view scenario crashed: " + vr["crash"], {})]
    w = sc["w"]
    exp = [sim_chain(w, sc["fam"], ch) for ch in sc["chains"]]
    for ci, (ch, e, r) in enumerate(zip(sc["chains"], exp, vr["views"])):
        chs = json.dumps(ch)
        if e is None:
            if r["err"] is None:
                kind = "negative_slice_accepted" if any(s[0] == "sl" and (s[1] < 0 or s[2] < 0) for s in ch) else "out_of_domain_accepted"
                rng_ = resolve_spec(r["spec"], w)
                bad.append(({"defect": kind},
                            f"view chain {chs} on width {w} is outside the documented domain but returns a view of cells "
                            f"{r['cells']} whose _ref_spec denotes {rng_}", {"chain": ch}))
            continue
        cells, kind = e
        if r["err"] is not None:
            bad.append(({"defect": "view_rejected"}, f"valid view chain {chs} raised {r['err']}", {"chain": ch}))
            continue
        wrapped = ["leaf", "bit"] if kind == "bit" else ["vec", kind, "down", len(cells)]
        if not r["root_is_root"]:
            bad.append(({"defect": "view_root"}, f"view {chs}: _root is not the root object", {"chain": ch}))
        if r["qual"] != [sc["q"], sc["dir"]]:
            bad.append(({"defect": "view_qualifier"}, f"view {chs}: qualifier {r['qual']} != {[sc['q'], sc['dir']]}", {"chain": ch}))
        if r["wrapped"] != wrapped or not r["type_canonical"] or not r["value_type_ok"]:
            bad.append(({"defect": "view_type"}, f"view {chs}: wrapped {r['wrapped']} expected {wrapped} canonical={r['type_canonical']}", {"chain": ch}))
        if r["cells"] != cells:
            bad.append(({"defect": "view_cells"}, f"view {chs}: shares cells {r['cells']}, expected {cells}", {"chain": ch}))
        rr = resolve_spec(r["spec"], w)
        if rr != (cells[0], cells[-1]):
            it_nested = any(s[0] == "it" for s in ch) and sum(1 for s in ch if s[0] == "sl") >= 2
            bad.append(({"defect": "iter_nested_slice_refspec" if it_nested else "view_refspec"},
                        f"view {chs} of a width-{w} object holds cells {cells[0]}..{cells[-1]} but its _ref_spec {r['spec']} "
                        f"denotes {rr}", {"chain": ch}))
    # writes on a flat bit array
    arr = list(reversed(sc["init"]))
    for (ci, bits), wr in zip(sc["writes"], vr["writes"]):
        if wr is None or exp[ci] is None:
            continue
        if wr["err"] is not None:
            bad.append(({"defect": "view_write_rejected"}, f"write through {sc['chains'][ci]} raised {wr['err']}", {}))
            continue
        cells = exp[ci][0]
        for k, c in enumerate(cells):
            arr[c] = bits[len(bits) - 1 - k]
        if wr["root"] != "".join(reversed(arr)):
            bad.append(({"defect": "view_alias"}, f"after writing {bits} through {sc['chains'][ci]} the root reads {wr['root']}, expected {''.join(reversed(arr))}", {}))
        for cj, (e, rd) in enumerate(zip(exp, wr["reads"])):
            if e is None or rd is None:
                continue
            want = "".join(arr[c] for c in reversed(e[0]))
            if rd != want:
                bad.append(({"defect": "view_alias"},
                            f"after writing {bits} through {sc['chains'][ci]}, view {sc['chains'][cj]} reads {rd}, expected {want}", {}))
    return bad


# ----------------------------------------------------------------------------
# the check
# ----------------------------------------------------------------------------
PREAMBLE = ("From Coq Require Import ZArith NArith PArith List Bool.\nImport ListNotations.\n"
            "From Cohdl Require Import Models.TyCache.\n")


def ensure_models():
    d = os.path.join(common.COQ_DIR, "theories", "Models")
    for f in ("TyCache", "TyCacheProofs"):
        v, vo = os.path.join(d, f + ".v"), os.path.join(d, f + ".vo")
        if not os.path.exists(vo) or os.path.getmtime(vo) < os.path.getmtime(v):
            rc, out, err = common.coqc(v)
            if rc != 0:
                return False, (out + err)[-3000:]
    return True, ""


def one_liner(seq):
    names = {"bv": "BitVector", "u": "Unsigned", "s": "Signed", "sig": "Signal", "var": "Variable",
             "tmp": "Temporary", "port": "Port", "bit": "Bit", "bool": "bool", "int": "int"}

    def src(e):
        k = e[0]
        if k == "leaf":
            return names[e[1]]
        if k == "vany":
            return names[e[1]]
        if k == "vec":
            return f"{names[e[1]]}[{e[3]}]" if e[2] == "down" else f"{names[e[1]]}[0:{e[3] - 1}]"
        if k == "arrany":
            return "Array"
        if k == "arr":
            return f"Array[{src(e[1])},{e[2]}]"
        if k == "qany":
            return names[e[1]]
        d = {"in": "Port.Direction.INPUT", "out": "Port.Direction.OUTPUT", "inout": "Port.Direction.INOUT"}
        return f"{names[e[1]]}[{src(e[3])}]" if e[2] is None else f"{names[e[1]]}[{src(e[3])},{d[e[2]]}]"
    def par(p):
        if p[0] == "w":
            return str(p[1])
        if p[0] == "a":
            return f"{src(p[1])},{p[2]}"
        d = {"in": "Port.Direction.INPUT", "out": "Port.Direction.OUTPUT", "inout": "Port.Direction.INOUT"}
        return src(p[2]) if p[1] is None else f"{src(p[2])},{d[p[1]]}"
    parts = []
    for it in seq["items"]:
        if it[0] == "t" and not should_reject(it[1]):
            parts.append(src(it[1]))
        elif it[0] == "r":
            parts.append(f"{src(it[1])}[{par(it[2])}]")
    return "from cohdl import *; L=[" + ", ".join(parts) + "]"


def run(ck: common.Check, replay=None):
    ok, log = ensure_models()
    if not ok:
        ck.obligation(False)
        ck.violation({"build": "TyCache"}, "Models/TyCache(.Proofs) no longer compile", {"log": log}, no_input=True)
        return
    ck.check_props("C13_Properties.v")
    ck.trusted += [
        "c13_worker.py: describes real class objects by the attributes they carry and by Python's is / issubclass / isinstance",
        "harness/c13.py implied_ops: which subscripts a view operation performs inside cohdl (checked by the dictionary dumps)",
    ]
    ck.assumptions += [
        "histories quantifier: proved for all sequences over the modelled expression grammar (Models/TyCacheProofs.v); the tie to the "
        "real classes is sampled (corpus + seeded sequences; thorough: all 720 orders of each 6-element set)",
        "documented parameter space = integer widths (DOWNTO); UPTO shapes f[0:n] are modelled as coded and reported as an observation",
        "subscripting an already parametrised class (BitVector[3][4], Signal[BitVector][Bit]; std.reg does underlying[arg.width]) is part of "
        "the histories quantifier: the property text demands that BitVector[4] afterwards is still unrelated to BitVector[3]. Such items are "
        "judged by the specification (result must be the family's class for the new parameters, or the subscript is refused); they are "
        "compared with the model (as  base ; family[param]) only when the specification holds - the model's grammar has no polluted classes",
        "views: one root vector object per scenario; array element views are not modelled (Array.__getitem__ returns fresh elements at Python level)",
    ]
    rng = ck.rng
    seqs = []
    if replay is not None:
        seqs = [replay["sequence"]]
    else:
        seqs += corpus()
        n_rand = 260 if ck.tier == "quick" else 2000
        for _ in range(n_rand):
            seqs.append(gen_seq(rng, 3, 14))
        if ck.tier == "thorough":
            for s in perm_sets():
                for perm in itertools.permutations(s):
                    seqs.append({"items": [["t", e] for e in perm]})
            ck.cov["exhaustive"] = False
            ck.cov["permutation_sets"] = len(perm_sets())
            ck.cov["permutation_orders_complete"] = "all 720 orders of each of the %d six-element sets (widths 1,2,3,8)" % len(perm_sets())
        else:
            # a seeded sample of the orders of the thorough sets
            for s in perm_sets():
                for _ in range(6):
                    p = list(s)
                    rng.shuffle(p)
                    seqs.append({"items": [["t", e] for e in p]})
    chunk = max(1, (len(seqs) + common.NCPU - 1) // common.NCPU)
    payloads = [{"seqs": seqs[i:i + chunk]} for i in range(0, len(seqs), chunk)]
    results = []
    for r in common.run_workers("c13_worker.py", payloads, timeout=3000):
        results += r["results"]
    assert len(results) == len(seqs)

    tcases, tmeta, vcases, vmeta = [], [], [], []
    obsv = {}
    per_defect = {}
    for si, (seq, res) in enumerate(zip(seqs, results)):
        ck.evaluations += 1
        if "crash" in res:
            ck.obligation(False)
            ck.violation({"defect": "worker_crash"}, "sequence crashed in the real interpreter: " + res["crash"],
                         {"sequence": seq, "trace": res.get("tb")}, no_input=True)
            continue
        n_t = sum(1 for it in seq["items"] if it[0] in ("t", "r"))
        ck.hist("ops_per_sequence", n_t)
        for it in seq["items"]:
            if it[0] == "t":
                e = it[1]
                ck.hist("op_kind", e[0] if e[0] != "q" else "q:" + e[1] + ":" + e[3][0])
                if should_reject(e):
                    ck.count("malformed_subscripts")
                if has_up(e):
                    ck.count("upto_subscripts")
            elif it[0] == "r":
                ck.count("resubscriptions")
                ck.hist("op_kind", "resub:" + it[2][0])
            else:
                ck.count("view_scenarios")
        for s in res["status"]:
            ck.hist("status", s)
        # spec directly on the real results
        bad = spec_types(seq, res, obsv)
        vi = 0
        for it in seq["items"]:
            if it[0] == "v":
                vr = res["views"][vi]
                vi += 1
                vb = spec_views(it[1], vr)
                for (key, what, det) in vb:
                    det = dict(det)
                    det["scenario"] = it[1]
                    bad.append((key, what, det))
                if "crash" not in vr:
                    vcases.append(view_case(it[1], vr))
                    vmeta.append((si, it[1], vr))
                    for ch in it[1]["chains"]:
                        ck.hist("chain_len", len(ch))
                        for s in ch:
                            ck.hist("view_step", s[0])
                    ck.count("view_writes", len(it[1]["writes"]))
        ck.obligation(not bad)
        seen = set()
        for (key, what, det) in bad:
            ks = json.dumps({k: v for k, v in key.items() if k == "defect"})
            if ks in seen:
                continue
            seen.add(ks)
            ck.hist("spec_violations_by_defect", key["defect"])
            per_defect[ks] = per_defect.get(ks, 0) + 1
            if per_defect[ks] > 2:          # at most two replays per defect class and run
                continue
            rep = {"sequence": seq, "what_detail": what, "python": one_liner(seq)}
            rep.update(det)
            ck.violation(key, what, rep)
        re_idx = [k for k, it in enumerate(it2 for it2 in seq["items"] if it2[0] in ("t", "r")) if it[0] == "r"]
        if re_idx and (any(key["defect"] == "resubscription_pollutes_cache" for key, _, _ in bad)
                       or any(res["status"][k] != "ok" for k in re_idx)):
            ck.count("resub_sequences_spec_only")     # the model has no class to compare with
        else:
            tcases.append(type_case(seq, res))
            tmeta.append(si)
        distinct = {json.dumps(item_expr(it)) for it in seq["items"] if it[0] in ("t", "r")}
        if len(distinct) >= 3 and sum(map(sum, res["sub"])) > len(res["ok"]):
            ck.nontrivial(json.dumps(seq["items"], sort_keys=True))
        if si % 97 == 0:
            ck.sample({"items": seq["items"][:6], "status": res["status"][:6], "nmro": res["nmro"][:6]})

    # model vs real, inside Coq
    bad_t = common.coq_bad_indices(ck, "types", PREAMBLE, "list (bool * texpr) * obs", tcases, "ty_case_ok", shard=150)
    bad_t = set(bad_t)
    for k, si in enumerate(tmeta):
        good = k not in bad_t
        ck.obligation(good)
        if not good:
            ck.count("model_mismatch_types")
        if not good and ck.cov["model_mismatch_types"] <= 3:
            ck.violation({"defect": "model_mismatch_types"},
                         "TyCache model and real interpreter disagree on identity / issubclass / mro / cache dictionaries; "
                         "the specification evaluated on the real result decides whether /repo is wrong (see other violations of this run)",
                         {"sequence": seqs[si], "real": results[si], "python": one_liner(seqs[si])},
                         no_input=True)
    bad_v = common.coq_bad_indices(ck, "views", PREAMBLE, "View.scenario * (list (option View.vobs) * list (list (option (list bool))))",
                                   vcases, "View.view_case_ok", shard=150) if vcases else []
    bad_v = set(bad_v)
    for k, (si, sc, vr) in enumerate(vmeta):
        good = k not in bad_v
        ck.obligation(good)
        if not good:
            ck.count("model_mismatch_views")
        if not good and ck.cov["model_mismatch_views"] <= 3:
            ck.violation({"defect": "model_mismatch_views"},
                         "View model and real interpreter disagree on cells / ref-spec / reads of a view scenario",
                         {"sequence": seqs[si], "scenario": sc, "real": vr}, no_input=True)
    ck.cov["sequences"] = len(seqs)
    ck.cov["type_cases_in_coq"] = len(tcases)
    ck.cov["view_cases_in_coq"] = len(vcases)
    ck.cov["observations"] = obsv
    ck.cov["rule"] = ("one case = one sequence of first uses run in a freshly forked interpreter; non-trivial = at least 3 distinct "
                      "subscripts and at least one proper subclass pair among the results; distinct by the item list")
