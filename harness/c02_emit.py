"""C02 - the tie of Models/ExprEmit.v (`emit`: what the back end PRINTS for an expression tree) to the real compiler.

For every generated C02 expression: the emitted VHDL is parsed (vhdl_reader), the temporaries are inlined (each
temporary is assigned exactly once: `tempN <= expr;` / `buffer_oK <= tempN;` / `oK <= buffer_oK;` in concurrent
contexts, `tempN := expr;` inside the clocked process), which gives ONE expression tree per output port over the input
ports; that tree is printed as a Coq `Vhdl.Syntax.expr` term and compared INSIDE Coq (`ExprEmit.emit_class`, syntactic
equality `expr_eqb`) with `emit pos e` for the same tree `e` (the Gallina `texp` term c02.py prints for the behavioural
case).  0 = the tree is outside the modelled grammar, 1 = equal, 2 = the back end printed something else than the model.

A mismatch means the correspondence `ExprEmit.emit` <-> _vhdl_repr.py no longer holds (the all-trees theorem
C02_emit_correct is then about a model that is not the code); the behaviour of the very design is decided by the
existing case theorem of c02.py, so a mismatch is reported with no_input=True unless that case failed too.
"""
from __future__ import annotations
import os
import re

import common
import vhdl_reader as R


class Opaque(Exception):
    pass


def definitions(design):
    """name -> defining expression for every object assigned exactly once, unconditionally and as a whole"""
    defs, bad = {}, set()

    def add(tgt, e, cond):
        name, path = tgt
        n = name.lower()
        if path or cond or n in defs:
            bad.add(n)
        else:
            defs[n] = e

    def stmts(ss, cond):
        for s in ss:
            k = s[0]
            if k in ("sig", "var"):
                add(s[1], s[2], cond)
            elif k == "if":
                clocked = s[1][0] == "edge" and not s[3]
                stmts(s[2], cond or not clocked)
                stmts(s[3], True)
            elif k == "case":
                for _, b in s[2]:
                    stmts(b, True)
                if s[3] is not None:
                    stmts(s[3], True)

    for c in design.conc:
        if c[0] == "assign":
            add(c[1], c[2], False)
        elif c[0] == "select":
            bad.add(c[1][0].lower())
        elif c[0] == "proc":
            stmts(c[3], False)
    for n in bad:
        defs.pop(n, None)
    return defs, bad


def inline(e, defs, inputs, depth=0):
    if depth > 400:
        raise Opaque("cyclic definition")
    k = e[0]
    if k == "lit":
        return e
    if k == "name":
        n = e[1].lower()
        if n in inputs:
            return e
        if n not in defs:
            raise Opaque(n)
        return inline(defs[n], defs, inputs, depth + 1)
    if k == "edge":
        raise Opaque("edge")
    if k == "slice":
        return ("slice", inline(e[1], defs, inputs, depth + 1), e[2], e[3])
    if k in ("un", "f1"):
        return (k, e[1], inline(e[2], defs, inputs, depth + 1))
    if k in ("bin", "f2"):
        return (k, e[1], inline(e[2], defs, inputs, depth + 1), inline(e[3], defs, inputs, depth + 1))
    if k == "idx":
        return ("idx", inline(e[1], defs, inputs, depth + 1), inline(e[2], defs, inputs, depth + 1))
    raise Opaque(str(k))


PREAMBLE = (common.COQ_HEADER + "From Cohdl Require Import Models.ExprRef Models.ExprEmit.\n"
            "Local Open Scope N_scope.\n")


def texp_term(d, n):
    ix = {p: i for i, p in enumerate(d.order)}
    return re.sub(r"@(\w+)@", lambda m: str(ix[m.group(1)]), n.cq)


def collect(d, vhdl):
    """-> [(node index, inputs term, texp term, printed expr term | None, why)]"""
    out = []
    try:
        _, design = R.read_design(vhdl, clk="clk" if d.clocked else None)
        pr = R.CoqPrinter(design)
        defs, bad = definitions(design)
        inputs = {p.lower() for p in d.order}
        ins = "[" + "; ".join(f"{pr.sig_ix[p.lower()]}%positive" for p in d.order) + "]"
    except (R.Unparsed, KeyError) as e:
        return [(i, None, None, None, "unparsed: " + str(e)[:80]) for i in range(len(d.nodes))]
    for i, n in enumerate(d.nodes):
        try:
            ex = inline(("name", f"o{i}"), defs, inputs)
            out.append((i, ins, texp_term(d, n), pr.expr(ex), ""))
        except (Opaque, KeyError) as e:
            out.append((i, ins, texp_term(d, n), None, "not a single inlined expression (" + str(e)[:40] + ")"))
    return out


def classify(ck, tag, terms, shard=500):
    """terms: Coq terms of type N -> their values"""
    files = []
    for si in range(0, len(terms), shard):
        path = os.path.join(ck.gen, f"{tag}_{si // shard:03d}.v")
        with open(path, "w") as f:
            f.write(PREAMBLE)
            f.write("Definition cases : list N := [\n  " + ";\n  ".join(terms[si:si + shard]) + "].\n")
            f.write("Eval vm_compute in cases.\n")
        files.append(path)
    res = []
    for path, (rc, out, err) in zip(files, common.coqc_many(files, timeout=900)):
        if rc != 0:
            raise RuntimeError(f"coqc failed on {path}:\n{(out + err)[-2000:]}")
        res += common.parse_N_list(common.coq_outputs(out)[-1])
        common._cleanup_v(path)
    return res


_round = [0]


def run_extra(ck, designs_and_vhdl):
    """designs_and_vhdl: [(c02.Design, emitted VHDL text, behavioural status 'ok' | other)]"""
    items = []
    for d, vhdl, st in designs_and_vhdl:
        for i, ins, te, ex, why in collect(d, vhdl):
            items.append((d, vhdl, st, i, ins, te, ex, why))
    _round[0] += 1
    # an output that is not a single inlined expression (with .. select, array element, run-time index temporary):
    # the model must say "outside" for its tree; the placeholder can never be equal to an emitted expression
    dummy = "(EEdge true 1%positive)"
    terms = [f"(emit_class {ins} {te} {ex if ex is not None else dummy})" for (_, _, _, _, ins, te, ex, _) in items if ins is not None]
    vals = iter(classify(ck, f"emit{_round[0]:02d}", terms) if terms else [])
    for d, vhdl, st, i, ins, te, ex, why in items:
        n = d.nodes[i]
        ck.count("emit_expressions")
        if ins is None:
            ck.count("emit_unparsed")       # the behavioural case reports an unparsed design
            continue
        v = next(vals)
        root = n.tag.split(":")[0]
        if v == 0:
            ck.count("emit_outside_grammar")
            ck.hist("emit_outside_by_root", root)
            continue
        ck.count("emit_inside_grammar")
        ck.hist("emit_inside_by_root", root)
        ck.evaluations += 1
        ok = v == 1
        if ok:
            ck.count("emit_matches")
            ck.obligation(True)
            ck.distinct.add("emit:" + n.tag + ":" + str(n.depth))
            continue
        ck.count("emit_mismatches")
        if st != "ok":
            # the behavioural case of this design failed as well: its report (with an operand valuation) stands
            ck.count("emit_mismatch_with_failed_case")
            continue
        ck.obligation(False)
        got = "(no single expression: " + why + ")" if ex is None else ex
        try:
            model = common.coq_eval_terms(ck, f"emitdiag{_round[0]:02d}_{i}", PREAMBLE,
                                          [f"emit (fun k => nth k {ins} 1%positive) {te}"])[-1]
        except Exception as e_:      # noqa
            model = "?" + str(e_)[:100]
        lines = [l.strip() for l in vhdl.split("\n") if "<=" in l or ":=" in l]
        ck.violation({"class": "emit_model/" + n.key},
                     "correspondence ExprEmit.emit <-> backend/vhdl/_vhdl_repr.py broken: the back end printed another "
                     f"expression than the model for {n.py} : {n.ty[0]}{n.ty[1]} (the behavioural case of the design holds; "
                     "theorem C02_emit_correct no longer speaks about the code)",
                     {"expr": n.py, "texp": te, "model_emits": model, "backend_printed": got, "design": d.name,
                      "source": d.source(), "emitted": lines[-12:], "correspondence": "ExprEmit.emit"},
                     no_input=True)
    ck.cov["emit_rule"] = ("per generated expression: inlined emitted expression tree = ExprEmit.emit of its texp term "
                           "(syntactic equality inside Coq); distinct by operator tag and depth")
