"""C04 - reset returns every context to its power-up behaviour from any state.

(A) generated sequential bodies (the C03 generator) wrapped with std.Reset in all four variants
    (synchronous/asynchronous x active high/low), objects with/without default, noreset objects, pushed signals,
    variables, optional on_reset action;
(B) coroutine bodies (the C01 generator) with a reset.
Per design a kernel-checked theorem: for ALL input sequences (reset asserted at any clock, for any duration, in any
reachable state, followed by any inputs) the parsed VHDL equals the reference 'reset => defaults on the resettable
objects, everything else kept, nothing else runs; otherwise the normal step', observed before and after each edge."""
from __future__ import annotations
import os
import re

import common
import explore as X
import vhdl_reader as R
import c01
import c03


def written(ref):
    sig = {int(k) for k in re.findall(r"\((?:TSig|TPush|TSigBit|TSigSlice) (\d+)", ref)}
    var = {int(k) for k in re.findall(r"\(TVar (\d+)", ref)}
    return sig, var


def reset_args(is_async, low):
    a = ["self.rst"]
    if low:
        a.append("active_low=True")
    if is_async:
        a.append("is_async=True")
    return "std.Reset(" + ", ".join(a) + ")"


def make_uni(rng):
    sig_defaults = (rng.randrange(2), 0, rng.randrange(4), rng.randrange(16))
    hasdef = [True, True, True, True]
    noreset = [False, False, False, False]
    if rng.random() < 0.25:
        noreset[1] = True          # a pushed signal marked noreset still returns to its default every step
    for k in (0, 2, 3):
        r = rng.random()
        if r < 0.2:
            hasdef[k] = False
        elif r < 0.4:
            noreset[k] = True
    var_defaults = (rng.randrange(4), rng.randrange(2))
    var_noreset = (rng.random() < 0.25, rng.random() < 0.25)
    sd = tuple(d if h else 0 for d, h in zip(sig_defaults, hasdef))
    return c03.Universe(first_in=0, sig_defaults=sd, sig_hasdef=tuple(hasdef), sig_noreset=tuple(noreset),
                        var_defaults=var_defaults, var_noreset=var_noreset)


def rdecls(uni, ref, on_reset):
    ws, wv = written(ref)
    out = []
    for k in range(4):
        d = uni.sig_defaults[k]
        rst = uni.sig_hasdef[k] and not uni.sig_noreset[k] and k in ws
        if on_reset is not None and on_reset[0] == k:
            # the on_reset action runs after the default assignments (last assignment wins)
            d, rst = on_reset[1], True
        out.append("{| r_def := %d%%Z; r_rst := %s |}" % (d, "true" if rst else "false"))
    for k in range(2):
        rst = (not uni.var_noreset[k]) and k in wv
        out.append("{| r_def := %d%%Z; r_rst := %s |}" % (uni.var_defaults[k], "true" if rst else "false"))
    out.append("{| r_def := 0%Z; r_rst := false |}")     # ghost variable of the reference (captured element index)
    return "[" + "; ".join(out) + "]"


CORO_TMPL = """{header}From Cohdl Require Import Equiv.VhdlTS Vhdl.DeadVars Equiv.StoreTS Models.Coro Models.CoroReset.
Definition d : design := {design}.
Definition p : stmt := {prog}.
Definition alphabet : list (list value) := product [{cands}].
Definition assume (_ : rstate) (_ : list value) := true.
Definition stepB := ref_step_rst {is_async} {low} p.
Theorem case_ok : forall ins, admissible stepB alphabet assume rinit ins ->
  traceA (sstep d true) (power_up_s d) ins = traceB stepB rinit ins.
Proof.
  apply (vcheck_s_sound d true stepB rstate_eqb rstate_eqb_ok rhash alphabet assume 400000 rinit);
    vm_cast_no_check (eq_refl true).
Qed.
{low_thm}"""
# second case theorem for coroutine bodies of Lower.in_grammar: the emitted design against the lowered
# machine of the Gallina model inside the reset clause (Models/LowerReset.v), product exploration
CORO_LOW = """From Cohdl Require Import Equiv.RefTS Models.ResetRef Models.Lower Models.LowerProofs Models.LowerReset Models.LowerResetProofs.
Example in_gr : in_grammar p = true. Proof. vm_cast_no_check (eq_refl true). Qed.
Definition m : machine := Eval vm_compute in (lower p).
Definition assumeZ (_ : list Z) (_ : list value) := true.
Theorem case_low : forall ins, admissible (mstepZ_rst {is_async} {low} rs_all (lower p)) alphabet assumeZ minitZ ins ->
  traceA (sstep d true) (power_up_s d) ins = traceB (mstepZ_rst {is_async} {low} rs_all (lower p)) minitZ ins.
Proof.
  assert (Hm : lower p = m) by (vm_compute; reflexivity). rewrite Hm.
  apply (rcheck_s_sound d true (mstepZ_rst {is_async} {low} rs_all m) alphabet assumeZ 400000 minitZ); vm_cast_no_check (eq_refl true).
Qed.
"""
CORO_DIAG_LOW = """Definition verdict_low := Eval vm_compute in (rcheck_s_bfs d true (mstepZ_rst {is_async} {low} rs_all m) alphabet assumeZ 400000 minitZ).
Eval vm_compute in verdict_low.
Eval vm_compute in (match verdict_low with
  | VCex path => Some (traceA (sstep d true) (power_up_s d) path, traceB (mstepZ_rst {is_async} {low} rs_all m) minitZ path)
  | _ => None end).
"""
CORO_DIAG = """Eval vm_compute in (conc_all_ok (auto_Ts d) d).
Definition verdict := Eval vm_compute in (vcheck_s_bfs d true stepB rstate_eqb rhash alphabet assume 400000 rinit).
Eval vm_compute in verdict.
Eval vm_compute in (match verdict with
  | VCex path => Some (traceA (sstep d true) (power_up_s d) path, traceB stepB rinit path)
  | _ => None end).
"""


def coro_source(prog, is_async, low):
    src = c01.to_source(prog)
    src = src.replace("    clk = Port.input(Bit)\n", "    clk = Port.input(Bit)\n    rst = Port.input(Bit)\n")
    src = src.replace("@std.sequential(std.Clock(self.clk))", f"@std.sequential(std.Clock(self.clk), {reset_args(is_async, low)})")
    return src


def run(ck: common.Check, replay=None):
    ck.check_props("C04_Properties.v")
    n_seq = 28 if ck.tier == "quick" else 160
    n_coro = 16 if ck.tier == "quick" else 100
    variants = [(a, l) for a in (False, True) for l in (False, True)]
    items = []
    for k in range(n_seq):
        is_async, low = variants[k % 4]
        uni = make_uni(ck.rng)
        g = c03.Gen(ck.rng, "clocked", uni)
        lines, ref = g.program(6)
        on_reset = None
        pre = []
        ctx = f"std.Clock(self.clk), {reset_args(is_async, low)}"
        step_cond = ck.rng.random() < 0.3
        if step_cond:
            ctx += ", step_cond=lambda: self.b"
        if ck.rng.random() < 0.3:
            v = ck.rng.randrange(2)
            on_reset = (0, v)
            pre = ["        def on_rst():", f"            self.q0 <<= {'True' if v else 'False'}"]
            ctx += ", on_reset=on_rst"
        src = c03.to_source("clocked", lines, g.helpers, uni, ctx_args=ctx, extra_ports=["    rst = Port.input(Bit)"], pre_ctx=pre)
        items.append(("seq", f"seq{k:04d}", src, dict(uni=uni, ref=ref, on_reset=on_reset, is_async=is_async, low=low, step_cond=step_cond)))
    cg = c01.Gen(ck.rng, max_stmts=7, max_depth=2)
    base = [p for p in c01.CORPUS[:20]]
    for k in range(n_coro):
        is_async, low = variants[k % 4]
        prog = base[k] if k < len(base) and ck.tier == "quick" and k % 2 == 0 else cg.program()
        items.append(("coro", f"coro{k:04d}", coro_source(prog, is_async, low), dict(prog=prog, is_async=is_async, low=low)))
    res = X.compile_designs(ck, [{"name": n, "source": s, "entity": "E"} for _, n, s, _ in items])
    seq_cases, coro_files = [], []
    for (kind, name, src, m), r in zip(items, res):
        if not r["ok"]:
            ck.evaluations += 1
            ck.hist("rejected", r["error"][:70])
            continue
        b = lambda x: "true" if x else "false"
        ck.hist("variants", ("async" if m["is_async"] else "sync") + "/" + ("low" if m["low"] else "high") + "/" + kind)
        if kind == "seq":
            uni = m["uni"]
            defs = (f"Definition sdecls := {uni.sdecls()}.\nDefinition body : stm := {m['ref']}.\n"
                    f"Definition rdecls := {rdecls(uni, m['ref'], m['on_reset'])}.\n"
                    "Definition outs (st : list Z) : list value := map (fun p => out_val (fst p) (snd p)) (combine sdecls (firstn 4 st)).")
            inner = "(seq_step sdecls body)"
            if m["step_cond"]:
                inner = f"(with_stepcond 1 outs {inner})"      # input b (index 1 after the reset)
            seq_cases.append(X.Case(name, r["vhdl"], step=f"with_reset {b(m['is_async'])} {b(m['low'])} rdecls outs {inner}",
                                    init=uni.init_state(), defs=defs, mid=True,
                                    input_inits={"rst": ("L", True)} if m["low"] else None,
                                    alphabet_overrides={"i": "[VV KUns 2%N 0%Z; VV KUns 2%N 1%Z; VV KUns 2%N 3%Z]"} if ck.tier == "quick" else None,
                                    imports="From Cohdl Require Import Models.SeqRef Models.ResetRef.",
                                    meta={"kind": "sequential body", "async": m["is_async"], "active_low": m["low"],
                                          "on_reset": m["on_reset"], "step_cond": m["step_cond"], "source": src, "ref": m["ref"]}))
        else:
            ck.evaluations += 1
            try:
                ents, d = R.read_design(r["vhdl"])
            except R.Unparsed as e:
                ck.obligation(False)
                ck.violation({"case": name}, "emitted VHDL left the parsed subset: " + str(e), {"source": src, "vhdl": r["vhdl"]}, no_input=True)
                continue
            if m["low"]:
                for sd in d.sigs:
                    if sd.dir == "in" and sd.name == "rst":
                        sd.init = ("L", True)      # the test bench holds an active-low reset inactive at power-up
            path = os.path.join(ck.gen, name + ".v")
            # C04_NO_LOWER=1 switches the second (lowering-model) theorem off: only for timing comparisons
            m["lower"] = c01.in_grammar(m["prog"]) and os.environ.get("C04_NO_LOWER") is None
            low_txt = CORO_LOW.format(is_async=b(m["is_async"]), low=b(m["low"])) if m["lower"] else ""
            with open(path, "w") as f:
                f.write(CORO_TMPL.format(header=common.COQ_HEADER, design=R.design_to_coq(d), prog=c01.block_coq(m["prog"]),
                                         cands="; ".join("bit_cands" for _ in d.inputs), is_async=b(m["is_async"]), low=b(m["low"]),
                                         low_thm=low_txt))
            coro_files.append((name, path, src, r["vhdl"], m))
    X.run_cases(ck, seq_cases, "design and reset reference differ on an input sequence",
                key_of=lambda c: {"case": c.name}, count_first=3)
    b_ = lambda x: "true" if x else "false"
    outs = common.coqc_many([f[1] for f in coro_files], timeout=2400)
    for (name, path, src, vhdl, m), (rc, out, err) in zip(coro_files, outs):
        if rc == 0:
            ck.obligation(True)
            ck.nontrivial(name)
            if m["lower"]:
                ck.obligation(True)
                ck.count("coroutines_tied_to_lowering_model")
            common._cleanup_v(path)
            continue
        s = open(path).read()
        full = s
        s = s[:s.index("Theorem case_ok")]
        dpath = path[:-2] + "_diag.v"
        open(dpath, "w").write(s + CORO_DIAG)
        rc2, out2, err2 = common.coqc(dpath, 3000)
        o = common.coq_outputs(out2)
        while o and not o[0].startswith("V"):
            o = o[1:]
        rep = {"case": name, "source": src, "vhdl": vhdl, "program": m["prog"], "async": m["is_async"], "active_low": m["low"]}
        if o and o[0].startswith("VOk") and m["lower"]:
            # the design agrees with the reset reference: the second theorem (lowering model) failed
            ck.obligation(True)
            ck.nontrivial(name)
            ck.obligation(False)
            a = full.index("Theorem case_ok")
            z = full.index("Qed.", a) + len("Qed.\n")
            t = (full[:a] + full[z:full.index("Theorem case_low")]).replace(
                "Example in_gr : in_grammar p = true. Proof. vm_cast_no_check (eq_refl true). Qed.\n", "")
            lpath = path[:-2] + "_diaglow.v"
            open(lpath, "w").write(t + CORO_DIAG_LOW.format(is_async=b_(m["is_async"]), low=b_(m["low"])))
            rc3, out3, err3 = common.coqc(lpath, 3000)
            o3 = [x for x in common.coq_outputs(out3) if x.startswith("V") or x.startswith("Some")]
            rep["correspondence"] = ("Models/Lower.v lower + Models/LowerReset.v mstepZ_rst  <->  IrGenerator lowering inside the "
                                     "reset clause of std.sequential: emitted design vs mstepZ_rst (lower p)")
            if o3 and o3[0].startswith("VCex"):
                rep.update({"path": o3[0], "traces": o3[1] if len(o3) > 1 else ""})
            else:
                rep["log"] = (out + err + out3 + err3)[-1500:]
            ck.violation({"case": name, "tie": "lower"},
                         "emitted design equals the coroutine reset reference but differs from the Gallina model of the "
                         "lowering with reset (model out of date or wrong)", rep, no_input=True)
            continue
        ck.obligation(False)
        if o and o[0].startswith("VCex"):
            rep.update({"path": o[0], "traces": o[1] if len(o) > 1 else ""})
            ck.violation({"case": name}, "coroutine with reset and its reference differ on an input sequence", rep)
        elif o and o[0].startswith("VFuel"):
            ck.obligations -= 1      # undecided for lack of resources (see explore.run_cases)
            ck.cov.setdefault("undecided_state_space_above_budget", []).append(name)
        else:
            rep["log"] = (out + err + out2 + err2)[-1500:]
            ck.violation({"case": name}, "reset obligation not discharged", rep, no_input=True)
    ck.cov["programs"] = ck.cov.get("programs", 0) + len(coro_files)
    # library plumbing around reset (NoresetSignal/NoresetVariable of compound types, SequentialContext.with_params):
    # equivalence pairs against written-out renderings, proved for all input sequences
    import c04_pairs
    c04_pairs.run_pairs(ck)
    ck.cov["rule"] = ("one theorem per generated design (sequential bodies and coroutines) x reset variant; the theorem covers reset at "
                      "every clock, for every duration, in every reachable state, followed by every input sequence")
    ck.trusted += ["fail-closed VHDL reader", "Vhdl.Sem (asynchronous resets observed through the mid-cycle sample)",
                   "ResetRef/CoroReset as the rendering of the reset clause; SeqRef/Coro.ref for the non-reset step",
                   "Lower.lower + LowerReset.mstepZ_rst as a rendering of the lowering inside a reset clause: tied per coroutine "
                   "case (case_low), proved for all programs against ref_step_rst (C04_lower_rst_correct)"]
    ck.assumptions += ["the reset input is inactive at power-up (the test bench drives an active-low reset high before the first clock)",
                       "objects without an initial value power up as zero (two-valued model), both in the design and in the reference",
                       "designs are sampled; locally declared signals inside contexts are not generated"]
