"""C03 - sequential and concurrent contexts obey hardware assignment semantics.

generated context bodies (signals, pushed signals, variables, bit/slice targets with constant and run-time index,
if/elif/else, match, for-break chains, for-else, helper calls with returns in branches, always-expressions)
-> real compiler -> VHDL -> parsed design; per body a kernel-checked theorem: for ALL input sequences the design's
trace equals the documented activation semantics (Models/SeqRef.v)."""
from __future__ import annotations
import json

import common
import explore as X

# ----------------------------------------------------------------------------
# fixed universe of objects
# ----------------------------------------------------------------------------
INPUTS = [("a", "bit"), ("b", "bit"), ("x", "u2"), ("i", "u2")]
SIGS = [("q0", "bit", False), ("q1", "bit", True), ("r0", "u2", False), ("w0", "bv4", False)]   # name, type, pushed
VARS = [("v0", "u2"), ("vb", "bit")]
WIDTH = {"bit": 1, "u2": 2, "bv4": 4, "bool": 1}
PYTY = {"bit": "Bit", "u2": "Unsigned[2]", "bv4": "BitVector[4]"}


class Universe:
    """declarations of the fixed objects; `first_in` = index of input `a` in the design's input list (C04 puts rst first)"""

    def __init__(self, first_in=0, sig_defaults=(0, 0, 0, 0), sig_hasdef=(True, True, True, True),
                 sig_noreset=(False, False, False, False), var_defaults=(0, 0), var_noreset=(False, False)):
        self.first_in = first_in
        self.sig_defaults = sig_defaults
        self.sig_hasdef = sig_hasdef
        self.sig_noreset = sig_noreset
        self.var_defaults = var_defaults
        self.var_noreset = var_noreset

    def lit(self, ty, v):
        if ty == "bit":
            return "True" if v else "False"
        if ty == "u2":
            return f"Unsigned[2]({v})"
        return f'BitVector[4]("{v:04b}")'

    def port_decls(self):
        out = []
        for k, (n, t, _) in enumerate(SIGS):
            args = [PYTY[t]]
            if self.sig_hasdef[k]:
                args.append("default=" + self.lit(t, self.sig_defaults[k]))
            if self.sig_noreset[k]:
                args.append("noreset=True")
            out.append(f"    {n} = Port.output({', '.join(args)})")
        return out

    def var_decls(self):
        out = []
        for k, (n, t) in enumerate(VARS):
            extra = ", noreset=True" if self.var_noreset[k] else ""
            out.append(f"        {n} = Variable[{PYTY[t]}]({self.lit(t, self.var_defaults[k])}, name='{n}'{extra})")
        return out

    def sdecls(self):
        tys = {"bit": "SBit", "u2": "SUns 2%N", "bv4": "SSlv 4%N"}
        return "[" + "; ".join(
            "{| s_ty := %s; s_push := %s; s_def := %d%%Z |}" % (tys[t], "true" if p else "false", self.sig_defaults[k])
            for k, (n, t, p) in enumerate(SIGS)) + "]"

    def init_state(self):
        # the last entry is a ghost variable of the reference only: the index captured by an element reference
        vals = [self.sig_defaults[k] if self.sig_hasdef[k] else 0 for k in range(len(SIGS))] + list(self.var_defaults) + [0]
        return "[" + "; ".join(f"{v}%Z" for v in vals) + "]"


DEFAULT_UNI = Universe()
NR_UNI = Universe(sig_noreset=(False, True, True, False), var_noreset=(True, False))   # pushed q1 and r0 marked noreset


# expressions are tuples (kind, type, python text, coq text)
def mk(ty, py, cq):
    return (ty, py, cq)


class Gen:
    def __init__(self, rng, mode, uni=None):
        self.rng = rng
        self.uni = uni or DEFAULT_UNI
        self.mode = mode            # clocked | comb | conc
        self.helpers = []
        self.budget = 0
        self.assigned_vars = set()

    # ---- leaves ----
    def leaf(self, ty):
        r = self.rng
        opts = []
        for k, (n, t) in enumerate(INPUTS):
            if t == ty:
                opts.append(mk(ty, f"self.{n}", f"(XIn {k + self.uni.first_in})"))
        if self.mode == "clocked":
            for k, (n, t, _) in enumerate(SIGS):
                if t == ty:
                    opts.append(mk(ty, f"self.{n}", f"(XSig {k})"))
        if self.mode in ("clocked", "comb"):
            for k, (n, t) in enumerate(VARS):
                if t == ty and (self.mode == "clocked" or n in self.assigned_vars):
                    opts.append(mk(ty, n, f"(XVar {k})"))
        if ty == "u2":
            c = r.randrange(4)
            opts.append(mk(ty, f"Unsigned[2]({c})", f"(XConst {c}%Z)"))
        if ty == "bit" and not opts:
            opts.append(mk(ty, "Bit(True)", "(XConst 1%Z)"))
        return r.choice(opts)

    def bit(self, d=0):
        r = self.rng.random()
        if d >= 2 or r < 0.45:
            return self.leaf("bit")
        if r < 0.55:
            e = self.bit(d + 1)
            return mk("bit", f"(~{e[1]})", f"(XNot 1%N {e[2]})")
        if r < 0.8:
            a, b = self.bit(d + 1), self.bit(d + 1)
            op, cq = self.rng.choice([("&", "XAnd"), ("|", "XOr"), ("^", "XXor")])
            return mk("bit", f"({a[1]} {op} {b[1]})", f"({cq} {a[2]} {b[2]})")
        if r < 0.9:
            k = self.rng.randrange(2)
            return mk("bit", f"self.x[{k}]", f"(XBit (XIn {2 + self.uni.first_in}) (XConst {k}%Z))")
        if self.mode == "clocked":
            if self.rng.random() < 0.5:
                k = self.rng.randrange(4)
                return mk("bit", f"self.w0[{k}]", f"(XBit (XSig 3) (XConst {k}%Z))")
            u = self.u2(d + 1)
            return mk("bit", f"self.w0[{u[1]}]", f"(XBit (XSig 3) {u[2]})")
        return self.leaf("bit")

    def cond(self, d=0):
        r = self.rng.random()
        if r < 0.4:
            return self.bit(d + 1)
        a = self.u2(d + 1)
        if r < 0.65:
            b = self.u2(d + 1)
            return mk("bool", f"({a[1]} == {b[1]})", f"(XEq {a[2]} {b[2]})")
        if r < 0.8:
            c = self.rng.randrange(4)
            return mk("bool", f"({a[1]} != {c})", f"(XNe {a[2]} (XConst {c}%Z))")
        b = self.u2(d + 1)
        return mk("bool", f"({a[1]} < {b[1]})", f"(XLt {a[2]} {b[2]})")

    def u2(self, d=0):
        r = self.rng.random()
        if d >= 2 or r < 0.5:
            return self.leaf("u2")
        if r < 0.7:
            a, b = self.u2(d + 1), self.u2(d + 1)
            return mk("u2", f"({a[1]} + {b[1]})", f"(XAdd 2%N {a[2]} {b[2]})")
        if r < 0.78:
            a = self.u2(d + 1)
            c = self.rng.randrange(1, 4)
            return mk("u2", f"({a[1]} + {c})", f"(XAdd 2%N {a[2]} (XConst {c}%Z))")
        if r < 0.88:
            a, b = self.u2(d + 1), self.u2(d + 1)
            return mk("u2", f"({a[1]} - {b[1]})", f"(XSub 2%N {a[2]} {b[2]})")
        if r < 0.94 and self.mode == "clocked":
            return mk("u2", "self.w0[2:1].unsigned", "(XSlice (XSig 3) 1%N 2%N)")
        c = self.cond(d + 1)
        a, b = self.u2(d + 1), self.u2(d + 1)
        return mk("u2", f"({a[1]} if {c[1]} else {b[1]})", f"(XIte {c[2]} {a[2]} {b[2]})")

    def bv4(self):
        r = self.rng.random()
        if r < 0.5:
            a, b = self.u2(1), self.u2(1)
            return mk("bv4", f"({a[1]} @ {b[1]})", f"(XConcat 2%N {a[2]} {b[2]})")
        if self.mode == "clocked":
            return mk("bv4", "(~self.w0)", "(XNot 4%N (XSig 3))")
        a = self.u2(1)
        return mk("bv4", f"({a[1]} @ {a[1]})", f"(XConcat 2%N {a[2]} {a[2]})")

    # ---- statements: return (python lines, coq stm) ----
    def assign(self, ind):
        if self.mode == "conc":
            return self.assign_conc(ind)
        r = self.rng.random()
        if r < 0.2:
            e = self.bit() if self.rng.random() < 0.7 else self.cond()
            return [ind + f"self.q0 <<= {e[1]}"], f"(RAssign (TSig 0) {e[2]})"
        if r < 0.32:
            e = self.bit()
            return [ind + f"self.q1 ^= {e[1]}"], f"(RAssign (TPush 1) {e[2]})"
        if r < 0.5:
            e = self.u2()
            return [ind + f"self.r0 <<= {e[1]}"], f"(RAssign (TSig 2) {e[2]})"
        if r < 0.62 and self.mode != "conc":
            e = self.u2()
            self.assigned_vars.add("v0")
            return [ind + f"v0 @= {e[1]}"], f"(RAssign (TVar 0) {e[2]})"
        if r < 0.7 and self.mode != "conc":
            e = self.bit()
            self.assigned_vars.add("vb")
            return [ind + f"vb @= {e[1]}"], f"(RAssign (TVar 1) {e[2]})"
        if r < 0.78:
            e = self.bit()
            k = self.rng.randrange(4)
            return [ind + f"self.w0[{k}] <<= {e[1]}"], f"(RAssign (TSigBit 3 (XConst {k}%Z)) {e[2]})"
        if r < 0.86 and self.mode != "conc":
            e = self.bit()
            u = self.u2(1)
            return [ind + f"self.w0[{u[1]}] <<= {e[1]}"], f"(RAssign (TSigBit 3 {u[2]}) {e[2]})"
        if r < 0.93:
            e = self.u2()
            lo = self.rng.randrange(3)
            return [ind + f"self.w0[{lo + 1}:{lo}] <<= {e[1]}"], f"(RAssign (TSigSlice 3 {lo}%N 2%N) {e[2]})"
        e = self.bv4()
        return [ind + f"self.w0 <<= {e[1]}"], f"(RAssign (TSig 3) {e[2]})"

    def assign_conc(self, ind):
        """a concurrent context drives each target (bit) from exactly one statement"""
        free = [t for t in ("q0", "r0", "w0", "w0lo", "w0hi") if t not in self.assigned_vars]
        if "w0" in self.assigned_vars:
            free = [t for t in free if not t.startswith("w0")]
        if "w0lo" in self.assigned_vars or "w0hi" in self.assigned_vars:
            free = [t for t in free if t != "w0"]
        if not free:
            self.budget = 0
            return [ind + "pass"], "RSkip"
        t = self.rng.choice(free)
        self.assigned_vars.add(t)
        if t == "q0":
            e = self.bit() if self.rng.random() < 0.7 else self.cond()
            return [ind + f"self.q0 <<= {e[1]}"], f"(RAssign (TSig 0) {e[2]})"
        if t == "q1":
            e = self.bit()
            return [ind + f"self.q1 <<= {e[1]}"], f"(RAssign (TSig 1) {e[2]})"
        if t == "r0":
            e = self.u2()
            return [ind + f"self.r0 <<= {e[1]}"], f"(RAssign (TSig 2) {e[2]})"
        if t == "w0":
            e = self.bv4()
            return [ind + f"self.w0 <<= {e[1]}"], f"(RAssign (TSig 3) {e[2]})"
        lo = 0 if t == "w0lo" else 2
        e = self.u2()
        return [ind + f"self.w0[{lo + 1}:{lo}] <<= {e[1]}"], f"(RAssign (TSigSlice 3 {lo}%N 2%N) {e[2]})"

    def block(self, ind, depth):
        n = self.rng.randint(1, 3)
        lines, stms = [], []
        for _ in range(n):
            if self.budget <= 0 and stms:
                break
            self.budget -= 1
            l, s = self.stmt(ind, depth)
            lines += l
            stms.append(s)
        return lines, seq(stms)

    def stmt(self, ind, depth):
        r = self.rng.random()
        if depth >= 2 or r < 0.5 or self.mode == "conc":
            return self.assign(ind)
        saved = set(self.assigned_vars)
        if r < 0.7:
            c = self.cond()
            tl, ts = self.block(ind + "    ", depth + 1)
            av = set(self.assigned_vars)
            self.assigned_vars = set(saved)
            lines = [ind + f"if {c[1]}:"] + tl
            arms = [(c, ts)]
            while self.rng.random() < 0.35:
                c2 = self.cond()
                l2, s2 = self.block(ind + "    ", depth + 1)
                av &= self.assigned_vars
                self.assigned_vars = set(saved)
                lines += [ind + f"elif {c2[1]}:"] + l2
                arms.append((c2, s2))
            els = "RSkip"
            if self.rng.random() < 0.6:
                l3, els = self.block(ind + "    ", depth + 1)
                av &= self.assigned_vars
                lines += [ind + "else:"] + l3
            else:
                av = set(saved)
            self.assigned_vars = av
            res = els
            for c_, s_ in reversed(arms):
                res = f"(RIf {c_[2]} {s_} {res})"
            return lines, res
        if r < 0.82:
            u = self.u2(1)
            ks = self.rng.sample(range(4), self.rng.randint(1, 3))
            lines = [ind + f"match {u[1]}:"]
            arms = []
            av = None
            for k in ks:
                self.assigned_vars = set(saved)
                l, s = self.block(ind + "        ", depth + 1)
                av = set(self.assigned_vars) if av is None else av & self.assigned_vars
                lines += [ind + f"    case {k}:"] + l
                arms.append((k, s))
            els = "RSkip"
            if self.rng.random() < 0.5:
                self.assigned_vars = set(saved)
                l, els = self.block(ind + "        ", depth + 1)
                av &= self.assigned_vars
                lines += [ind + "    case _:"] + l
            else:
                av = set(saved)
            self.assigned_vars = av
            res = els
            for k, s in reversed(arms):
                res = f"(RIf (XEq {u[2]} (XConst {k}%Z)) {s} {res})"
            return lines, res
        if r < 0.92:
            # for-break chain: first k with  u == k  executes its body; optional for-else
            u = self.u2(1)
            ks = list(range(self.rng.randint(2, 4)))
            e = self.u2(1)
            # conditions are either one-hot (u == k) or OVERLAPPING (u < k + 1: several iterations would match, the
            # first one in iteration order wins)
            overlap = self.rng.random() < 0.5
            cpy = (lambda: f"{u[1]} < k + 1") if overlap else (lambda: f"{u[1]} == k")
            ccq = (lambda k: f"(XLt {u[2]} (XConst {k + 1}%Z))") if overlap else (lambda k: f"(XEq {u[2]} (XConst {k}%Z))")
            lines = [ind + f"for k in range({len(ks)}):", ind + f"    if {cpy()}:",
                     ind + f"        self.r0 <<= {e[1]} + k", ind + "        break"]
            els = "RSkip"
            if self.rng.random() < 0.5:
                l, els = self.assign(ind + "    ")
                lines += [ind + "else:"] + l
            self.assigned_vars = set(saved)
            res = els
            for k in reversed(ks):
                res = f"(RIf {ccq(k)} (RAssign (TSig 2) (XAdd 2%N {e[2]} (XConst {k}%Z))) {res})"
            return lines, res
        # an element reference keeps the index it was taken with (run-time index captured at access time)
        if self.mode == "clocked" and self.rng.random() < 0.35:
            use_var = self.rng.random() < 0.6
            idx = mk("u2", "v0", "(XVar 0)") if use_var else self.u2(1)
            upd = self.u2(1)
            b1 = self.bit(1)
            self.refs = getattr(self, "refs", 0) + 1
            rn = f"ref{self.refs}"
            self.assigned_vars.add("v0")
            lines = [ind + f"{rn} = self.w0[{idx[1]}]", ind + f"v0 @= {upd[1]}", ind + f"self.q0 <<= {rn}", ind + f"{rn} <<= {b1[1]}"]
            st = (f"(RSeq (RAssign (TVar 2) {idx[2]}) (RSeq (RAssign (TVar 0) {upd[2]}) "
                  f"(RSeq (RAssign (TSig 0) (XBit (XSig 3) (XVar 2))) (RAssign (TSigBit 3 (XVar 2)) {b1[2]}))))")
            return lines, st
        # helper with returns in branches
        if self.rng.random() < 0.5:
            h = self.rng.choice(["h_for", "h_forelse", "h_forsame", "h_forlt", "h_forlt"])
            u, p, q = self.u2(1), self.u2(1), self.u2(1)
            if h not in self.helpers:
                self.helpers.append(h)
            res = q[2]
            for k in (2, 1, 0):
                val = p[2] if h == "h_forsame" else f"(XAdd 2%N {p[2]} (XConst {k}%Z))"
                cnd = f"(XLt {u[2]} (XConst {k + 1}%Z))" if h == "h_forlt" else f"(XEq {u[2]} (XConst {k}%Z))"
                res = f"(XIte {cnd} {val} {res})"
            return [ind + f"self.r0 <<= {h}({u[1]}, {p[1]}, {q[1]})"], f"(RAssign (TSig 2) {res})"
        if self.rng.random() < 0.5:
            c1, c2 = self.cond(), self.cond()
            p, q = self.u2(1), self.u2(1)
            if self.rng.random() < 0.5:
                if "h_elseret" not in self.helpers:
                    self.helpers.append("h_elseret")
                return ([ind + f"self.r0 <<= h_elseret({c1[1]}, {p[1]}, {q[1]})"],
                        f"(RAssign (TSig 2) (XIte {c1[2]} {p[2]} {q[2]}))")
            if "h_elifret" not in self.helpers:
                self.helpers.append("h_elifret")
            return ([ind + f"self.r0 <<= h_elifret({c1[1]}, {c2[1]}, {p[1]}, {q[1]})"],
                    f"(RAssign (TSig 2) (XIte {c1[2]} (XAdd 2%N {p[2]} (XConst 1%Z)) (XIte {c2[2]} (XAdd 2%N (XAdd 2%N {p[2]} (XConst 1%Z)) (XConst 1%Z)) {q[2]})))")
        c = self.cond()
        p, q = self.u2(1), self.u2(1)
        if "h_ret" not in self.helpers:
            self.helpers.append("h_ret")
        return [ind + f"self.r0 <<= h_ret({c[1]}, {p[1]}, {q[1]})"], f"(RAssign (TSig 2) (XIte {c[2]} {p[2]} {q[2]}))"

    def program(self, max_stmts):
        self.budget = self.rng.randint(2, max_stmts)
        self.helpers = []
        self.assigned_vars = set()
        lines, stms = [], []
        if self.mode == "comb":
            # a combinational process must not keep state in variables: assign them first
            fi = self.uni.first_in
            for l, s in ([f"v0 @= self.x"], f"(RAssign (TVar 0) (XIn {2 + fi}))"), ([f"vb @= self.a"], f"(RAssign (TVar 1) (XIn {fi}))"):
                lines += ["            " + l[0]]
                stms.append(s)
            self.assigned_vars = {"v0", "vb"}
        l, s = self.block("            ", 0)
        while self.budget > 0:
            l2, s2 = self.block("            ", 0)
            l += l2
            s = f"(RSeq {s} {s2})"
        return lines + l, seq(stms + [s])


def seq(stms):
    if not stms:
        return "RSkip"
    res = stms[-1]
    for s in reversed(stms[:-1]):
        res = f"(RSeq {s} {res})"
    return res


HELPERS = {
    "h_ret": ["        def h_ret(c, p, q):", "            if c:", "                return p", "            return q"],
    "h_for": ["        def h_for(u, p, q):", "            for k in range(3):", "                if u == k:",
              "                    return p + k", "            return q"],
    "h_elseret": ["        def h_elseret(c, p, q):", "            if c:", "                pass", "            else:",
                  "                return q", "            return p"],
    "h_elifret": ["        def h_elifret(c1, c2, p, q):", "            if c1:", "                r = p", "            elif c2:",
                  "                r = p + 1", "            else:", "                return q", "            return r + 1"],
    "h_forlt": ["        def h_forlt(u, p, q):", "            for k in range(3):", "                if u < k + 1:",
                "                    return p + k", "            return q"],
    "h_forsame": ["        def h_forsame(u, p, q):", "            for k in range(3):", "                if u == k:",
                  "                    return p", "            return q"],
    "h_forelse": ["        def h_forelse(u, p, q):", "            for k in range(3):", "                if u == k:",
                  "                    return p + k", "            else:", "                return q"],
}


def to_source(mode, lines, helpers, uni=None, ctx_args=None, extra_ports=(), pre_ctx=()):
    uni = uni or DEFAULT_UNI
    src = [
        "import cohdl",
        "from cohdl import Bit, BitVector, Port, Unsigned, Variable, Null, Signal",
        "from cohdl import std",
        "",
        "class E(cohdl.Entity):",
    ]
    if mode == "clocked":
        src.append("    clk = Port.input(Bit)")
    src += list(extra_ports)
    src += [
        "    a = Port.input(Bit)", "    b = Port.input(Bit)", "    x = Port.input(Unsigned[2])", "    i = Port.input(Unsigned[2])",
    ] + uni.port_decls() + ["", "    def architecture(self):"]
    if mode != "conc":
        src += uni.var_decls()
    src += list(pre_ctx)
    for h in helpers:
        src += HELPERS[h]
    if mode == "clocked":
        src += [f"        @std.sequential({ctx_args or 'std.Clock(self.clk)'})", "        def proc():", "            nonlocal v0, vb"]
    elif mode == "comb":
        src += ["        @std.sequential", "        def proc():", "            nonlocal v0, vb"]
    else:
        src += ["        @std.concurrent", "        def proc():"]
    src += lines
    return "\n".join(src) + "\n"


SDECLS = ("[{| s_ty := SBit; s_push := false; s_def := 0%Z |}; {| s_ty := SBit; s_push := true; s_def := 0%Z |}; "
          "{| s_ty := SUns 2%N; s_push := false; s_def := 0%Z |}; {| s_ty := SSlv 4%N; s_push := false; s_def := 0%Z |}]")

# hand-written seeds, one per clause of the statement
CORPUS = [
    ("clocked", ["self.q0 <<= self.a", "self.q1 ^= self.q0"], "(RSeq (RAssign (TSig 0) (XIn 0)) (RAssign (TPush 1) (XSig 0)))"),
    ("clocked", ["self.r0 <<= self.x", "self.r0 <<= self.r0 + 1"], "(RSeq (RAssign (TSig 2) (XIn 2)) (RAssign (TSig 2) (XAdd 2%N (XSig 2) (XConst 1%Z))))"),
    ("clocked", ["v0 @= v0 + 1", "self.r0 <<= v0", "v0 @= v0 + self.x"],
     "(RSeq (RAssign (TVar 0) (XAdd 2%N (XVar 0) (XConst 1%Z))) (RSeq (RAssign (TSig 2) (XVar 0)) (RAssign (TVar 0) (XAdd 2%N (XVar 0) (XIn 2)))))"),
    ("clocked", ["if self.a:", "    self.q1 ^= self.b"], "(RIf (XIn 0) (RAssign (TPush 1) (XIn 1)) RSkip)"),
    ("clocked", ["self.w0 <<= self.x @ self.i", "self.w0[self.i] <<= self.a"],
     "(RSeq (RAssign (TSig 3) (XConcat 2%N (XIn 2) (XIn 3))) (RAssign (TSigBit 3 (XIn 3)) (XIn 0)))"),
    ("clocked", ["self.w0[2:1] <<= self.x", "self.w0[0] <<= self.w0[3]"],
     "(RSeq (RAssign (TSigSlice 3 1%N 2%N) (XIn 2)) (RAssign (TSigBit 3 (XConst 0%Z)) (XBit (XSig 3) (XConst 3%Z))))"),
    ("clocked", ["v0 @= self.i", "self.w0[v0] <<= self.a", "v0 @= v0 + 1", "self.w0[v0] <<= self.b"],
     "(RSeq (RAssign (TVar 0) (XIn 3)) (RSeq (RAssign (TSigBit 3 (XVar 0)) (XIn 0)) (RSeq (RAssign (TVar 0) (XAdd 2%N (XVar 0) (XConst 1%Z))) (RAssign (TSigBit 3 (XVar 0)) (XIn 1)))))"),
    ("clocked", ["if self.a:", "    self.r0 <<= 1", "elif self.b:", "    self.r0 <<= 2", "else:", "    self.r0 <<= 3"],
     "(RIf (XIn 0) (RAssign (TSig 2) (XConst 1%Z)) (RIf (XIn 1) (RAssign (TSig 2) (XConst 2%Z)) (RAssign (TSig 2) (XConst 3%Z))))"),
    ("clocked", ["match self.x:", "    case 1:", "        self.q0 <<= self.a", "    case 3:", "        self.q0 <<= self.b"],
     "(RIf (XEq (XIn 2) (XConst 1%Z)) (RAssign (TSig 0) (XIn 0)) (RIf (XEq (XIn 2) (XConst 3%Z)) (RAssign (TSig 0) (XIn 1)) RSkip))"),
    ("comb", ["v0 @= self.x", "vb @= self.a", "self.r0 <<= v0 + self.i", "if vb:", "    self.q0 <<= self.b", "else:", "    self.q0 <<= False"],
     "(RSeq (RAssign (TVar 0) (XIn 2)) (RSeq (RAssign (TVar 1) (XIn 0)) (RSeq (RAssign (TSig 2) (XAdd 2%N (XVar 0) (XIn 3))) (RIf (XVar 1) (RAssign (TSig 0) (XIn 1)) (RAssign (TSig 0) (XConst 0%Z))))))"),
    ("clocked", ["ref1 = self.w0[v0]", "v0 @= v0 + 1", "self.q0 <<= ref1", "ref1 <<= self.a"],
     "(RSeq (RAssign (TVar 2) (XVar 0)) (RSeq (RAssign (TVar 0) (XAdd 2%N (XVar 0) (XConst 1%Z))) (RSeq (RAssign (TSig 0) (XBit (XSig 3) (XVar 2))) (RAssign (TSigBit 3 (XVar 2)) (XIn 0)))))"),
    ("clocked/nrpush", ["if self.a:", "    self.q1 ^= self.b", "self.q0 <<= self.q1"],
     "(RSeq (RIf (XIn 0) (RAssign (TPush 1) (XIn 1)) RSkip) (RAssign (TSig 0) (XSig 1)))"),
    ("clocked+h_for", ["self.r0 <<= h_for(self.x, self.i, self.r0)"],
     "(RAssign (TSig 2) (XIte (XEq (XIn 2) (XConst 0%Z)) (XAdd 2%N (XIn 3) (XConst 0%Z)) (XIte (XEq (XIn 2) (XConst 1%Z)) (XAdd 2%N (XIn 3) (XConst 1%Z)) (XIte (XEq (XIn 2) (XConst 2%Z)) (XAdd 2%N (XIn 3) (XConst 2%Z)) (XSig 2)))))"),
    # overlapping conditions in for-break / for-return chains: the FIRST matching iteration wins
    ("clocked+h_forlt", ["self.r0 <<= h_forlt(self.x, self.i, self.r0)"],
     "(RAssign (TSig 2) (XIte (XLt (XIn 2) (XConst 1%Z)) (XAdd 2%N (XIn 3) (XConst 0%Z)) (XIte (XLt (XIn 2) (XConst 2%Z)) (XAdd 2%N (XIn 3) (XConst 1%Z)) (XIte (XLt (XIn 2) (XConst 3%Z)) (XAdd 2%N (XIn 3) (XConst 2%Z)) (XSig 2)))))"),
    ("clocked", ["for k in range(3):", "    if self.x < k + 1:", "        self.r0 <<= self.i + k", "        break", "else:", "    self.r0 <<= 3"],
     "(RIf (XLt (XIn 2) (XConst 1%Z)) (RAssign (TSig 2) (XAdd 2%N (XIn 3) (XConst 0%Z))) (RIf (XLt (XIn 2) (XConst 2%Z)) (RAssign (TSig 2) (XAdd 2%N (XIn 3) (XConst 1%Z))) (RIf (XLt (XIn 2) (XConst 3%Z)) (RAssign (TSig 2) (XAdd 2%N (XIn 3) (XConst 2%Z))) (RAssign (TSig 2) (XConst 3%Z)))))"),
    ("clocked+h_elseret", ["self.r0 <<= h_elseret(self.a, self.x, self.i)"],
     "(RAssign (TSig 2) (XIte (XIn 0) (XIn 2) (XIn 3)))"),
    ("clocked+h_elifret", ["self.r0 <<= h_elifret(self.a, self.b, self.x, self.i)"],
     "(RAssign (TSig 2) (XIte (XIn 0) (XAdd 2%N (XIn 2) (XConst 1%Z)) (XIte (XIn 1) (XAdd 2%N (XAdd 2%N (XIn 2) (XConst 1%Z)) (XConst 1%Z)) (XIn 3))))"),
    ("clocked+h_forsame", ["self.r0 <<= h_forsame(self.x, self.i, self.r0)"],
     "(RAssign (TSig 2) (XIte (XEq (XIn 2) (XConst 0%Z)) (XIn 3) (XIte (XEq (XIn 2) (XConst 1%Z)) (XIn 3) (XIte (XEq (XIn 2) (XConst 2%Z)) (XIn 3) (XSig 2)))))"),
    ("clocked+h_forelse", ["self.r0 <<= h_forelse(self.x, self.i, self.r0)"],
     "(RAssign (TSig 2) (XIte (XEq (XIn 2) (XConst 0%Z)) (XAdd 2%N (XIn 3) (XConst 0%Z)) (XIte (XEq (XIn 2) (XConst 1%Z)) (XAdd 2%N (XIn 3) (XConst 1%Z)) (XIte (XEq (XIn 2) (XConst 2%Z)) (XAdd 2%N (XIn 3) (XConst 2%Z)) (XSig 2)))))"),
    # a value taken from a variable is a SNAPSHOT: a later `@=` of the variable must not change it (bool() of a bool
    # variable is a cast the compiler removes; removing it must not turn the value into an alias of the variable)
    ("clocked", ["was = bool(vb)", "vb @= self.a", "self.q0 <<= was"],
     "(RSeq (RAssign (TVar 2) (XVar 1)) (RSeq (RAssign (TVar 1) (XIn 0)) (RAssign (TSig 0) (XVar 2))))"),
    ("clocked", ["was = bool(vb)", "if self.b:", "    vb @= self.a", "self.q0 <<= was", "self.q1 ^= vb"],
     "(RSeq (RAssign (TVar 2) (XVar 1)) (RSeq (RIf (XIn 1) (RAssign (TVar 1) (XIn 0)) RSkip) (RSeq (RAssign (TSig 0) (XVar 2)) (RAssign (TPush 1) (XVar 1)))))"),
    ("clocked", ["flag = Variable[bool](self.a)", "was = bool(flag)", "flag @= self.b", "self.q0 <<= was", "self.q1 ^= flag"],
     "(RSeq (RAssign (TVar 2) (XIn 0)) (RSeq (RAssign (TVar 0) (XVar 2)) (RSeq (RAssign (TVar 2) (XIn 1)) (RSeq (RAssign (TSig 0) (XVar 0)) (RAssign (TPush 1) (XVar 2))))))"),
    # compile-time constants inside run-time conditions (a disabled feature flag): and/or fold the constant operand
    ("clocked", ["if False and self.a:", "    self.q0 <<= self.b", "else:", "    self.q0 <<= True", "if self.a and True:", "    self.q1 ^= self.b"],
     "(RSeq (RAssign (TSig 0) (XConst 1%Z)) (RIf (XIn 0) (RAssign (TPush 1) (XIn 1)) RSkip))"),
    ("clocked", ["if self.b and False:", "    self.r0 <<= 1", "elif True or self.a:", "    self.r0 <<= 2", "else:", "    self.r0 <<= 3",
                 "if self.a or False:", "    self.q0 <<= self.b"],
     "(RSeq (RAssign (TSig 2) (XConst 2%Z)) (RIf (XIn 0) (RAssign (TSig 0) (XIn 1)) RSkip))"),
    ("clocked", ["t = v0 + 1", "v0 @= self.x", "self.r0 <<= t"],
     "(RSeq (RAssign (TVar 2) (XAdd 2%N (XVar 0) (XConst 1%Z))) (RSeq (RAssign (TVar 0) (XIn 2)) (RAssign (TSig 2) (XVar 2))))"),
    # literals assigned to ONE target in several branches: each branch keeps its own literal (push, variable, next)
    ("clocked", ["if self.a:", "    self.q1 ^= True", "else:", "    self.q1 ^= False"],
     "(RIf (XIn 0) (RAssign (TPush 1) (XConst 1%Z)) (RAssign (TPush 1) (XConst 0%Z)))"),
    ("clocked", ["if self.a:", "    self.q1 ^= False", "elif self.b:", "    self.q1 ^= True", "self.q0 <<= self.q1"],
     "(RSeq (RIf (XIn 0) (RAssign (TPush 1) (XConst 0%Z)) (RIf (XIn 1) (RAssign (TPush 1) (XConst 1%Z)) RSkip)) (RAssign (TSig 0) (XSig 1)))"),
    ("clocked", ["if self.a:", "    v0 @= 1", "else:", "    v0 @= 2", "self.r0 <<= v0"],
     "(RSeq (RIf (XIn 0) (RAssign (TVar 0) (XConst 1%Z)) (RAssign (TVar 0) (XConst 2%Z))) (RAssign (TSig 2) (XVar 0)))"),
    ("conc", ["self.q0 <<= self.a & self.b", "self.r0 <<= self.x + self.i", "self.w0 <<= self.i @ self.x"],
     "(RSeq (RAssign (TSig 0) (XAnd (XIn 0) (XIn 1))) (RSeq (RAssign (TSig 2) (XAdd 2%N (XIn 2) (XIn 3))) (RAssign (TSig 3) (XConcat 2%N (XIn 3) (XIn 2)))))"),
]


def run(ck: common.Check, replay=None):
    ck.check_props("C03_Properties.v")
    items = []
    if replay is not None:
        items.append(("replay", replay["meta"]["mode"], replay["meta"]["source"], replay["meta"]["ref"], DEFAULT_UNI))
    else:
        for k, (mode, body, ref) in enumerate(CORPUS):
            lines = ["            " + l for l in body]
            mode, _, hs = mode.partition("+")
            mode, _, nr = mode.partition("/")
            items.append((f"corpus{k:02d}", mode, to_source(mode, lines, [hs] if hs else [], NR_UNI if nr else None), ref,
                          NR_UNI if nr else DEFAULT_UNI))
        n = 70 if ck.tier == "quick" else 400
        for k in range(n):
            mode = ck.rng.choice(["clocked"] * 6 + ["comb"] * 2 + ["conc"] * 2)
            uni = NR_UNI if ck.rng.random() < 0.3 else DEFAULT_UNI
            g = Gen(ck.rng, mode, uni)
            lines, ref = g.program(8 if ck.tier == "quick" else 12)
            items.append((f"rand{k:04d}", mode, to_source(mode, lines, g.helpers, uni), ref, uni))
    designs = [{"name": it[0], "source": it[2], "entity": "E"} for it in items]
    res = X.compile_designs(ck, designs)
    cases = []
    for (name, mode, src, ref, uni), r in zip(items, res):
        if not r["ok"]:
            ck.hist("rejected", r["error"][:70])
            ck.evaluations += 1
            continue
        init = uni.init_state()
        if mode != "clocked":
            # an unclocked context runs once during VHDL initialisation (all inputs at their power-up value zero)
            init = ("(fst (seq_step sdecls body %s [VL false; VL false; VV KUns 2%%N 0%%Z; VV KUns 2%%N 0%%Z]))" % init)
        c = X.Case(name, r["vhdl"], step=f"seq_step sdecls body", init=init,
                   defs=f"Definition sdecls := {uni.sdecls()}.\nDefinition body : stm := {ref}.",
                   imports="From Cohdl Require Import Models.SeqRef.", clk="clk" if mode == "clocked" else None,
                   alphabet_overrides={"i": "[VV KUns 2%N 0%Z; VV KUns 2%N 1%Z; VV KUns 2%N 3%Z]"} if ck.tier == "quick" else None,
                   meta={"mode": mode, "source": src, "ref": ref})
        c.uni = uni          # exported for c03_lower (declarations of the objects of this case)
        cases.append(c)
        ck.hist("modes", mode)
    X.run_cases(ck, cases, "compiled context and the documented assignment semantics differ on an input sequence",
                key_of=lambda c: {"body": c.meta["ref"]}, count_first=5)
    ck.cov["rule"] = ("bodies = fixed corpus (one per clause) + seeded random bodies; each accepted body is a theorem over all "
                      "input sequences; distinct by case name; rejected bodies are counted, not obligations")
    ck.trusted += ["fail-closed VHDL reader", "Vhdl.Sem", "SeqRef (Models/SeqRef.v) as the rendering of the documented semantics",
                   "generator -> source printer (harness/c03.py)"]
    ck.assumptions += ["bodies quantifier sampled; input sequences quantifier proved per body",
                       "an unclocked context is evaluated once at power-up with all inputs zero (VHDL initialisation), in design and reference alike",
                       "combinational contexts do not read their own outputs (generator restriction)"]
    # all-programs part: emitted design == Models/SeqLower.lower(body) for every case inside its grammar
    import c03_lower
    import sys
    c03_lower.run_extra(ck, cases, sys.modules[__name__])
