"""C05 - type conversions on assignment preserve the value or are rejected.

ordered pairs (source type, target type) x assignment forms x qualifier kinds -> one tiny design per pair, compiled
with the REAL compiler:
 (1) accept / reject vs Conv.assign_ok (model tie, compared inside Coq) and vs Conv.doc_ok (the SPEC of the statement);
 (2) for accepted pairs of width <= 3: packed designs (one per form and source, every accepted target an output port)
     with a kernel-checked theorem "for all source values the outputs are conv_val of the input" (Models/Conv.v);
 (3) the cast text emitted for the plain `<<=` form, parsed and compared with Conv.cast_emit inside Coq."""
from __future__ import annotations
import json
import time

import common
import explore as X
import vhdl_reader as R

# ----------------------------------------------------------------------------
# types
# ----------------------------------------------------------------------------
WIDTHS = [1, 2, 3, 4, 8]
VEC = ("BV", "U", "S")
PYVEC = {"BV": "BitVector", "U": "Unsigned", "S": "Signed"}


def is_vec(t):
    return t[0] in VEC


def width(t):
    return t[1] if is_vec(t) else None


def pyty(t):
    k = t[0]
    if k == "Bit":
        return "Bit"
    if k == "Bool":
        return "bool"
    if k == "Int":
        return "int"
    return f"{PYVEC[k]}[{t[1]}]"


def tname(t):
    k = t[0]
    if is_vec(t):
        return f"{k}{t[1]}"
    if k == "IntLit":
        return f"lit{t[1]}".replace("-", "m")
    if k == "StrLit":
        return f"str{t[1]}"
    return k


def coq_ty(t):
    k = t[0]
    if k == "Bit":
        return "CBit"
    if k == "Bool":
        return "CBool"
    if k == "Int":
        return "CInteger"
    if k == "Null":
        return "CNull"
    if k == "Full":
        return "CFull"
    if k == "IntLit":
        return f"(CIntLit ({t[1]})%Z)"
    if k == "StrLit":
        return f"(CStrLit {len(t[1])}%N {int(t[1], 2) if t[1] else 0}%Z)"
    return "(C%s %d%%N)" % ({"BV": "BV", "U": "U", "S": "S"}[k], t[1])


def is_runtime(t):
    return t[0] in ("Bit", "Bool", "Int") or is_vec(t)


def zero_lit(t):
    """python text of a constant of type t"""
    k = t[0]
    if k == "Bit":
        return "Bit(False)"
    if k == "Bool":
        return "False"
    if k == "Int":
        return "0"
    return f"{pyty(t)}(Null)"


def default_of(t):
    k = t[0]
    if k in ("Bit", "Bool"):
        return "False"
    if k == "Int":
        return "0"
    return "Null"


# width class of a pair (one finding per class)
def rel_class(src, tgt):
    if is_vec(src) and is_vec(tgt):
        return "narrower" if tgt[1] < src[1] else ("equal" if tgt[1] == src[1] else "wider")
    if src[0] == "IntLit":
        z = src[1]
        if tgt[0] in ("Bit", "Bool"):
            return "fits" if z in (0, 1) else "out_of_range"
        if tgt[0] == "Int":
            return "fits"
        if tgt[0] == "U":
            return "fits" if 0 <= z < 2 ** tgt[1] else "out_of_range"
        if tgt[0] == "S":
            return "fits" if -2 ** (tgt[1] - 1) <= z < 2 ** (tgt[1] - 1) else "out_of_range"
        return "-"
    if src[0] == "StrLit" and is_vec(tgt):
        return "equal" if len(src[1]) == tgt[1] else "mismatch"
    if src[0] == "StrLit":
        return "len%d" % min(len(src[1]), 2)
    if is_vec(src) and tgt[0] in ("Bit", "Bool"):
        return "w1" if src[1] == 1 else "w>1"
    if is_vec(tgt) and src[0] in ("Bit", "Bool"):
        return "w1" if tgt[1] == 1 else "w>1"
    return "-"


def kind_name(t):
    return t[0]


# ----------------------------------------------------------------------------
# the SPEC in python (used for the direct check; the Coq doc_ok is compared with it on every case)
# ----------------------------------------------------------------------------
def doc_ok(src, tgt):
    s, t = src[0], tgt[0]
    if s in ("Null", "Full"):
        return True
    if s == "IntLit":
        z = src[1]
        if t in ("Bit", "Bool"):
            return z in (0, 1)
        if t == "Int":
            return -2 ** 31 <= z < 2 ** 31
        if t == "U":
            return 0 <= z < 2 ** tgt[1]
        if t == "S":
            return -2 ** (tgt[1] - 1) <= z < 2 ** (tgt[1] - 1)
        return False
    if s == "StrLit":
        if t in ("BV", "U", "S"):
            return len(src[1]) == tgt[1]
        if t in ("Bit", "Bool"):
            return len(src[1]) == 1
        return False
    if s in ("Bit", "Bool"):
        return t in ("Bit", "Bool")
    if s == "Int":
        return t == "Int"
    # vector sources
    n = src[1]
    if t == "Int":
        return (s == "U" and n <= 31) or (s == "S" and n <= 32)
    if t not in VEC:
        return False
    m = tgt[1]
    if s == "U":
        return (t == "U" and n <= m) or (t == "S" and n < m) or (t == "BV" and n == m)
    if s == "S":
        return (t == "S" and n <= m) or (t == "BV" and n == m)
    return n == m    # BV -> BV / U / S of equal width


# ----------------------------------------------------------------------------
# forms
# ----------------------------------------------------------------------------
# name: (context, qualifier kinds of the target, Coq constructor)
FORMS = {
    "ilshift":    ("conc", ("Port", "Signal"), "FNextOp"),       # t <<= s
    "next":       ("clk", ("Port", "Signal"), "FNextAttr"),      # t.next = s
    "imatmul":    ("comb", ("Variable",), "FValueOp"),           # v @= s
    "value":      ("comb", ("Variable",), "FValueAttr"),         # v.value = s
    "ixor":       ("clk", ("Port", "Signal"), "FPushOp"),        # t ^= s
    "push":       ("clk", ("Port", "Signal"), "FPushAttr"),      # t.push = s
    "slice":      ("conc", ("Port",), "FSlice"),                 # t[hi:lo] <<= s  (typed through a view)
    "view":       ("conc", ("Port",), "FView"),                  # t.signed / t.unsigned / t.bitvector <<= s  (carrier of kind root)
    "elem":       ("conc", ("Port",), "FElem"),                  # t[i] <<= s
    "decl_sig":   ("conc", ("Signal",), "FDeclSig"),             # Signal[T](s) inside a context
    "decl_var":   ("comb", ("Variable",), "FDeclVar"),           # Variable[T](s) inside a context
    "decl_static": ("conc", ("Signal", "Port"), "FDeclStatic"),  # Signal[T](literal) / Port.output(T, default=literal)
    "port_in":    ("arch", ("Port",), "FPortIn"),                # Sub(i=s): formal input of type T
    "port_out":   ("arch", ("Port",), "FPortOut"),               # Sub(o=t): formal output of type S, actual of type T
    "ifexp_a":    ("conc", ("Port",), "FIfA"),                   # t <<= s if c else t0
    "ifexp_b":    ("conc", ("Port",), "FIfB"),                   # t <<= t0 if c else s
    "ret_a":      ("comb", ("Port",), "FRetA"),                  # t <<= f(c, s, t0)   (two returns)
    "ret_b":      ("comb", ("Port",), "FRetB"),
    "sel_a":      ("conc", ("Port",), "FIfA"),                   # t <<= select_with(c, {True: s}, default=t0)
    "sel_b":      ("conc", ("Port",), "FIfB"),                   # t <<= select_with(c, {True: t0}, default=s)
}
MERGE_A = ("ifexp_a", "ret_a", "sel_a")
MERGE_B = ("ifexp_b", "ret_b", "sel_b")
# source shapes: the source as a plain port, or as an expression temporary of the same type and value
SHAPES = ("plain", "or", "add0", "fn", "resize")
ROOTS = ("BV", "U", "S")


class Item:
    """one conversion statement inside a design"""

    def __init__(self, k, form, qual, src, tgt, src_expr, root=None, shape="plain", other=None):
        self.k, self.form, self.qual, self.src, self.tgt, self.src_expr, self.root = k, form, qual, src, tgt, src_expr, root
        self.shape, self.other = shape, other

    def out_type(self):
        if self.form == "slice":
            return (self.root, self.tgt[1] + 2)
        if self.form == "view":
            return (self.root, self.tgt[1])
        if self.form == "elem":
            return (self.root, 3)
        return self.tgt


def emit_item(it: Item, D):
    """append the declarations / statements of one item to the design sections D"""
    k, form, qual, src, tgt, S = it.k, it.form, it.qual, it.src, it.tgt, it.src_expr
    T = pyty(tgt)
    q = f"self.q{k}"
    ctx = FORMS[form][0]
    body = D[ctx] if ctx != "arch" else None
    dflt = f", default={default_of(it.out_type())}" if form in ("ixor", "push") else ""

    def outport(extra=""):
        D["ports"].append(f"    q{k} = Port.output({pyty(it.out_type())}{extra or dflt})")

    if form in ("ilshift", "next", "ixor", "push"):
        outport()
        tname_ = q
        if qual == "Signal":
            sd = f"Signal[{T}]({default_of(tgt)}, name='s{k}')" if form in ("ixor", "push") else f"Signal[{T}](name='s{k}')"
            D["pre"].append(f"        s{k} = {sd}")
            D["conc"].append(f"            {q} <<= s{k}")
            D["nl_" + ctx].append(f"s{k}")
            tname_ = f"s{k}"
            if form in ("ixor", "push"):
                D["ports"][-1] = f"    q{k} = Port.output({T})"
        if form == "ilshift":
            body.append(f"            {tname_} <<= {S}")
        elif form == "next":
            body.append(f"            {tname_}.next = {S}")
        elif form == "ixor":
            body.append(f"            {tname_} ^= {S}")
        else:
            body.append(f"            {tname_}.push = {S}")
    elif form in ("imatmul", "value"):
        outport()
        D["pre"].append(f"        v{k} = Variable[{T}](name='v{k}')")
        D["nonlocal"].append(f"v{k}")
        body.append(f"            v{k} @= {S}" if form == "imatmul" else f"            v{k}.value = {S}")
        body.append(f"            {q} <<= v{k}")
    elif form == "slice":
        outport()
        n = tgt[1]
        # a slice of any vector is a BitVector; typed targets are reached through a view of the slice
        view = {"BV": "", "U": ".unsigned", "S": ".signed"}[tgt[0]]
        body.append(f"            {q}[{n}:1]{view} <<= {S}")
        body.append(f"            {q}[0] <<= Null")
        body.append(f"            {q}[{n + 1}] <<= Null")
    elif form == "view":
        outport()
        view = {"BV": ".bitvector", "U": ".unsigned", "S": ".signed"}[tgt[0]]
        body.append(f"            {q}{view} <<= {S}")
    elif form == "elem":
        outport()
        body.append(f"            {q}[1] <<= {S}")
        body.append(f"            {q}[0] <<= Null")
        body.append(f"            {q}[2] <<= Null")
    elif form == "decl_sig":
        outport()
        body.append(f"            d{k} = Signal[{T}]({S})")
        body.append(f"            {q} <<= d{k}")
    elif form == "decl_var":
        outport()
        body.append(f"            d{k} = Variable[{T}]({S})")
        body.append(f"            {q} <<= d{k}")
    elif form == "decl_static":
        if qual == "Port":
            outport(f", default={S}")
        else:
            outport()
            D["pre"].append(f"        s{k} = Signal[{T}]({S}, name='s{k}')")
            D["conc"].append(f"            {q} <<= s{k}")
    elif form == "port_in":
        outport()
        D["subs"] += [f"class Sub{k}(cohdl.Entity):", f"    i = Port.input({T})", f"    o = Port.output({T})",
                      "    def architecture(self):", "        @std.concurrent", "        def logic():",
                      "            self.o <<= self.i", ""]
        D["pre"].append(f"        Sub{k}(i={S}, o={q})")
    elif form == "port_out":
        outport()
        ST = pyty(src)
        D["subs"] += [f"class Sub{k}(cohdl.Entity):", f"    i = Port.input({ST})", f"    o = Port.output({ST})",
                      "    def architecture(self):", "        @std.concurrent", "        def logic():",
                      "            self.o <<= self.i", ""]
        D["pre"].append(f"        Sub{k}(i={S}, o={q})")
    elif form in ("ifexp_a", "ifexp_b"):
        outport()
        t0 = D["t0"](tgt, it.other)
        e = f"({S} if self.c else {t0})" if form == "ifexp_a" else f"({t0} if self.c else {S})"
        body.append(f"            {q} <<= {e}")
        D["need_c"] = True
    elif form in ("sel_a", "sel_b"):
        outport()
        t0 = D["t0"](tgt, it.other)
        e = (f"select_with(self.c, {{True: {S}}}, default={t0})" if form == "sel_a"
             else f"select_with(self.c, {{True: {t0}}}, default={S})")
        body.append(f"            {q} <<= {e}")
        D["need_c"] = True
    elif form in ("ret_a", "ret_b"):
        outport()
        t0 = D["t0"](tgt, it.other)
        D["need_f"] = True
        D["need_c"] = True
        args = f"self.c, {S}, {t0}" if form == "ret_a" else f"self.c, {t0}, {S}"
        body.append(f"            {q} <<= pick({args})")
    else:
        raise AssertionError(form)


def build_design(items, inputs, t0_mode="port"):
    """items: [Item]; inputs: [(name, type)] input ports.  t0_mode 'port': the other branch of a merge is an input port
    `t<k>` of the target type (single pair designs); 'z': it is a view of the shared 3 bit input z (packed designs)."""
    D = {"ports": [], "pre": [], "conc": [], "comb": [], "clk": [], "subs": [], "nonlocal": [], "need_c": False,
         "need_f": False, "extra_in": [], "nl_conc": [], "nl_clk": [], "nl_comb": []}

    def t0(tgt, other=None):
        if other is not None:
            if other[0] in ("Null", "Full"):
                return other[0]
            tgt = other          # a run-time value of its own (narrower) type
        if t0_mode == "port":
            nm = f"t{len(D['extra_in'])}"
            D["extra_in"].append((nm, tgt))
            return f"self.{nm}"
        k = tgt[0]
        if k == "Bool":
            D["need_zb"] = True
            return "self.zb"
        if k == "Int":
            D["need_zi"] = True
            return "self.zi"
        D["need_z"] = True
        if k == "Bit":
            return "self.z[0]"
        base = f"self.z[{tgt[1] - 1}:0]"
        return base + {"BV": "", "U": ".unsigned", "S": ".signed"}[k]

    D["t0"] = t0
    for it in items:
        emit_item(it, D)
    src = ["import cohdl", "from cohdl import Bit, BitVector, Port, Unsigned, Signed, Variable, Signal, Null, Full, select_with",
           "from cohdl import std", "", "def tmp_of(x):", "    return x | x", ""]
    if D["need_f"]:
        src += ["def pick(c, x, y):", "    if c:", "        return x", "    return y", ""]
    src += D["subs"]
    src += ["class E(cohdl.Entity):"]
    ins = list(inputs)
    if D["clk"]:
        src.append("    clk = Port.input(Bit)")
    if D["need_c"]:
        ins.append(("c", ("Bit",)))
    if D.get("need_z"):
        ins.append(("z", ("BV", 3)))
    if D.get("need_zb"):
        ins.append(("zb", ("Bool",)))
    if D.get("need_zi"):
        ins.append(("zi", ("Int",)))
    ins += D["extra_in"]
    for n, t in ins:
        src.append(f"    {n} = Port.input({pyty(t)})")
    src += D["ports"]
    src += ["", "    def architecture(self):"] + D["pre"]
    if D["conc"]:
        src += ["        @std.concurrent", "        def logic():"]
        if D["nl_conc"]:
            src.append("            nonlocal " + ", ".join(D["nl_conc"]))
        src += D["conc"]
    if D["comb"]:
        src += ["        @std.sequential", "        def comb():"]
        if D["nonlocal"]:
            src.append("            nonlocal " + ", ".join(D["nonlocal"]))
        src += D["comb"]
    if D["clk"]:
        src += ["        @std.sequential(std.Clock(self.clk))", "        def proc():"]
        if D["nl_clk"]:
            src.append("            nonlocal " + ", ".join(D["nl_clk"]))
        src += D["clk"]
    if not (D["pre"] or D["conc"] or D["comb"] or D["clk"]):
        src.append("        pass")
    return "\n".join(src) + "\n", ins, bool(D["clk"])


# ----------------------------------------------------------------------------
# the grid
# ----------------------------------------------------------------------------
def sources(widths):
    out = [("Bit",), ("Bool",), ("Int",), ("Null",), ("Full",)]
    for k in VEC:
        out += [(k, n) for n in widths]
    return out


def literal_sources(tgt):
    """integer / string literals chosen relative to the target (in range, boundary, too large, negative)"""
    lits = {0, 1, -1, 2}
    if is_vec(tgt):
        n = tgt[1]
        lits |= {2 ** n - 1, 2 ** n, 2 ** (n - 1) - 1, 2 ** (n - 1), -2 ** (n - 1), -2 ** (n - 1) - 1}
        strs = {"01" * n, ("10" * n)[:n], "1" * (n + 1), "0" * max(n - 1, 0)}
        strs = {s[:n] if len(s) == 2 * n else s for s in strs}
    else:
        strs = {"1", "0", "10", ""}
    return [("IntLit", z) for z in sorted(lits)] + [("StrLit", s) for s in sorted(strs)]


def targets(widths):
    out = [("Bit",), ("Bool",), ("Int",)]
    for k in VEC:
        out += [(k, n) for n in widths]
    return out


def src_expr_of(src, shape="plain"):
    k = src[0]
    if is_runtime(src):
        return {"plain": "self.a", "or": "(self.a | self.a)", "add0": "(self.a + 0)", "fn": "tmp_of(self.a)",
                "resize": "self.a.resize(%d)" % (src[1] if is_vec(src) else 0)}[shape]
    if k == "Null":
        return "Null"
    if k == "Full":
        return "Full"
    if k == "IntLit":
        return str(src[1])
    return '"%s"' % src[1]


def input_type(src, shape="plain"):
    """type of the input port `a` the source expression is built from"""
    return (src[0], src[1] - 1) if shape == "resize" else src


def shapes_for(src):
    if not is_vec(src):
        return ()
    out = ["or", "fn"]
    if src[0] in ("U", "S"):
        out.append("add0")
        if src[1] >= 2:
            out.append("resize")
    return tuple(out)


def others_for(tgt):
    out = [("Null",), ("Full",)]
    if is_vec(tgt) and tgt[1] >= 2:
        out += [("U", tgt[1] - 1), ("S", tgt[1] - 1)]
    return out


def mk(form, qual, src, tgt, root=None, shape="plain", other=None):
    return {"form": form, "qual": qual, "src": src, "tgt": tgt, "root": root, "shape": shape, "other": other}


def grid(tier, rng):
    """-> list of cells (form, qual, src, tgt, root) with a plain source and a merge partner of the target type"""
    widths = WIDTHS
    cells = []
    for tgt in targets(widths):
        srcs = sources(widths) + literal_sources(tgt)
        for src in srcs:
            for form, (ctx, quals, _) in FORMS.items():
                rt = is_runtime(src)
                if form == "decl_static" and rt:
                    continue
                if form == "port_out" and not rt:
                    continue
                if form in ("slice", "view") and not is_vec(tgt):
                    continue
                if form == "elem" and tgt[0] != "Bit":
                    continue
                roots = ROOTS if form in ("slice", "elem", "view") else (None,)
                for qual in quals:
                    for root in roots:
                        cells.append(mk(form, qual, src, tgt, root))
    if tier != "quick":
        # the integer range: to_integer of a 32 bit unsigned / 33 bit signed leaves the VHDL integer
        for src in (("U", 31), ("U", 32), ("S", 32), ("S", 33)):
            for form, (ctx, quals, _) in FORMS.items():
                if form in ("decl_static", "slice", "elem", "view"):
                    continue
                cells.append(mk(form, quals[0], src, ("Int",)))
    return cells


SHAPE_FORMS = (("decl_sig", "Signal"), ("decl_var", "Variable"), ("ilshift", "Port"))


def ext_grid():
    """expression temporaries as sources; merges whose other option is Null / Full / a narrower run-time value"""
    cells = []
    vec_src = [(k, n) for k in VEC for n in WIDTHS]
    for form, qual in SHAPE_FORMS:
        for src in vec_src:
            for shape in shapes_for(src):
                for tgt in targets(WIDTHS):
                    cells.append(mk(form, qual, src, tgt, None, shape))
    for form in MERGE_A + MERGE_B:
        for tgt in targets(WIDTHS):
            if not is_vec(tgt):
                continue
            for src in [("Bit",), ("Bool",), ("Int",)] + vec_src:
                for other in others_for(tgt):
                    cells.append(mk(form, "Port", src, tgt, None, "plain", other))
    return cells


def core_cells():
    """always in the quick tier: the shapes in which a wrong extension / reinterpretation shows on small widths"""
    cells = []
    for form in ("slice", "view"):
        for root in ROOTS:
            for src, tgt in ((("S", 2), ("S", 3)), (("U", 2), ("U", 3)), (("U", 2), ("S", 3)), (("S", 3), ("S", 3)),
                             (("U", 3), ("BV", 3)), (("BV", 3), ("S", 3))):
                cells.append(mk(form, "Port", src, tgt, root))
    for form, qual in SHAPE_FORMS[:2]:
        for src, tgt in ((("U", 3), ("S", 3)), (("S", 3), ("U", 3)), (("U", 2), ("S", 3)), (("S", 2), ("S", 3)), (("U", 3), ("U", 3))):
            for shape in shapes_for(src):
                cells.append(mk(form, qual, src, tgt, None, shape))
    for form in MERGE_A + MERGE_B:
        for src, tgt in ((("U", 2), ("U", 3)), (("U", 2), ("S", 3)), (("S", 2), ("S", 3)), (("U", 3), ("U", 3))):
            for other in others_for(tgt):
                cells.append(mk(form, "Port", src, tgt, None, "plain", other))
    return cells


def cell_key(c):
    return (c["form"], c["qual"], c["src"], c["tgt"], c["root"], c.get("shape", "plain"), c.get("other"))


def cell_name(i, c):
    extra = ("_" + c["shape"] if c.get("shape", "plain") != "plain" else "") + ("_o" + tname(c["other"]) if c.get("other") else "")
    return "p%05d_%s_%s_%s_%s%s%s" % (i, c["form"], c["qual"][0], tname(c["src"]), tname(c["tgt"]), c["root"] or "", extra)


def item_of(k, c):
    shape = c.get("shape", "plain")
    return Item(k, c["form"], c["qual"], c["src"], c["tgt"], src_expr_of(c["src"], shape), c["root"], shape, c.get("other"))


def cell_design(i, c):
    src = c["src"]
    inputs = [("a", input_type(src, c.get("shape", "plain")))] if is_runtime(src) else []
    text, ins, clocked = build_design([item_of(0, c)], inputs)
    return {"name": cell_name(i, c), "source": text, "entity": "E"}


def merge_doc(a, o, tgt):
    """the statement for a merge of two options of different types (Conv.m3_doc)"""
    def via(r):
        return is_runtime(r) and doc_ok(a, r) and doc_ok(o, r) and doc_ok(r, tgt)
    return (doc_ok(a, tgt) and doc_ok(o, tgt)) or via(a) or via(o)


def cell_doc(c):
    if c.get("other"):
        return merge_doc(c["src"], c["other"], c["tgt"])
    return doc_ok(c["src"], c["tgt"])


# ----------------------------------------------------------------------------
# (1) model tie
# ----------------------------------------------------------------------------
KCOQ = {"BV": "KB", "U": "KU", "S": "KS"}
PRE = common.COQ_HEADER + "From Cohdl Require Import Models.Conv.\nLocal Open Scope Z_scope.\n"


def coq_form(c):
    f = FORMS[c["form"]][2]
    if c["form"] in ("slice", "elem", "view"):
        return f"({f} {KCOQ[c['root']]})"
    if c.get("other"):
        return "(%s %s)" % ("FMerge3A" if c["form"] in MERGE_A else "FMerge3B", coq_ty(c["other"]))
    return f


def tie_terms(cells, accepted):
    return ["(%s, %s, %s, %s)" % (coq_form(c), coq_ty(c["src"]), coq_ty(c["tgt"]), "true" if a else "false")
            for c, a in zip(cells, accepted)]


TIE_TYPE = "form * cty * cty * bool"
import os as _os
# default: the tree with fix 77e5120 (declarations checked like assignments); C05_MODEL=predeclfix: the model of the tree before it
ASSIGN_OK = "assign_ok" if _os.environ.get("C05_MODEL") == "predeclfix" else "assign_ok_declfix"
TIE_PRED = "fun c => match c with (f, s, t, a) => Bool.eqb (%s f s t) a end" % ASSIGN_OK
DOC_PRED = "fun c => match c with (f, s, t, a) => Bool.eqb (doc_form f s t) a end"


# ----------------------------------------------------------------------------
# cell selection per tier
# ----------------------------------------------------------------------------
CORPUS = [
    # one cell per class of the statement and per known departure
    ("ilshift", "Port", ("U", 2), ("U", 3), None), ("ilshift", "Port", ("S", 2), ("S", 3), None),
    ("ilshift", "Port", ("U", 2), ("S", 3), None), ("ilshift", "Port", ("BV", 3), ("S", 3), None),
    ("ilshift", "Port", ("U", 3), ("BV", 3), None), ("ilshift", "Port", ("Bool",), ("Bit",), None),
    ("ilshift", "Port", ("Bit",), ("Bool",), None), ("ilshift", "Port", ("Full",), ("S", 3), None),
    ("ilshift", "Port", ("IntLit", -4), ("S", 3), None), ("ilshift", "Port", ("IntLit", 8), ("U", 3), None),
    ("ilshift", "Port", ("U", 3), ("U", 2), None), ("ilshift", "Port", ("S", 3), ("U", 3), None),
    ("ilshift", "Port", ("U", 3), ("S", 3), None), ("ilshift", "Port", ("BV", 2), ("U", 3), None),
    ("ilshift", "Port", ("Bit",), ("U", 1), None), ("ilshift", "Port", ("U", 1), ("Bit",), None),
    ("ilshift", "Port", ("Int",), ("U", 3), None), ("ilshift", "Port", ("Int",), ("S", 3), None),
    ("ilshift", "Port", ("U", 3), ("Bool",), None), ("ilshift", "Port", ("U", 3), ("Int",), None),
    ("decl_sig", "Signal", ("S", 3), ("U", 3), None), ("decl_var", "Variable", ("U", 3), ("S", 3), None),
    ("decl_sig", "Signal", ("U", 3), ("U", 2), None), ("decl_static", "Signal", ("IntLit", 2), ("Bool",), None),
    ("port_in", "Port", ("U", 2), ("U", 3), None), ("port_in", "Port", ("Int",), ("Bit",), None),
    ("port_in", "Port", ("Null",), ("U", 2), None),
    ("port_out", "Port", ("U", 3), ("U", 2), None), ("port_out", "Port", ("U", 2), ("U", 3), None),
    ("port_out", "Port", ("S", 3), ("U", 2), None),
    ("ifexp_a", "Port", ("U", 2), ("Int",), None), ("ifexp_b", "Port", ("U", 2), ("Int",), None),
    ("ifexp_b", "Port", ("Int",), ("U", 2), None), ("ret_a", "Port", ("BV", 3), ("U", 3), None),
    ("ret_b", "Port", ("S", 3), ("BV", 3), None), ("ifexp_a", "Port", ("U", 2), ("U", 3), None),
    ("slice", "Port", ("Null",), ("U", 2), "S"), ("slice", "Port", ("U", 2), ("S", 3), "U"),
    ("slice", "Port", ("S", 2), ("S", 3), "BV"), ("elem", "Port", ("Bool",), ("Bit",), "S"),
    ("ixor", "Signal", ("S", 2), ("S", 3), None), ("push", "Port", ("U", 2), ("S", 3), None),
    ("imatmul", "Variable", ("BV", 3), ("U", 3), None), ("value", "Variable", ("S", 1), ("S", 3), None),
    ("next", "Signal", ("U", 1), ("U", 3), None), ("port_in", "Port", ("U", 3), ("U", 2), None),
    ("ilshift", "Port", ("BV", 3), ("BV", 2), None), ("ilshift", "Signal", ("S", 3), ("S", 2), None),
]


def select_cells(ck):
    import os
    if os.environ.get("C05_CELLS") == "corpus":      # fast regression: the fixed corpus only
        return [mk(f, q, s_, t, r) for f, q, s_, t, r in CORPUS] + core_cells()
    allc = grid(ck.tier, ck.rng)
    ext = ext_grid()
    if ck.tier != "quick":
        return allc + ext
    chosen = {}
    for f, q, s_, t, r in CORPUS:
        c = mk(f, q, s_, t, r)
        chosen[cell_key(c)] = c
    for c in core_cells():
        chosen.setdefault(cell_key(c), c)
    groups = {}
    for c in allc:
        groups.setdefault((c["form"], c["qual"], c["root"]), []).append(c)
    for g, cs in sorted(groups.items(), key=lambda kv: str(kv[0])):
        if g == ("ilshift", "Port", None):
            pick = [c for c in cs if ck.rng.random() < 0.5]
        else:
            pick = ck.rng.sample(cs, min(len(cs), 24))
        for c in pick:
            chosen.setdefault(cell_key(c), c)
    for c in ck.rng.sample(ext, 70):
        chosen.setdefault(cell_key(c), c)
    return list(chosen.values())


# ----------------------------------------------------------------------------
# (2) per design value theorems
# ----------------------------------------------------------------------------
INT_ALPHA = "[VI (-9)%Z; VI (-1)%Z; VI 0%Z; VI 1%Z; VI 5%Z; VI 8%Z; VI 300%Z]"
CASE_DEFS = """Local Open Scope Z_scope.
Definition inp (ins : list value) (i : nat) : Z := dec (nth i ins (VI 0)).
(* the represented number of the source, re-encoded in the target (used where no conversion is documented) *)
Definition keep (s t : cty) (v : Z) : Z := num s v.
Definition keepv (s t : cty) (v : Z) : value :=
  let z := num s v in
  match t with
  | CBit | CBool => if (z =? 0) || (z =? 1) then enc t z else VI z
  | CBV m | CU m => if (0 <=? z) && (z <? pow2 m) then enc t z else VI z
  | CS m => if (smin m <=? z) && (z <=? smax m) then enc t (wrap m z) else VI z
  | _ => enc t z
  end.
"""


def flat(t):
    return [t[0]] + list(t[1:])


def pack_key(c):
    """designs are packed by source; port connections apart (their text is known to be ill-typed when widths differ)"""
    return (c["src"] if is_runtime(c["src"]) else ("lits",), "port" if c["form"] in ("port_in", "port_out") else "stmt",
            c.get("shape", "plain"))


def alphabet_for(ins):
    parts = []
    for n, t in ins:
        if t[0] == "Bit":
            parts.append("bit_cands")
        elif t[0] == "Bool":
            parts.append("[VB false; VB true]")
        elif t[0] == "Int":
            parts.append(INT_ALPHA if n == "a" else "[VI (-9)%Z; VI 5%Z; VI 300%Z]")
        else:
            parts.append("(vec_cands %s %d%%N)" % ({"BV": "KSlv", "U": "KUns", "S": "KSgn"}[t[0]], t[1]))
    return "product [" + "; ".join(parts) + "]"


def t0_term(tgt, idx):
    """Coq term (raw Z) of the other branch of a merge in a packed design"""
    k = tgt[0]
    if k == "Bool":
        return f"(inp ins {idx['zb']})"
    if k == "Int":
        return f"(inp ins {idx['zi']})"
    w = 1 if k == "Bit" else tgt[1]
    return f"(getslice (inp ins {idx['z']}) 0 {w}%N)"


def out_term(it: Item, idx, conv):
    s, t = coq_ty(it.src), coq_ty(it.tgt)
    x = f"(inp ins {idx['a']})" if is_runtime(it.src) else "0"
    if it.shape == "resize":      # the source is the extension of the (one bit narrower) input
        x = f"(conv_val {coq_ty(input_type(it.src, 'resize'))} {s} {x})"
    val = f"({conv} {s} {t} {x})"
    merge = it.form in MERGE_A + MERGE_B
    if merge:
        first = it.form in MERGE_A
        c = f"(inp ins {idx['c']} =? 1)"
        if it.other is None:
            t0 = t0_term(it.tgt, idx)
        else:
            o = coq_ty(it.other)
            y = t0_term(it.other, idx) if is_runtime(it.other) else "0"
            if conv == "conv_val":      # both options reach the target as the statement says (Conv.m3_val)
                val = f"(m3_val {s} {s} {o} {t} {x})"
                t0 = f"(m3_val {o} {s} {o} {t} {y})"
            else:
                t0 = f"(keep {o} {t} {y})"
        val = f"(if {c} then {val} else {t0})" if first else f"(if {c} then {t0} else {val})"
    if it.form == "slice":
        return f"(enc {coq_ty((it.root, it.tgt[1] + 2))} (2 * {val}))"
    if it.form == "elem":
        return f"(enc {coq_ty((it.root, 3))} (2 * {val}))"
    if it.form == "view":
        return f"(enc {coq_ty((it.root, it.tgt[1]))} {val})"
    if conv == "keep" and not merge:
        return f"(keepv {s} {t} {x})"
    return f"(enc {t} {val})"


def make_pack(name, cells, conv="conv_val"):
    """one design holding every cell (all of one source and source shape)"""
    src = cells[0]["src"]
    shape = cells[0].get("shape", "plain")
    items = [item_of(k, c) for k, c in enumerate(cells)]
    inputs = [("a", input_type(src, shape))] if is_runtime(src) else []
    assert all(c["src"] == src and c.get("shape", "plain") == shape for c in cells) or not is_runtime(src)
    text, ins, clocked = build_design(items, inputs, t0_mode="z")
    idx = {n: i for i, (n, t) in enumerate(ins)}
    outs = "[" + "; ".join(out_term(it, idx, conv) for it in items) + "]"
    return {"name": name, "source": text, "entity": "E", "ins": ins, "clocked": clocked, "outs": outs, "cells": cells}


def small(t):
    return not is_vec(t) or t[1] <= 3


# ----------------------------------------------------------------------------
# (3) emitted cast text -> Conv.cexp
# ----------------------------------------------------------------------------
def expr_to_cexp(e, srcname):
    k = e[0]
    if k == "name":
        if e[1].lower() != srcname:
            raise ValueError("unexpected operand " + e[1])
        return "XSrc"
    if k == "lit":
        return "(XLit %s)" % R.coq_value(e[1][:4] if e[1][0] == "V" else e[1])
    if k == "f1":
        return "(XF1 %s %s)" % (e[1], expr_to_cexp(e[2], srcname))
    if k == "f2":
        if e[3][0] != "lit" or e[3][1][0] != "I":
            raise ValueError("non literal second argument")
        return "(XF2 %s %s (%d)%%Z)" % (e[1], expr_to_cexp(e[2], srcname), e[3][1][1])
    if k == "bin" and e[1] == "OEq" and e[3] == ("lit", ("L", True)):
        return "(XEqOne %s)" % expr_to_cexp(e[2], srcname)
    if k == "bin" and e[1] == "ONe" and e[3] == ("lit", ("I", 0)):
        return "(XNeZero %s)" % expr_to_cexp(e[2], srcname)
    if k == "bin" and e[1] == "ONe" and e[3][0] == "lit" and e[3][1][0] == "V" and e[3][1][3] == 0:
        return "(XNeZeros %s %d%%N)" % (expr_to_cexp(e[2], srcname), e[3][1][2])
    raise ValueError("expression outside the cast vocabulary: %r" % (e,))


def emitted_cast(vhdl, cell):
    """the right hand side of the statement that writes the target, as a Conv.cexp term"""
    ents, d = R.read_design(vhdl, None, None)
    want_path = []
    if cell["form"] == "slice":
        want_path = [("slice", cell["tgt"][1], 1)]
    elif cell["form"] == "elem":
        want_path = [("idx", ("lit", ("I", 1)))]
    for c in d.conc:
        if c[0] != "assign":
            continue
        name, path = c[1]
        if name.lower() in ("buffer_q0", "q0") and list(path) == want_path and c[2] != ("name", "buffer_q0"):
            return expr_to_cexp(c[2], "a")
    raise ValueError("no statement writes the target")


# ----------------------------------------------------------------------------
# run
# ----------------------------------------------------------------------------
def viol_key(c):
    k = {"form": c["form"], "src": kind_name(c["src"]), "tgt": kind_name(c["tgt"]), "rel": rel_class(c["src"], c["tgt"])}
    if c.get("root"):
        k["root"] = c["root"]
    if c.get("shape", "plain") != "plain":
        k["shape"] = c["shape"]
    if c.get("other"):
        k["other"] = kind_name(c["other"])
    return k


MERGE_FORMS = MERGE_A + MERGE_B


def defect_class(c):
    """the genuine defect classes of the current tree (one known-finding key each)"""
    s_, t_ = c["src"][0], c["tgt"][0]
    if t_ == "Bool" and s_ not in ("Bit", "Bool"):
        return "truthiness_to_bool"                     # bool(x): any vector / integer / literal accepted, emitted x /= 0
    if "Int" in (s_, t_) and (s_ in VEC or t_ in VEC):
        if s_ == "Int":
            return "runtime_integer_into_vector"        # to_unsigned / to_signed of a run-time integer truncates
        if c["form"] in MERGE_FORMS and is_vec(c["src"]) and c["src"][1] <= 31:
            return "runtime_integer_into_vector"        # the integer branch of a merge is joined into the vector type
        return "vector_wider_than_integer"              # to_integer of 32 (unsigned) / 33 (signed) bits leaves the integer range
    if c["form"] in ("decl_sig", "decl_var") and {s_, t_} == {"U", "S"}:
        return "declaration_reinterprets_signedness"    # no trial assignment: format_cast reinterprets equal widths
    return None


def class_key(c, kind):
    cls = defect_class(c) if kind in ("undocumented_accept", "value_mismatch") else None
    if cls:
        return {"class": cls}
    return dict(viol_key(c), **{"class": kind})


def cell_json(c):
    return {"form": c["form"], "qual": c["qual"], "src": list(c["src"]), "tgt": list(c["tgt"]), "root": c["root"],
            "shape": c.get("shape", "plain"), "other": list(c["other"]) if c.get("other") else None}


def cell_from_json(j):
    return mk(j["form"], j["qual"], tuple(j["src"]), tuple(j["tgt"]), j["root"], j.get("shape", "plain"),
              tuple(j["other"]) if j.get("other") else None)


def pdiag(cases):
    """breadth-first verdict per case, in parallel: ('same' | 'cex' | 'fuel' | 'error', info)"""
    import re
    from concurrent.futures import ThreadPoolExecutor

    def one(c):
        st, info = X.diagnose(c)
        log = " ".join(info.get("log", "").split())
        if st == "error" and "no difference" in log:
            st, info = "same", {}
        elif st == "error":
            m = re.search(r"= (VCex .*?) : (?:Explore\.)?verdict(?: = (.*?) : option)?", log)
            if m:
                st, info = "cex", {"path": m.group(1), "traces (design, documented)": m.group(2) or ""}
            elif re.search(r"= VOk ", log):
                st, info = "same", {}
        common._cleanup_v(c.path[:-2] + "_diag.v")
        return st, info

    with ThreadPoolExecutor(common.NCPU) as ex:
        return list(ex.map(one, cases))


def run(ck: common.Check, replay=None):
    t0 = time.time()
    phase = ck.cov.setdefault("phase_s", {})

    def mark(name):
        nonlocal t0
        phase[name] = round(time.time() - t0, 1)
        t0 = time.time()

    findings = {}

    def report(key, what, inst, no_input=False):
        k = json.dumps(key, sort_keys=True)
        f = findings.setdefault(k, {"key": key, "what": what, "no_input": no_input, "instances": [], "n": 0})
        f["no_input"] = f["no_input"] and no_input
        f["n"] += 1
        if len(f["instances"]) < 10:
            f["instances"].append(inst)

    ck.check_props("C05_Properties.v")
    mark("props")
    if replay is not None:
        cells = [cell_from_json(replay["cell"])]
    else:
        cells = select_cells(ck)
    designs = [cell_design(i, c) for i, c in enumerate(cells)]
    res = X.compile_designs(ck, designs)
    accepted = [bool(r["ok"]) for r in res]
    mark("compile_cells")
    for c, a, r in zip(cells, accepted, res):
        ck.evaluations += 1
        ck.hist("forms", c["form"])
        ck.hist("accepted" if a else "rejected_by", "yes" if a else r.get("error_type", "?"))
        ck.nontrivial(cell_json(c))
    ck.sample({"cell": cell_json(cells[0]), "source": designs[0]["source"], "accepted": accepted[0]})

    # ---- (1a) the python rendering of the spec is the Coq doc_ok ----
    pydoc = [cell_doc(c) for c in cells]
    bad_doc = common.coq_bad_indices(ck, "doc", PRE, TIE_TYPE, tie_terms(cells, pydoc), DOC_PRED)
    ck.obligation(not bad_doc)
    if bad_doc:
        ck.violation({"harness": "doc_ok"}, "python doc_ok and Conv.doc_ok differ", {"cells": [cell_json(cells[i]) for i in bad_doc[:5]]},
                     no_input=True)

    # ---- (1b) model tie: real accept/reject vs Conv.assign_ok ----
    bad = set(common.coq_bad_indices(ck, "tie", PRE, TIE_TYPE, tie_terms(cells, accepted), TIE_PRED))
    for i, c in enumerate(cells):
        ck.obligation(i not in bad)
    seen = set()
    for i in sorted(bad):
        c = cells[i]
        k = json.dumps(viol_key(c), sort_keys=True)
        if k in seen:
            continue
        seen.add(k)
        if accepted[i] and not pydoc[i]:
            continue        # reported below as a violation of the spec itself
        report(class_key(c, "model_out_of_date"),
               "Conv.assign_ok no longer predicts the compiler's decision; no value is mis-converted by these cells",
               {"cell": cell_json(c), "source": designs[i]["source"], "accepted": accepted[i], "documented": pydoc[i],
                "error": res[i].get("error")}, no_input=True)

    mark("tie")
    # ---- (1c) the spec: accepted but not documented ----
    undocumented = {}
    over = {}
    for i, c in enumerate(cells):
        ck.obligation(not (accepted[i] and not pydoc[i]))
        if accepted[i] and not pydoc[i]:
            undocumented.setdefault(json.dumps(viol_key(c), sort_keys=True), []).append(i)
        if (not accepted[i]) and pydoc[i]:
            over.setdefault(json.dumps(viol_key(c), sort_keys=True), []).append(i)
    ck.cov["over_rejected_classes"] = {k: len(v) for k, v in sorted(over.items())}
    ck.cov["over_rejected_example"] = [{"cell": cell_json(cells[v[0]]), "error": (res[v[0]].get("error") or "")[:160]}
                                       for k, v in sorted(over.items())][:12]

    # ---- (2) value theorems for accepted, documented pairs of width <= 3 ----
    packs = {}
    singles = []
    for i, c in enumerate(cells):
        if accepted[i] and pydoc[i] and small(c["src"]) and small(c["tgt"]):
            if defect_class(c) is not None:
                singles.append([c])     # a known departure (integer branch of a merge): alone, so that it cannot poison a pack
            else:
                packs.setdefault(pack_key(c), []).append(c)
    pdesigns = []
    for n, (k, cs) in enumerate(sorted(packs.items(), key=lambda kv: str(kv[0]))):
        for part in range(0, len(cs), 12):
            pdesigns.append(make_pack("v%03d_%d_%s_%s" % (n, part // 12, tname(k[0]), k[1]), cs[part:part + 12]))
    # one witness design per undocumented class: does some source value lose its number?
    wdesigns = []
    per_class = {}
    for n, (k, idxs) in enumerate(sorted(undocumented.items())):
        sm = [i for i in idxs if small(cells[i]["src"]) and small(cells[i]["tgt"])]
        if not sm:
            continue        # witnesses are searched on widths <= 3 only (the alphabet is the product of all inputs)
        i = sm[0]
        ckey = json.dumps(class_key(cells[i], "undocumented_accept"), sort_keys=True)
        forms_seen = per_class.setdefault(ckey, [])
        if cells[i]["form"] in forms_seen or len(forms_seen) >= 4:
            continue
        forms_seen.append(cells[i]["form"])
        wdesigns.append((k, i, make_pack("w%03d_%s" % (n, cells[i]["form"]), [cells[i]], conv="keep")))
    pres = X.compile_designs(ck, [{"name": d["name"], "source": d["source"], "entity": "E"} for d in pdesigns + [w[2] for w in wdesigns]])
    mark("compile_packs")

    def to_case(d, r):
        return X.Case(d["name"], r["vhdl"], step=f"fun st ins => (st, Ok {d['outs']})", init="[]",
                      imports="From Cohdl Require Import Models.Conv.", defs=CASE_DEFS, alphabet=alphabet_for(d["ins"]),
                      clk="clk" if d["clocked"] else None,
                      meta={"cells": [cell_json(c) for c in d["cells"]], "source": d["source"]})

    what = ("an accepted, documented conversion does not produce conv_val of the source on some input "
            "(or the emitted cast is ill-typed: Err)")
    key_of = lambda c: class_key(cell_from_json(c.meta["cells"][0]), "value_mismatch")
    ready = []
    for d, r in zip(pdesigns, pres):
        ck.evaluations += 1
        if not r["ok"]:
            singles += [[c] for c in d["cells"]]       # accepted one by one: look at them one by one
            continue
        try:
            c = to_case(d, r)
            X.write_case(ck, c)
            ready.append((d, c))
        except R.Unparsed:
            singles += [[c] for c in d["cells"]]
    outs = common.coqc_many([c.path for _, c in ready], timeout=2400)
    n_items = 0
    for (d, c), (rc, out, err) in zip(ready, outs):
        if rc == 0:
            ck.obligation(True, len(d["cells"]))
            n_items += len(d["cells"])
            ck.nontrivial(c.name)
            common._cleanup_v(c.path)
        else:
            singles += [[x] for x in d["cells"]]
    ck.cov["value_items_proved_in_packs"] = n_items
    if singles:
        sd = [make_pack("s%03d_%s" % (n, cs[0]["form"]), cs) for n, cs in enumerate(singles)]
        sres = X.compile_designs(ck, [{"name": d["name"], "source": d["source"], "entity": "E"} for d in sd])
        scases = []
        for d, r in zip(sd, sres):
            ck.evaluations += 1
            if not r["ok"]:
                ck.obligation(False)
                ck.violation(class_key(d["cells"][0], "value_mismatch"), "cell accepted in the grid is rejected on recompilation: " +
                             r["error"][:200], {"source": d["source"]}, no_input=True)
                continue
            try:
                c = to_case(d, r)
                X.write_case(ck, c)
                scases.append(c)
            except R.Unparsed as e:
                ck.obligation(False)
                ck.violation(key_of(to_case(d, r)), "emitted VHDL left the parsed subset: " + str(e),
                             {"cell": cell_json(d["cells"][0]), "vhdl": r["vhdl"]}, no_input=True)
        # the theorem first (most cells of a failed pack are fine); breadth-first search only where it fails: the search is
        # quick when a difference exists and very slow (large alphabets) when none does
        gouts = common.coqc_many([c.path for c in scases], timeout=2400)
        failed = []
        for c, (rc, out, err) in zip(scases, gouts):
            if rc == 0:
                ck.obligation(True)
                ck.nontrivial(c.name)
            else:
                failed.append(c)
        verdicts = pdiag(failed)
        for c, (st, info) in zip(failed, verdicts):
            ck.obligation(False)
            rep = {"cell": c.meta["cells"][0], "stage": "value", "source": c.meta["source"], "vhdl": c.vhdl, "status": st}
            rep.update(info)
            report(key_of(c), what if st != "same" else "case obligation not discharged although no difference was found",
                   rep, no_input=(st != "cex"))
        for c in scases:
            if c not in failed:
                common._cleanup_v(c.path)
    ck.cov["value_items_rechecked_alone"] = len(singles)

    mark("value_theorems")
    # witnesses of the undocumented classes (expected to fail where a number is lost; informative only)
    wcases = []
    wmap = {}
    for (k, i, d), r in zip(wdesigns, pres[len(pdesigns):]):
        if not r["ok"]:
            continue
        try:
            c = X.Case(d["name"], r["vhdl"], step=f"fun st ins => (st, Ok {d['outs']})", init="[]",
                       imports="From Cohdl Require Import Models.Conv.", defs=CASE_DEFS, alphabet=alphabet_for(d["ins"]),
                       clk="clk" if d["clocked"] else None, meta={})
            X.write_case(ck, c)
            wcases.append(c)
            wmap[c.name] = k
        except R.Unparsed as e:
            wmap["!" + k] = "emitted VHDL outside the parsed subset: " + str(e)
    witness = {}
    for c, (st, info) in zip(wcases, pdiag(wcases)):
        if st == "same":
            witness[wmap[c.name]] = {"status": "the represented number survives for every source value tried"}
        else:
            witness[wmap[c.name]] = {"status": st, **{a: b for a, b in info.items() if a != "log"}}
        common._cleanup_v(c.path)
    for k, idxs in sorted(undocumented.items()):
        import re as _re
        w = witness.get(k) or {"status": wmap.get("!" + k, "no witness design for this form (see the other instances)")}
        for n, i in enumerate(idxs[:2]):
            c = cells[i]
            stmts = [l.strip() for l in res[i]["vhdl"].split("\n")
                     if _re.search(r"(<=|:=|=>)", l) and "q0 <= buffer_q0" not in l and not l.strip().startswith("--")
                     and (_re.search(r"(<=|:=|=>).*\ba\b", l) or not is_runtime(c["src"]) and "q0" in l)]
            inst = {"cell": cell_json(c), "stage": "accept", "source": designs[i]["source"], "emitted": " | ".join(stmts[:4])}
            if n == 0:
                inst["witness"] = w
                inst["cells_of_this_form_and_pair"] = len(idxs)
            report(class_key(c, "undocumented_accept"),
                   "conversion accepted although the statement demands a compile-time error", inst)
    mark("witnesses")
    # ---- (3) emitted cast text vs Conv.cast_emit ----
    terms, who = [], []
    for i, c in enumerate(cells):
        if not accepted[i] or not ((c["form"] == "ilshift" and c["qual"] == "Port") or c["form"] in ("slice", "elem", "view")):
            continue
        if c.get("shape", "plain") != "plain":
            continue
        try:
            ce = emitted_cast(res[i]["vhdl"], c)
        except (ValueError, R.Unparsed) as e:
            ck.obligation(False)
            report(class_key(c, "cast_text"), "emitted statement is outside the cast vocabulary / differs from Conv.cast_emit",
                   {"cell": cell_json(c), "error": str(e), "vhdl": res[i]["vhdl"]}, no_input=True)
            continue
        vt = (c["root"], c["tgt"][1]) if c["form"] in ("slice", "view") else c["tgt"]
        terms.append("(%s, %s, %s, %s)" % (coq_ty(vt), coq_ty(c["tgt"]), coq_ty(c["src"]), ce))
        who.append(i)
    if terms:
        badc = common.coq_bad_indices(ck, "cast", PRE, "cty * cty * cty * cexp", terms,
                                      "fun c => match c with (vt, tg, st, e) => cexp_eqb (cast_emit vt tg st) e end")
        ck.obligation(True, len(terms) - len(badc))
        # decide on the SPEC: is there a source value on which the observed cast misses the documented value?
        FIND = ("Definition res_eqb (a b : res value) : bool := match a, b with Ok x, Ok y => value_eqb x y | Err _, Err _ => true "
                "| _, _ => false end.\n"
                "Definition cands (t : cty) : list Z := match t with CBit | CBool => [0; 1] | CBV n | CU n | CS n => "
                "filter (fun v => (0 <=? v) && (v <? pow2 n)) [0; 1; 2; 3; pow2 (n - 1); pow2 (n - 1) + 1; pow2 n - 2; pow2 n - 1; pow2 (n - 1) - 1] "
                "| CInteger => [-9; -1; 0; 1; 5; 300] | _ => [0] end.\n"
                "Definition miss (c : cty * cty * cty * cexp) := match c with (vt, tg, st, e) => option_map (fun v => (v, ceval e (enc st v), "
                "enc vt (conv_val st tg v))) (find (fun v => negb (res_eqb (ceval e (enc st v)) (Ok (enc vt (conv_val st tg v))))) (cands st)) end.\n")
        badc = list(badc)[:12]
        misses = common.coq_eval_terms(ck, "castmiss", PRE + FIND, ["miss %s" % terms[b] for b in badc]) if badc else []
        for b, m in zip(badc, misses):
            c = cells[who[b]]
            ck.obligation(False)
            found = m.strip().startswith("Some")
            if found and pydoc[who[b]]:
                report(class_key(c, "value_mismatch"),
                       "the emitted cast differs from Conv.cast_emit and misses the documented value on a source value",
                       {"cell": cell_json(c), "stage": "cast_text", "source": designs[who[b]]["source"], "observed_cast": terms[b],
                        "input (source value, emitted cast gives, documented)": m})
            else:
                report(class_key(c, "cast_text"), "emitted statement is outside the cast vocabulary / differs from Conv.cast_emit",
                       {"cell": cell_json(c), "observed": terms[b], "miss": m}, no_input=True)
        ck.cov["cast_texts_compared"] = len(terms)

    mark("cast_text")
    order = {"runtime_integer_into_vector": 0, "declaration_reinterprets_signedness": 1, "vector_wider_than_integer": 2,
             "undocumented_accept": 3, "value_mismatch": 4, "truthiness_to_bool": 8}
    descr = {
        "runtime_integer_into_vector": "a run-time integer is accepted as source of an Unsigned/Signed target (directly or as a branch "
                                       "of a merge) and is truncated by to_unsigned / to_signed",
        "declaration_reinterprets_signedness": "Signal[T](x) / Variable[T](x) inside a context makes no trial assignment: Signed <-> "
                                               "Unsigned of equal width is accepted and reinterpreted",
        "truthiness_to_bool": "a vector, integer or literal is accepted as source of a bool target (python truthiness, x /= 0)",
        "vector_wider_than_integer": "Unsigned[>31] / Signed[>32] is accepted as source of an integer target (to_integer range error)",
    }
    for k, f in sorted(findings.items(), key=lambda kv: (order.get(kv[1]["key"].get("class"), 6), kv[0])):
        f["what"] = descr.get(f["key"].get("class"), f["what"]) if len(f["key"]) == 1 else f["what"]
        rep = dict(f["instances"][0])
        rep["instances"] = f["instances"]
        rep["count"] = f["n"]
        ck.violation(f["key"], "%s (%d instances, %d shown)" % (f["what"], f["n"], len(f["instances"])), rep, no_input=f["no_input"])
    ck.cov["finding_classes"] = {json.dumps(f["key"], sort_keys=True): f["n"] for f in findings.values()}
    ck.cov["cells"] = len(cells)
    ck.cov["accepted"] = sum(accepted)
    ck.cov["undocumented_classes"] = len(undocumented)
    ck.cov["packed_designs"] = len(pdesigns)
    ck.cov["exhaustive"] = ck.tier != "quick"
    ck.cov["rule"] = ("cell = (form, qualifier, source type, target type, root kind, source shape, other option of a merge); forms include "
                      "typed views of a whole object / of a slice whose carrier has another kind, declarations, ports, if-expression / "
                      "two-return / select_with merges; source shape = plain port or an expression temporary (x | x, x + 0, f(x), "
                      "x.resize(n)); other option of a merge = a port of the target type, Null, Full or a narrower run-time value; "
                      "quick = fixed corpus + 172 core cells (small widths of every new shape) + 50% of the plain `<<=` grid + 24 seeded "
                      "cells per other (form, qualifier, root) + 70 seeded cells of the shape / other-option grid; thorough = the whole "
                      "grid over widths {1,2,3,4,8} (about 23000 cells); every cell is distinct; packed designs = accepted documented "
                      "cells of width <= 3 grouped by (source, shape), each a theorem over all source values (both paths of a merge)")
    ck.trusted += ["fail-closed VHDL reader", "Vhdl.Sem / Vhdl.NumStd", "Conv.doc_ok / Conv.conv_val as the rendering of the statement",
                   "generator -> source printer (harness/c05.py)"]
    ck.assumptions += ["widths {1,2,3,4,8}; value theorems for widths <= 3 (the Coq theorems C05_value_* cover all widths of the model)",
                       "run-time integer inputs are driven with a 7 value alphabet (3 values for the other branch of a merge)",
                       "source qualifier is always an input port (decay makes the qualifier of the source irrelevant)"]
