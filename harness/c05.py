"""C05 - type conversions on assignment preserve the value or are rejected.

ordered pairs (source type, target type) x assignment forms x qualifier kinds -> one tiny design per pair, compiled
with the REAL compiler:
 (1) accept / reject vs Conv.assign_ok (model tie, compared inside Coq) and vs Conv.doc_ok (the SPEC of the statement);
 (2) for accepted pairs of width <= 3: packed designs (one per form and source, every accepted target an output port)
     with a kernel-checked theorem "for all source values the outputs are conv_val of the input" (Models/Conv.v);
 (3) the cast text emitted for the plain `<<=` form, parsed and compared with Conv.cast_emit inside Coq."""
from __future__ import annotations
import json

import common
import explore as X
import vhdl_reader as R

# ----------------------------------------------------------------------------
# types
# ----------------------------------------------------------------------------
WIDTHS = [1, 2, 3, 4, 8]
VEC = ("BV", "U", "S")
PYVEC = {"BV": "BitVector", "U": "Unsigned", "S": "Signed"}


def is_vec(t):
    return t[0] in VEC


def width(t):
    return t[1] if is_vec(t) else None


def pyty(t):
    k = t[0]
    if k == "Bit":
        return "Bit"
    if k == "Bool":
        return "bool"
    if k == "Int":
        return "int"
    return f"{PYVEC[k]}[{t[1]}]"


def tname(t):
    k = t[0]
    if is_vec(t):
        return f"{k}{t[1]}"
    if k == "IntLit":
        return f"lit{t[1]}".replace("-", "m")
    if k == "StrLit":
        return f"str{t[1]}"
    return k


def coq_ty(t):
    k = t[0]
    if k == "Bit":
        return "CBit"
    if k == "Bool":
        return "CBool"
    if k == "Int":
        return "CInteger"
    if k == "Null":
        return "CNull"
    if k == "Full":
        return "CFull"
    if k == "IntLit":
        return f"(CIntLit ({t[1]})%Z)"
    if k == "StrLit":
        return f"(CStrLit {len(t[1])}%N {int(t[1], 2) if t[1] else 0}%Z)"
    return "(C%s %d%%N)" % ({"BV": "BV", "U": "U", "S": "S"}[k], t[1])


def is_runtime(t):
    return t[0] in ("Bit", "Bool", "Int") or is_vec(t)


def zero_lit(t):
    """python text of a constant of type t"""
    k = t[0]
    if k == "Bit":
        return "Bit(False)"
    if k == "Bool":
        return "False"
    if k == "Int":
        return "0"
    return f"{pyty(t)}(Null)"


def default_of(t):
    k = t[0]
    if k in ("Bit", "Bool"):
        return "False"
    if k == "Int":
        return "0"
    return "Null"


# width class of a pair (one finding per class)
def rel_class(src, tgt):
    if is_vec(src) and is_vec(tgt):
        return "narrower" if tgt[1] < src[1] else ("equal" if tgt[1] == src[1] else "wider")
    if src[0] == "IntLit":
        z = src[1]
        if tgt[0] in ("Bit", "Bool"):
            return "fits" if z in (0, 1) else "out_of_range"
        if tgt[0] == "Int":
            return "fits"
        if tgt[0] == "U":
            return "fits" if 0 <= z < 2 ** tgt[1] else "out_of_range"
        if tgt[0] == "S":
            return "fits" if -2 ** (tgt[1] - 1) <= z < 2 ** (tgt[1] - 1) else "out_of_range"
        return "-"
    if src[0] == "StrLit" and is_vec(tgt):
        return "equal" if len(src[1]) == tgt[1] else "mismatch"
    if src[0] == "StrLit":
        return "len%d" % min(len(src[1]), 2)
    if is_vec(src) and tgt[0] in ("Bit", "Bool"):
        return "w1" if src[1] == 1 else "w>1"
    if is_vec(tgt) and src[0] in ("Bit", "Bool"):
        return "w1" if tgt[1] == 1 else "w>1"
    return "-"


def kind_name(t):
    return t[0]


# ----------------------------------------------------------------------------
# the SPEC in python (used for the direct check; the Coq doc_ok is compared with it on every case)
# ----------------------------------------------------------------------------
def doc_ok(src, tgt):
    s, t = src[0], tgt[0]
    if s in ("Null", "Full"):
        return True
    if s == "IntLit":
        z = src[1]
        if t in ("Bit", "Bool"):
            return z in (0, 1)
        if t == "Int":
            return -2 ** 31 <= z < 2 ** 31
        if t == "U":
            return 0 <= z < 2 ** tgt[1]
        if t == "S":
            return -2 ** (tgt[1] - 1) <= z < 2 ** (tgt[1] - 1)
        return False
    if s == "StrLit":
        if t in ("BV", "U", "S"):
            return len(src[1]) == tgt[1]
        if t in ("Bit", "Bool"):
            return len(src[1]) == 1
        return False
    if s in ("Bit", "Bool"):
        return t in ("Bit", "Bool")
    if s == "Int":
        return t == "Int"
    # vector sources
    n = src[1]
    if t == "Int":
        return (s == "U" and n <= 31) or (s == "S" and n <= 32)
    if t not in VEC:
        return False
    m = tgt[1]
    if s == "U":
        return (t == "U" and n <= m) or (t == "S" and n < m) or (t == "BV" and n == m)
    if s == "S":
        return (t == "S" and n <= m) or (t == "BV" and n == m)
    return n == m    # BV -> BV / U / S of equal width


# ----------------------------------------------------------------------------
# forms
# ----------------------------------------------------------------------------
# name: (context, qualifier kinds of the target, Coq constructor)
FORMS = {
    "ilshift":    ("conc", ("Port", "Signal"), "FNextOp"),       # t <<= s
    "next":       ("clk", ("Port", "Signal"), "FNextAttr"),      # t.next = s
    "imatmul":    ("comb", ("Variable",), "FValueOp"),           # v @= s
    "value":      ("comb", ("Variable",), "FValueAttr"),         # v.value = s
    "ixor":       ("clk", ("Port", "Signal"), "FPushOp"),        # t ^= s
    "push":       ("clk", ("Port", "Signal"), "FPushAttr"),      # t.push = s
    "slice":      ("conc", ("Port",), "FSlice"),                 # t[hi:lo] <<= s  (typed through a view)
    "elem":       ("conc", ("Port",), "FElem"),                  # t[i] <<= s
    "decl_sig":   ("conc", ("Signal",), "FDeclSig"),             # Signal[T](s) inside a context
    "decl_var":   ("comb", ("Variable",), "FDeclVar"),           # Variable[T](s) inside a context
    "decl_static": ("conc", ("Signal", "Port"), "FDeclStatic"),  # Signal[T](literal) / Port.output(T, default=literal)
    "port_in":    ("arch", ("Port",), "FPortIn"),                # Sub(i=s): formal input of type T
    "port_out":   ("arch", ("Port",), "FPortOut"),               # Sub(o=t): formal output of type S, actual of type T
    "ifexp_a":    ("conc", ("Port",), "FIfA"),                   # t <<= s if c else t0
    "ifexp_b":    ("conc", ("Port",), "FIfB"),                   # t <<= t0 if c else s
    "ret_a":      ("comb", ("Port",), "FRetA"),                  # t <<= f(c, s, t0)   (two returns)
    "ret_b":      ("comb", ("Port",), "FRetB"),
}
ROOTS = ("BV", "U", "S")


class Item:
    """one conversion statement inside a design"""

    def __init__(self, k, form, qual, src, tgt, src_expr, root=None):
        self.k, self.form, self.qual, self.src, self.tgt, self.src_expr, self.root = k, form, qual, src, tgt, src_expr, root

    def out_type(self):
        if self.form == "slice":
            return (self.root, self.tgt[1] + 2)
        if self.form == "elem":
            return (self.root, 3)
        return self.tgt


def view_suffix(root, tgt_kind):
    if tgt_kind == "BV":
        return "" if True else ""
    return ".unsigned" if tgt_kind == "U" else ".signed"


def emit_item(it: Item, D):
    """append the declarations / statements of one item to the design sections D"""
    k, form, qual, src, tgt, S = it.k, it.form, it.qual, it.src, it.tgt, it.src_expr
    T = pyty(tgt)
    q = f"self.q{k}"
    ctx = FORMS[form][0]
    body = D[ctx] if ctx != "arch" else None
    dflt = f", default={default_of(it.out_type())}" if form in ("ixor", "push") else ""

    def outport(extra=""):
        D["ports"].append(f"    q{k} = Port.output({pyty(it.out_type())}{extra or dflt})")

    if form in ("ilshift", "next", "ixor", "push"):
        outport()
        tname_ = q
        if qual == "Signal":
            sd = f"Signal[{T}]({default_of(tgt)}, name='s{k}')" if form in ("ixor", "push") else f"Signal[{T}](name='s{k}')"
            D["pre"].append(f"        s{k} = {sd}")
            D["conc"].append(f"            {q} <<= s{k}")
            tname_ = f"s{k}"
            if form in ("ixor", "push"):
                D["ports"][-1] = f"    q{k} = Port.output({T})"
        if form == "ilshift":
            body.append(f"            {tname_} <<= {S}")
        elif form == "next":
            body.append(f"            {tname_}.next = {S}")
        elif form == "ixor":
            body.append(f"            {tname_} ^= {S}")
        else:
            body.append(f"            {tname_}.push = {S}")
    elif form in ("imatmul", "value"):
        outport()
        D["pre"].append(f"        v{k} = Variable[{T}](name='v{k}')")
        D["nonlocal"].append(f"v{k}")
        body.append(f"            v{k} @= {S}" if form == "imatmul" else f"            v{k}.value = {S}")
        body.append(f"            {q} <<= v{k}")
    elif form == "slice":
        outport()
        n = tgt[1]
        view = {"BV": ".bitvector" if it.root != "BV" else "", "U": ".unsigned" if it.root != "U" else "",
                "S": ".signed" if it.root != "S" else ""}[tgt[0]]
        # a slice of any vector is a BitVector; typed targets are reached through a view of the slice
        view = {"BV": "", "U": ".unsigned", "S": ".signed"}[tgt[0]]
        body.append(f"            {q}[{n}:1]{view} <<= {S}")
        body.append(f"            {q}[0] <<= Null")
        body.append(f"            {q}[{n + 1}] <<= Null")
    elif form == "elem":
        outport()
        body.append(f"            {q}[1] <<= {S}")
        body.append(f"            {q}[0] <<= Null")
        body.append(f"            {q}[2] <<= Null")
    elif form == "decl_sig":
        outport()
        body.append(f"            d{k} = Signal[{T}]({S})")
        body.append(f"            {q} <<= d{k}")
    elif form == "decl_var":
        outport()
        body.append(f"            d{k} = Variable[{T}]({S})")
        body.append(f"            {q} <<= d{k}")
    elif form == "decl_static":
        if qual == "Port":
            outport(f", default={S}")
        else:
            outport()
            D["pre"].append(f"        s{k} = Signal[{T}]({S}, name='s{k}')")
            D["conc"].append(f"            {q} <<= s{k}")
    elif form == "port_in":
        outport()
        D["subs"] += [f"class Sub{k}(cohdl.Entity):", f"    i = Port.input({T})", f"    o = Port.output({T})",
                      "    def architecture(self):", "        @std.concurrent", "        def logic():",
                      "            self.o <<= self.i", ""]
        D["pre"].append(f"        Sub{k}(i={S}, o={q})")
    elif form == "port_out":
        outport()
        ST = pyty(src)
        D["subs"] += [f"class Sub{k}(cohdl.Entity):", f"    i = Port.input({ST})", f"    o = Port.output({ST})",
                      "    def architecture(self):", "        @std.concurrent", "        def logic():",
                      "            self.o <<= self.i", ""]
        D["pre"].append(f"        Sub{k}(i={S}, o={q})")
    elif form in ("ifexp_a", "ifexp_b"):
        outport()
        t0 = D["t0"](tgt)
        e = f"({S} if self.c else {t0})" if form == "ifexp_a" else f"({t0} if self.c else {S})"
        body.append(f"            {q} <<= {e}")
        D["need_c"] = True
    elif form in ("ret_a", "ret_b"):
        outport()
        t0 = D["t0"](tgt)
        D["need_f"] = True
        D["need_c"] = True
        args = f"self.c, {S}, {t0}" if form == "ret_a" else f"self.c, {t0}, {S}"
        body.append(f"            {q} <<= pick({args})")
    else:
        raise AssertionError(form)


def build_design(items, inputs, t0_mode="port"):
    """items: [Item]; inputs: [(name, type)] input ports.  t0_mode 'port': the other branch of a merge is an input port
    `t<k>` of the target type (single pair designs); 'z': it is a view of the shared 3 bit input z (packed designs)."""
    D = {"ports": [], "pre": [], "conc": [], "comb": [], "clk": [], "subs": [], "nonlocal": [], "need_c": False,
         "need_f": False, "extra_in": []}

    def t0(tgt):
        if t0_mode == "port":
            nm = f"t{len(D['extra_in'])}"
            D["extra_in"].append((nm, tgt))
            return f"self.{nm}"
        k = tgt[0]
        D["need_z"] = True
        if k == "Bit":
            return "self.z[0]"
        if k == "Bool":
            D["need_zb"] = True
            return "self.zb"
        if k == "Int":
            D["need_zi"] = True
            return "self.zi"
        base = f"self.z[{tgt[1] - 1}:0]"
        return base + {"BV": "", "U": ".unsigned", "S": ".signed"}[k]

    D["t0"] = t0
    for it in items:
        emit_item(it, D)
    src = ["import cohdl", "from cohdl import Bit, BitVector, Port, Unsigned, Signed, Variable, Signal, Null, Full",
           "from cohdl import std", ""]
    if D["need_f"]:
        src += ["def pick(c, x, y):", "    if c:", "        return x", "    return y", ""]
    src += D["subs"]
    src += ["class E(cohdl.Entity):"]
    ins = list(inputs)
    if D["clk"]:
        src.append("    clk = Port.input(Bit)")
    if D["need_c"]:
        ins.append(("c", ("Bit",)))
    if D.get("need_z"):
        ins.append(("z", ("BV", 3)))
    if D.get("need_zb"):
        ins.append(("zb", ("Bool",)))
    if D.get("need_zi"):
        ins.append(("zi", ("Int",)))
    ins += D["extra_in"]
    for n, t in ins:
        src.append(f"    {n} = Port.input({pyty(t)})")
    src += D["ports"]
    src += ["", "    def architecture(self):"] + D["pre"]
    if D["conc"]:
        src += ["        @std.concurrent", "        def logic():"] + D["conc"]
    if D["comb"]:
        src += ["        @std.sequential", "        def comb():"]
        if D["nonlocal"]:
            src.append("            nonlocal " + ", ".join(D["nonlocal"]))
        src += D["comb"]
    if D["clk"]:
        src += ["        @std.sequential(std.Clock(self.clk))", "        def proc():"] + D["clk"]
    if not (D["pre"] or D["conc"] or D["comb"] or D["clk"]):
        src.append("        pass")
    return "\n".join(src) + "\n", ins, bool(D["clk"])


# ----------------------------------------------------------------------------
# the grid
# ----------------------------------------------------------------------------
def sources(widths):
    out = [("Bit",), ("Bool",), ("Int",), ("Null",), ("Full",)]
    for k in VEC:
        out += [(k, n) for n in widths]
    return out


def literal_sources(tgt):
    """integer / string literals chosen relative to the target (in range, boundary, too large, negative)"""
    lits = {0, 1, -1, 2}
    if is_vec(tgt):
        n = tgt[1]
        lits |= {2 ** n - 1, 2 ** n, 2 ** (n - 1) - 1, 2 ** (n - 1), -2 ** (n - 1), -2 ** (n - 1) - 1}
        strs = {"01" * n, ("10" * n)[:n], "1" * (n + 1), "0" * max(n - 1, 0)}
        strs = {s[:n] if len(s) == 2 * n else s for s in strs}
    else:
        strs = {"1", "0", "10", ""}
    return [("IntLit", z) for z in sorted(lits)] + [("StrLit", s) for s in sorted(strs)]


def targets(widths):
    out = [("Bit",), ("Bool",), ("Int",)]
    for k in VEC:
        out += [(k, n) for n in widths]
    return out


def src_expr_of(src):
    k = src[0]
    if is_runtime(src):
        return "self.a"
    if k == "Null":
        return "Null"
    if k == "Full":
        return "Full"
    if k == "IntLit":
        return str(src[1])
    return '"%s"' % src[1]


def grid(tier, rng):
    """-> list of dict(form, qual, src, tgt, root)"""
    widths = WIDTHS
    cells = []
    for tgt in targets(widths):
        srcs = sources(widths) + literal_sources(tgt)
        for src in srcs:
            for form, (ctx, quals, _) in FORMS.items():
                rt = is_runtime(src)
                if form == "decl_static" and rt:
                    continue
                if form == "port_out" and not rt:
                    continue
                if form == "slice" and not is_vec(tgt):
                    continue
                if form == "elem" and tgt[0] != "Bit":
                    continue
                roots = ROOTS if form in ("slice", "elem") else (None,)
                for qual in quals:
                    for root in roots:
                        cells.append({"form": form, "qual": qual, "src": src, "tgt": tgt, "root": root})
    return cells


def cell_name(i, c):
    return "p%05d_%s_%s_%s_%s%s" % (i, c["form"], c["qual"][0], tname(c["src"]), tname(c["tgt"]), c["root"] or "")


def cell_design(i, c):
    src = c["src"]
    it = Item(0, c["form"], c["qual"], src, c["tgt"], src_expr_of(src), c["root"])
    inputs = [("a", src)] if is_runtime(src) else []
    text, ins, clocked = build_design([it], inputs)
    return {"name": cell_name(i, c), "source": text, "entity": "E"}


def run(ck: common.Check, replay=None):
    raise NotImplementedError


# ----------------------------------------------------------------------------
# (1) model tie
# ----------------------------------------------------------------------------
KCOQ = {"BV": "KB", "U": "KU", "S": "KS"}
PRE = common.COQ_HEADER + "From Cohdl Require Import Models.Conv.\nLocal Open Scope Z_scope.\n"


def coq_form(c):
    f = FORMS[c["form"]][2]
    if c["form"] in ("slice", "elem"):
        return f"({f} {KCOQ[c['root']]})"
    return f


def tie_terms(cells, accepted):
    return ["(%s, %s, %s, %s)" % (coq_form(c), coq_ty(c["src"]), coq_ty(c["tgt"]), "true" if a else "false")
            for c, a in zip(cells, accepted)]


TIE_TYPE = "form * cty * cty * bool"
TIE_PRED = "fun c => match c with (f, s, t, a) => Bool.eqb (assign_ok f s t) a end"
DOC_PRED = "fun c => match c with (f, s, t, a) => Bool.eqb (doc_ok s t) a end"
