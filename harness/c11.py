"""C11 - compilation is a pure function of the design, independent of history.

(a) histories over a pool of small designs (one per design class of Models/Hist.v) are executed by c11_worker.py
    in ONE interpreter image per history; after every compilation the worker reads the real module / class level
    variables of the compiler and hashes the output; Coq replays the history with `Hist.compile` and compares
    every observation (`hist_ok`), i.e. the model tie.
(b) the specification, checked directly on the real results: the outcome of a compilation (accepted + output
    bytes, or rejected) must equal the outcome of the same design in a fresh interpreter image, whatever came
    before.  A difference is a violation; the history is delta-debugged to a 1-minimal one.
(c) hash seeds: accepted designs (pool + upstream reference designs) compiled in fresh interpreters under
    PYTHONHASHSEED 0, 1 and a seed-derived value must give identical bytes (a test, coverage "hashseed_differential").

The tie uses Hist.compile, the model of the CURRENT tree.  For development only, C11_MODEL=coded|fixed ties against
Hist.compile_coded (the tree before the fix: commits 73c9e08 72ebcaa 215d68c 5bdcba1 36732b7) or Hist.compile_fixed
(a tree that also restores IrGenerator.returned_blocks / Statement._current_frame on rejection).
"""
from __future__ import annotations
import itertools
import json
import os
import re
import shutil

import common

MODELS = {"current": "compile", "coded": "compile_coded", "fixed": "compile_fixed"}

# ----------------------------------------------------------------------------
# the pool
# ----------------------------------------------------------------------------

HEAD = """import cohdl
from cohdl import Bit, BitVector, Port, Unsigned, Signed, Signal, Variable, Temporary, Null, Full, Array
from cohdl import std
"""

POOL = {}
ORDER = []


def D(name, body, **cls):
    c = {"arch_pfx": [], "ctx_pfx": [], "with": False, "depth": 1, "clk_ok": False, "clk_fail": False, "ctx_clk": False,
         "needs_ctx": False, "coro": False, "in_call": False, "in_apply": False, "eh": 0, "verdict": "ok"}
    for k in cls:
        assert k in c, k
    c.update(cls)
    c["id"] = len(ORDER)
    POOL[name] = {"source": HEAD + body, "entity": "E", "cls": c}
    ORDER.append(name)


SUB = """
class Sub(cohdl.Entity):
    x = Port.input(Bit)
    y = Port.output(Bit)
    def architecture(self):
        @std.concurrent
        def logic():
            self.y <<= ~self.x
"""
CORO = dict(clk_ok=True, coro=True, in_call=True)

# ---- accepted --------------------------------------------------------------------------------------
D("a_comb", """
class E(cohdl.Entity):
    a = Port.input(Bit)
    b = Port.input(Bit)
    o = Port.output(Bit)
    def architecture(self):
        @std.concurrent
        def logic():
            self.o <<= self.a & self.b
""")
D("a_seq", """
class E(cohdl.Entity):
    clk = Port.input(Bit)
    en = Port.input(Bit)
    o = Port.output(Unsigned[4], default=Null)
    def architecture(self):
        @std.sequential(std.Clock(self.clk))
        def proc():
            if self.en:
                self.o <<= self.o + 1
""", clk_ok=True)
D("a_coro", """
class E(cohdl.Entity):
    clk = Port.input(Bit)
    a = Port.input(Bit)
    o = Port.output(Bit, default=Null)
    def architecture(self):
        @std.sequential(std.Clock(self.clk))
        async def proc():
            await self.a
            self.o <<= True
            await self.a
            self.o <<= False
""", **CORO)
D("a_coro_while", """
class E(cohdl.Entity):
    clk = Port.input(Bit)
    c = Port.input(Bit)
    d = Port.input(Bit)
    e = Port.input(Bit)
    o = Port.output(Unsigned[3], default=Null)
    def architecture(self):
        @std.sequential(std.Clock(self.clk))
        async def proc():
            await self.e
            while self.c:
                await self.e
                if self.d:
                    continue
                if self.e:
                    break
                self.o <<= self.o + 1
            self.o <<= 0
""", **CORO)
D("a_coro_raw", """
class E(cohdl.Entity):
    clk = Port.input(Bit)
    a = Port.input(Bit)
    o = Port.output(Bit, default=Null)
    def architecture(self):
        async def body():
            await self.a
            self.o <<= True
            await self.a
            self.o <<= False
        coro = body()
        @cohdl.sequential_context
        def proc():
            if cohdl.rising_edge(self.clk):
                cohdl.coroutine_step(coro)
""", coro=True, in_call=False)
D("a_two_coro", """
class E(cohdl.Entity):
    clk = Port.input(Bit)
    a = Port.input(Bit)
    o = Port.output(Bit, default=Null)
    p = Port.output(Bit, default=Null)
    def architecture(self):
        clk = std.Clock(self.clk)
        @std.sequential(clk)
        async def proc_o():
            await self.a
            self.o <<= ~self.o
        @std.sequential(clk)
        async def proc_p():
            await self.a
            await self.a
            self.p <<= ~self.p
""", **CORO)
D("a_call_ret", """
def pick(a, b, c):
    if a:
        return b
    if b:
        return c
    return a

class E(cohdl.Entity):
    clk = Port.input(Bit)
    a = Port.input(Bit)
    b = Port.input(Bit)
    c = Port.input(Bit)
    o = Port.output(Bit, default=Null)
    def architecture(self):
        @std.sequential(std.Clock(self.clk))
        def proc():
            self.o <<= pick(self.a, self.b, self.c)
""", clk_ok=True)
D("a_pfx_ctx", """
class E(cohdl.Entity):
    a = Port.input(Bit)
    o = Port.output(Bit)
    def architecture(self):
        @std.concurrent
        def logic():
            p = std.prefix("p0")
            s = Signal[Bit](name=p.name("s"))
            s <<= self.a
            self.o <<= s
""", ctx_pfx=[0])
D("a_pfx_ctx2", """
class E(cohdl.Entity):
    a = Port.input(Bit)
    o = Port.output(Bit)
    q = Port.output(Bit)
    def architecture(self):
        @std.concurrent
        def logic_o():
            p = std.prefix("p0")
            s = Signal[Bit](name=p.name("s"))
            s <<= self.a
            self.o <<= s
        @std.concurrent
        def logic_q():
            p = std.prefix("p0")
            s = Signal[Bit](name=p.name("s"))
            s <<= ~self.a
            self.q <<= s
""", ctx_pfx=[0, 0])
D("a_pfx_arch", """
class E(cohdl.Entity):
    a = Port.input(Bit)
    o = Port.output(Bit)
    def architecture(self):
        p = std.prefix("p0")
        s = Signal[Bit](name=p.name("s"))
        @std.concurrent
        def logic():
            s.next = self.a
            self.o <<= s
""", arch_pfx=[0])
D("a_pfx_arch2", """
class E(cohdl.Entity):
    a = Port.input(Bit)
    o = Port.output(Bit)
    def architecture(self):
        p = std.prefix("p1")
        s = Signal[Bit](name=p.name("s"))
        q = std.prefix("p1")
        t = Signal[Bit](name=q.name("s"))
        @std.concurrent
        def logic():
            s.next = self.a
            t.next = s
            self.o <<= t
""", arch_pfx=[1, 1])
D("a_pfx_with", """
class E(cohdl.Entity):
    a = Port.input(Bit)
    o = Port.output(Bit)
    def architecture(self):
        with std.prefix("p2"):
            s = Signal[Bit](name=std.name("s"))
        @std.concurrent
        def logic():
            s.next = self.a
            self.o <<= s
""", arch_pfx=[2])
D("a_pfx_with_ctx", """
class E(cohdl.Entity):
    a = Port.input(Bit)
    o = Port.output(Bit)
    def architecture(self):
        with std.prefix("p3"):
            @std.concurrent
            def logic():
                s = Signal[Bit](name=std.name("s"))
                s <<= self.a
                self.o <<= s
""", arch_pfx=[3], **{"with": True})
D("a_pfx_mixed", """
class E(cohdl.Entity):
    clk = Port.input(Bit)
    a = Port.input(Bit)
    o = Port.output(Bit, default=Null)
    def architecture(self):
        p = std.prefix("p0")
        s = Signal[Bit](name=p.name("s"))
        @std.sequential(std.Clock(self.clk))
        async def proc():
            q = std.prefix("p0")
            t = Signal[Bit](name=q.name("s"))
            await self.a
            t <<= self.a
            s.next = t
            self.o <<= s
""", arch_pfx=[0], ctx_pfx=[0], ctx_clk=True, **CORO)
D("a_sub", SUB + """
class E(cohdl.Entity):
    a = Port.input(Bit)
    o = Port.output(Bit)
    def architecture(self):
        Sub(x=self.a, y=self.o)
""")
D("a_sub2", SUB + """
class Mid(cohdl.Entity):
    x = Port.input(Bit)
    y = Port.output(Bit)
    def architecture(self):
        t = Signal[Bit]()
        Sub(x=self.x, y=t)
        Sub(x=t, y=self.y)

class E(cohdl.Entity):
    a = Port.input(Bit)
    o = Port.output(Bit)
    def architecture(self):
        Mid(x=self.a, y=self.o)
""")
D("a_sub_coro", """
class Sub(cohdl.Entity):
    clk = Port.input(Bit)
    x = Port.input(Bit)
    y = Port.output(Bit, default=Null)
    def architecture(self):
        @std.sequential(std.Clock(self.clk))
        async def proc():
            await self.x
            self.y <<= ~self.y

class E(cohdl.Entity):
    clk = Port.input(Bit)
    a = Port.input(Bit)
    o = Port.output(Bit)
    def architecture(self):
        Sub(clk=self.clk, x=self.a, y=self.o)
""", **CORO)
D("a_inline", SUB + """
class E(cohdl.Entity):
    a = Port.input(Bit)
    o = Port.output(Bit)
    def architecture(self):
        @std.concurrent
        def logic():
            Sub(x=self.a, y=self.o)
""")
D("a_waitfor", """
class E(cohdl.Entity):
    clk = Port.input(Bit)
    o = Port.output(Bit, default=Null)
    def architecture(self):
        @std.sequential(std.Clock(self.clk, frequency=std.MHz(100)))
        async def proc():
            await std.wait_for(std.ns(30))
            self.o <<= ~self.o
""", **CORO)
D("a_temp", """
class E(cohdl.Entity):
    clk = Port.input(Bit)
    a = Port.input(Bit)
    b = Port.input(Bit)
    o = Port.output(Bit, default=Null)
    def architecture(self):
        @std.sequential(std.Clock(self.clk))
        def proc():
            t = Temporary[Bit](self.b)
            if self.a:
                self.o <<= t | self.a
""", clk_ok=True)
D("a_always", """
class E(cohdl.Entity):
    clk = Port.input(Bit)
    a = Port.input(Bit)
    o = Port.output(Bit, default=Null)
    p = Port.output(Bit)
    def architecture(self):
        @std.sequential(std.Clock(self.clk))
        def proc():
            with cohdl.always:
                self.p <<= self.a
            self.o <<= self.a
""", clk_ok=True)
D("a_types", """
class E(cohdl.Entity):
    clk = Port.input(Bit)
    a = Port.input(Unsigned[7])
    b = Port.input(Signed[9])
    o = Port.output(Unsigned[11], default=Null)
    p = Port.output(BitVector[13])
    def architecture(self):
        mem = Signal[Array[BitVector[13], 4]](name="mem")
        @std.sequential(std.Clock(self.clk))
        def proc():
            self.o <<= self.a
            mem[self.a[1:0].unsigned] <<= self.b.bitvector @ self.a[3:0]
        @std.concurrent
        def logic():
            self.p <<= mem[0]
""", clk_ok=True)
D("a_handler", """
class E(cohdl.Entity):
    a = Port.input(Bit)
    o = Port.output(Bit)
    def architecture(self):
        @std.concurrent
        def logic():
            with std.exception.StdExceptionHandler(info="while driving o"):
                self.o <<= self.a
""")
D("a_alias", """
class E(cohdl.Entity):
    a = Port.input(Bit)
    q = Port.output(Bit)
    w = Port.output(Bit)
    def architecture(self):
        # one object reachable through several closure names: the emitted name must not depend on set order
        foo = Signal[Bit]()
        bar = foo
        baz = foo
        qux = foo
        zed = Signal[Bit]()
        alpha = zed
        @std.concurrent
        def logic():
            foo.next = self.a
            self.q <<= bar ^ baz ^ qux
            zed.next = ~self.a
            self.w <<= alpha
""")
D("a_extern_libs", """
ExtA = type("ExtA", (cohdl.Entity,), {"a": Port.input(Bit), "q": Port.output(Bit)}, extern=True, attributes={"path": "liba"})
ExtB = type("ExtB", (cohdl.Entity,), {"a": Port.input(Bit), "q": Port.output(Bit)}, extern=True, attributes={"path": "libb"})
ExtC = type("ExtC", (cohdl.Entity,), {"a": Port.input(Bit), "q": Port.output(Bit)}, extern=True, attributes={"path": "libzeta"})
ExtD = type("ExtD", (cohdl.Entity,), {"a": Port.input(Bit), "q": Port.output(Bit)}, extern=True, attributes={"path": "otherlib"})

class E(cohdl.Entity):
    a = Port.input(Bit)
    q = Port.output(Bit)
    r = Port.output(Bit)
    s = Port.output(Bit)
    t = Port.output(Bit)
    def architecture(self):
        ExtA(a=self.a, q=self.q)
        ExtB(a=self.a, q=self.r)
        ExtC(a=self.a, q=self.s)
        ExtD(a=self.a, q=self.t)
""")
D("a_shared_attrs", """
ATTRS = {"note": "shared by every build of this design"}

class E(cohdl.Entity):
    clk = Port.input(Bit)
    a = Port.input(Bit)
    o = Port.output(Bit)
    p = Port.output(Bit, default=Null)
    def architecture(self):
        # a caller-owned attributes dict together with comment=: the compiler must not write into it
        @std.concurrent(comment="drive o", attributes=ATTRS)
        def logic():
            self.o <<= self.a
        @std.sequential(std.Clock(self.clk), comment="drive p", attributes=ATTRS)
        def proc():
            self.p <<= self.a
""", clk_ok=True)
D("a_enum", """
class Col(cohdl.enum.Enum):
    idle = 1
    busy = 2
    done = 3

class E(cohdl.Entity):
    clk = Port.input(Bit)
    a = Port.input(Bit)
    o = Port.output(Bit, default=Null)
    def architecture(self):
        st = Signal[Col](Col.idle, name='st')
        @std.sequential(std.Clock(self.clk))
        def proc():
            self.o <<= st == Col.done
            st.next = Col.busy if self.a else Col.idle
""", clk_ok=True)
# two REVISIONS of one design file: same module name, class names, function names and line layout, different bodies
# (a regenerated design.py / a re-run notebook cell): anything cached per definition site must not survive
REV = """
class Helper:
    def __init__(self, a, b):
        self.a = a
        self.b = b
    def value(self):
        return self.a %s self.b
def combine(x, y):
    return x %s y
class E(cohdl.Entity):
    a = Port.input(Bit)
    b = Port.input(Bit)
    o = Port.output(Bit)
    p = Port.output(Bit)
    q = Port.output(Bit)
    def architecture(self):
        @std.concurrent
        def logic():
            self.o <<= self.a %s self.b
            self.p <<= combine(self.a, self.b)
            self.q <<= Helper(self.a, self.b).value()
"""
D("a_rev1", REV % ("&", "&", "&"))
D("a_rev2", REV % ("|", "^", "|"))
MODNAME = {"a_rev1": "rev", "a_rev2": "rev"}
D("a_named_like_literals", """
class E(cohdl.Entity):
    clk = Port.input(Bit)
    idle = Port.input(Bit)
    state_0 = Port.input(Bit)
    done = Port.output(Bit, default=Null)
    def architecture(self):
        # names that are enumeration literals of OTHER designs (a_enum, the state type of every coroutine)
        busy = Signal[Bit](name="busy")
        state_1 = Signal[Bit](name="state_1")
        @std.sequential(std.Clock(self.clk))
        def proc():
            busy.next = self.idle
            state_1.next = self.state_0 ^ busy
            self.done <<= state_1
""", clk_ok=True)
# ---- rejected by architecture() --------------------------------------------------------------------
D("r_arch_raise", """
class E(cohdl.Entity):
    a = Port.input(Bit)
    o = Port.output(Bit)
    def architecture(self):
        @std.concurrent
        def logic():
            self.o <<= self.a
        assert self.a is None, "architecture rejects"
""", verdict="arch")
D("r_arch_sub", SUB + """
class E(cohdl.Entity):
    a = Port.input(Bit)
    o = Port.output(Bit)
    def architecture(self):
        Sub(x=self.a, y=self.o)
        Sub(x=self.a)
""", verdict="arch")
D("r_arch_in_with", """
class E(cohdl.Entity):
    a = Port.input(BitVector[4])
    o = Port.output(BitVector[3])
    def architecture(self):
        with std.prefix("p2"):
            s = Signal[BitVector[3]](name=std.name("s"))
            s <<= self.a
""", verdict="arch", arch_pfx=[2])
# ---- rejected while a context is converted (PrepareAst) ------------------------------------------------
# (clk_fail designs use a Clock WITH a frequency: the context they leave behind can then serve std.wait_for(Duration))
D("r_prep_width", """
class E(cohdl.Entity):
    a = Port.input(BitVector[4])
    o = Port.output(BitVector[3])
    def architecture(self):
        @std.concurrent
        def logic():
            self.o <<= self.a
""", verdict="prep")
D("r_prep_clk", """
class E(cohdl.Entity):
    clk = Port.input(Bit)
    a = Port.input(BitVector[4])
    o = Port.output(BitVector[3])
    def architecture(self):
        @std.sequential(std.Clock(self.clk, frequency=std.MHz(50)))
        def proc():
            self.o <<= self.a
""", verdict="prep", clk_fail=True)
D("r_prep_coro", """
class E(cohdl.Entity):
    clk = Port.input(Bit)
    e = Port.input(Bit)
    a = Port.input(BitVector[4])
    o = Port.output(BitVector[3])
    def architecture(self):
        @std.sequential(std.Clock(self.clk, frequency=std.MHz(50)))
        async def proc():
            await self.e
            self.o <<= self.a
""", verdict="prep", clk_fail=True)
D("r_prep_in_with", """
class E(cohdl.Entity):
    a = Port.input(BitVector[4])
    o = Port.output(BitVector[3])
    def architecture(self):
        with std.prefix("p4"):
            @std.concurrent
            def logic():
                self.o <<= self.a
""", verdict="prep", arch_pfx=[4], **{"with": True})
D("r_prep_call", """
def narrow(t, v):
    t <<= v
    return t

class E(cohdl.Entity):
    a = Port.input(BitVector[4])
    o = Port.output(BitVector[3])
    def architecture(self):
        @std.concurrent
        def logic():
            x = [narrow(self.o, self.a), 1]
""", verdict="prep")
D("r_prep_second", """
class E(cohdl.Entity):
    a = Port.input(BitVector[4])
    o = Port.output(BitVector[3])
    q = Port.output(BitVector[4])
    def architecture(self):
        @std.concurrent
        def logic_q():
            p = std.prefix("p0")
            s = Signal[BitVector[4]](name=p.name("s"))
            s <<= self.a
            self.q <<= s
        @std.concurrent
        def logic_o():
            self.o <<= self.a
""", verdict="prep", ctx_pfx=[0])
D("r_prep_after_clk", """
class E(cohdl.Entity):
    clk = Port.input(Bit)
    a = Port.input(BitVector[4])
    o = Port.output(BitVector[3])
    q = Port.output(BitVector[4], default=Null)
    def architecture(self):
        @std.sequential(std.Clock(self.clk))
        def proc():
            self.q <<= self.a
        @std.concurrent
        def logic():
            self.o <<= self.a
""", verdict="prep", clk_ok=True)
D("r_prep_sub", """
class Sub(cohdl.Entity):
    x = Port.input(BitVector[4])
    y = Port.output(BitVector[3])
    def architecture(self):
        @std.concurrent
        def logic():
            self.y <<= self.x

class E(cohdl.Entity):
    a = Port.input(BitVector[4])
    o = Port.output(BitVector[3])
    def architecture(self):
        Sub(x=self.a, y=self.o)
""", verdict="prep", depth=2)
D("r_prep_push", """
class E(cohdl.Entity):
    clk = Port.input(Bit)
    def architecture(self):
        s = Signal[Bit]()
        @std.sequential(std.Clock(self.clk, frequency=std.MHz(50)))
        def proc():
            s.push = True
""", verdict="prep", clk_fail=True)
D("r_prep_handler", """
class E(cohdl.Entity):
    a = Port.input(BitVector[4])
    o = Port.output(BitVector[3])
    def architecture(self):
        @std.concurrent
        def logic():
            with std.exception.StdExceptionHandler(info="while driving o"):
                self.o <<= self.a
""", verdict="prep", eh=1)
D("r_prep_handler_keyerror", """
class E(cohdl.Entity):
    a = Port.input(BitVector[4])
    o = Port.output(BitVector[4])
    def architecture(self):
        @std.concurrent
        def logic():
            with std.exception.StdExceptionHandler(info="while driving o"):
                # rejected by an exception that is NOT an AssertionError (raised by compile-time evaluation)
                k = {"present": 1}["missing"]
                self.o <<= self.a
""", verdict="prep", eh=1)
D("x_needs_ctx", """
class E(cohdl.Entity):
    clk = Port.input(Bit)
    o = Port.output(Bit, default=Null)
    def architecture(self):
        @std.sequential
        async def proc():
            await std.wait_for(std.ns(40))
            self.o <<= ~self.o
""", needs_ctx=True, coro=True, in_call=True)
# ---- rejected by IR generation -----------------------------------------------------------------------
D("r_sm_continue", """
class E(cohdl.Entity):
    clk = Port.input(Bit)
    c = Port.input(Bit)
    d = Port.input(Bit)
    e = Port.input(Bit)
    o = Port.output(Bit, default=Null)
    def architecture(self):
        @std.sequential(std.Clock(self.clk))
        async def proc():
            while self.c:
                if self.d:
                    continue
                await self.e
            self.o <<= True
""", verdict="ir_sm", **CORO)
D("r_sm_continue_call", """
async def spin(c, d, e):
    while c:
        if d:
            continue
        await e

class E(cohdl.Entity):
    clk = Port.input(Bit)
    c = Port.input(Bit)
    d = Port.input(Bit)
    e = Port.input(Bit)
    o = Port.output(Bit, default=Null)
    def architecture(self):
        @std.sequential(std.Clock(self.clk))
        async def proc():
            await spin(self.c, self.d, self.e)
            self.o <<= True
""", verdict="ir_sm", **CORO)
D("r_sm_continue_raw", """
class E(cohdl.Entity):
    clk = Port.input(Bit)
    c = Port.input(Bit)
    d = Port.input(Bit)
    e = Port.input(Bit)
    o = Port.output(Bit, default=Null)
    def architecture(self):
        async def body():
            while self.c:
                if self.d:
                    continue
                await self.e
            self.o <<= True
        coro = body()
        @cohdl.sequential_context
        def proc():
            if cohdl.rising_edge(self.clk):
                cohdl.coroutine_step(coro)
""", verdict="ir_sm", coro=True, in_call=False)
D("r_ir_paths", """
class E(cohdl.Entity):
    clk = Port.input(Bit)
    a = Port.input(Bit)
    o = Port.output(Bit, default=Null)
    def architecture(self):
        async def body():
            await self.a
            self.o <<= True
        coro = body()
        def inner():
            cohdl.coroutine_step(coro)
        def pick(x):
            if x:
                return
            else:
                if self.o:
                    return
            inner()
        @cohdl.sequential_context
        def proc():
            if cohdl.rising_edge(self.clk):
                pick(self.a)
                inner()
""", verdict="ir", in_call=True, in_apply=True)
D("r_an_always_temp", """
class E(cohdl.Entity):
    clk = Port.input(Bit)
    a = Port.input(Bit)
    b = Port.input(Bit)
    o = Port.output(Bit, default=Null)
    p = Port.output(Bit)
    def architecture(self):
        @std.sequential(std.Clock(self.clk))
        def proc():
            t = self.a | self.b
            with cohdl.always:
                self.p <<= t
            self.o <<= self.a
""", verdict="analysis", clk_ok=True)
# ---- rejected by the checks after IR generation ----------------------------------------------------------
D("r_an_temp", """
class E(cohdl.Entity):
    clk = Port.input(Bit)
    a = Port.input(Bit)
    b = Port.input(Bit)
    o = Port.output(Bit, default=Null)
    def architecture(self):
        @std.sequential(std.Clock(self.clk))
        def proc():
            if self.a:
                t = Temporary[Bit](self.b)
            self.o <<= t
""", verdict="analysis", clk_ok=True)
D("r_an_var_conc", """
class E(cohdl.Entity):
    a = Port.input(Bit)
    o = Port.output(Bit)
    def architecture(self):
        v = Variable[Bit]()
        @std.concurrent
        def logic():
            self.o <<= v
""", verdict="analysis")
D("r_an_reused_temp", """
class E(cohdl.Entity):
    clk = Port.input(Bit)
    a = Port.input(Bit)
    o = Port.output(Bit)
    def architecture(self):
        @std.sequential(std.Clock(self.clk))
        async def proc():
            t = self.a | self.a
            await cohdl.true
            self.o <<= t
""", verdict="analysis", **CORO)
D("r_an_write_input", """
class E(cohdl.Entity):
    a = Port.input(Bit)
    o = Port.output(Bit)
    def architecture(self):
        @std.concurrent
        def logic():
            self.a <<= True
""", verdict="analysis")
D("r_an_drivers", """
class E(cohdl.Entity):
    clk = Port.input(Bit)
    a = Port.input(Bit)
    o = Port.output(Bit)
    def architecture(self):
        @std.concurrent
        def logic():
            self.o <<= self.a
        @std.sequential(std.Clock(self.clk))
        def proc():
            self.o <<= ~self.a
""", verdict="analysis", clk_ok=True)
# ---- rejected by the VHDL back end ---------------------------------------------------------------------
D("r_be_inline", """
class Verilog(cohdl._InlineCode):
    pass

class E(cohdl.Entity):
    a = Port.input(Bit)
    o = Port.output(Bit)
    def architecture(self):
        @std.concurrent
        def logic():
            f"{Verilog:assign {self.o} = {self.a!r};}"
""", verdict="backend")
D("r_be_inline_coro", """
class Verilog(cohdl._InlineCode):
    pass

class E(cohdl.Entity):
    clk = Port.input(Bit)
    a = Port.input(Bit)
    o = Port.output(Bit)
    def architecture(self):
        @std.sequential(std.Clock(self.clk))
        async def proc():
            await self.a
            f"{Verilog:assign {self.o} = {self.a!r};}"
""", verdict="backend", **CORO)


def fresh_expect(c):
    """what the design deserves (= outcome in a fresh interpreter): (accepted?, stage)"""
    if c["needs_ctx"]:
        return False, "prep"
    if c["verdict"] == "ok":
        return True, ""
    return False, c["verdict"]


def label(name):
    """class of a design, as used in violation keys"""
    if name.startswith("up:"):
        return "accepted[upstream]"
    c = POOL[name]["cls"]
    ok, st = fresh_expect(c)
    feats = []
    if c["coro"]:
        feats.append("coro")
    if c["clk_ok"] or c["clk_fail"]:
        feats.append("clocked")
    if c["arch_pfx"]:
        feats.append("prefix_arch")
    if c["ctx_pfx"]:
        feats.append("prefix_ctx")
    if c["with"]:
        feats.append("with_prefix")
    if c["depth"] > 1:
        feats.append("sub")
    if c["needs_ctx"]:
        feats.append("needs_ctx")
    if c["eh"]:
        feats.append("handler")
    return ("accepted" if ok else "rejected_" + st) + "[" + ",".join(feats) + "]"


# ----------------------------------------------------------------------------
# Coq terms
# ----------------------------------------------------------------------------

PREAMBLE = ("From Coq Require Import List Bool Arith NArith.\nImport ListNotations.\n"
            "From Cohdl Require Import Models.Hist.\n")
STAGE = {"arch": "SArch", "prep": "SPrep", "ir": "SIr", "ir_sm": "SIrSm", "analysis": "SAnalysis", "backend": "SBackend"}


def cb(b):
    return "true" if b else "false"


def cl(xs):
    return "[" + "; ".join(xs) + "]"


def design_term(c):
    v = "Ok" if c["verdict"] == "ok" else "(Rej %s)" % STAGE[c["verdict"]]
    return "(mkD %d %s %s %s %d %s %s %s %s %s %s %s %d %s)" % (
        c["id"], cl(map(str, c["arch_pfx"])), cl(map(str, c["ctx_pfx"])), cb(c["with"]), c["depth"], cb(c["clk_ok"]),
        cb(c["clk_fail"]), cb(c["ctx_clk"]), cb(c["needs_ctx"]), cb(c["coro"]), cb(c["in_call"]), cb(c["in_apply"]), c["eh"], v)


TOK = re.compile(r"^(?:p(\d+)|(\d+))$")


def parse_pstr(s):
    """'p4_1_p0' -> Coq pstr; None if it is not of that shape"""
    out = []
    for t in s.lower().split("_"):
        m = TOK.match(t)
        if not m:
            return None
        out.append("P %s" % m.group(1) if m.group(1) is not None else "C %s" % m.group(2))
    return cl(out)


def gen_names(names):
    """the generated names `<prefix>_s` among the declared identifiers, as Coq pstr terms"""
    out = []
    for n in names:
        m = re.match(r"^(.*)_s\d*$", n.lower())      # `_s<k>`: the back end renamed a second signal of that name
        if m:
            p = parse_pstr(m.group(1))
            if p is not None:
                out.append(p)
    return out


def used_nat(u):
    m = re.match(r"^p(\d+)$", u.lower())
    return m.group(1) if m else "99999"


def obs_term(st):
    g = st["g"]
    stage = "None" if st["ok"] else ("(Some %s)" % STAGE[st["stage"]] if st["stage"] in STAGE else None)
    if stage is None or not g["al"]:
        return None   # outside the vocabulary of the model: reported as a disagreement
    scope = []
    for pstr, used in g["scl"]:
        p = parse_pstr(pstr)
        if p is None:
            return None
        scope.append("(%s, %s)" % (p, cl(used_nat(u) for u in used)))
    pt = []
    for k, v in g["pt"]:
        p = parse_pstr(k)
        if p is None:
            return None
        pt.append("(%s, %d)" % (p, v))
    return "(mkObs %s %s %s %s %d %s %d %s %s %s %s %d %s %d %s %s %s %d %s %s)" % (
        cb(st["ok"]), stage, cl(gen_names(st["names"])), cb(g["sm"]), g["bs"], cl(scope), g["pe"], cl(pt),
        cb(g["rb"]), cb(g["br"]), cb(g["co"]), g["rs"], cb(g["pf"]), g["inl"],
        cb(g["act"] or g["h1"] or g["h2"]), cb(g["cur"] or g["cd"]), cb(g["fr"]), g["eh"], cb(g["ti"]), cb(g["tt"]))


# ----------------------------------------------------------------------------
# running histories
# ----------------------------------------------------------------------------

class Runner:
    def __init__(self, ck):
        self.ck = ck
        self.dir = os.path.join(ck.gen, "work")
        shutil.rmtree(self.dir, ignore_errors=True)
        os.makedirs(self.dir, exist_ok=True)
        self.pool = {k: {"source": v["source"], "entity": v["entity"], "modname": MODNAME.get(k, k)} for k, v in POOL.items()}
        self.compiles = 0
        self.base = None
        self.tree = None

    def run(self, histories, text=False, hashseed=None):
        """histories: list of lists of design names -> list of step lists (None if the child died)"""
        if not histories:
            return []
        nw = 1 if len(histories) < 64 else min(4, common.NCPU)
        par = max(1, common.NCPU // nw)
        chunks = [list(range(i, len(histories), nw)) for i in range(nw)]
        payloads = [{"dir": self.dir, "pool": self.pool, "par": par,
                     "jobs": [{"id": i, "history": histories[i], "text": text} for i in ch]} for ch in chunks]
        extra = {"PYTHONHASHSEED": str(hashseed)} if hashseed is not None else None
        from concurrent.futures import ThreadPoolExecutor
        with ThreadPoolExecutor(nw) as ex:
            outs = list(ex.map(lambda pl: common.run_worker("c11_worker.py", pl, timeout=6000, env_extra=extra), payloads))
        res = [None] * len(histories)
        for o in outs:
            self.tree = self.tree or o["tree"]
            if o["tree"] != self.tree:
                raise RuntimeError("the tree under test (%s) changed while the check was running; run it again" % common.REPO)
            if hashseed is not None:
                assert o["hashseed"] == str(hashseed), o["hashseed"]
            self.base = self.base or o["base"]
            for r in o["results"]:
                res[r["id"]] = None if r.get("crash") else r["steps"]
                self.compiles += len(r["steps"])
        return res


def outcome_of(st):
    return ("ok", st["sha"]) if st["ok"] else ("rej", "")


def dirty_fields(g, base):
    return sorted(k for k in g if k in base and g[k] != base[k] and k not in ("kd", "ic", "st", "pt", "pe", "ti", "tt"))


def mechanism(prev_g, st, fresh, base):
    """which leaked variable explains the difference (diagnosis only, used in the violation key)"""
    err = st.get("err", "")
    if "nested StatemachineContext" in err:
        return "statemachine_singleton"
    if "already used with this prefix" in err or (prev_g and prev_g["sc"] > 0 and st["ok"] and fresh["ok"]):
        return "prefix_scope"
    if st["ok"] and not fresh["ok"] and (st["g"]["ti"] or st["g"]["tt"]):
        return "stale_entity_template"
    if st["ok"] and not fresh["ok"] and prev_g and prev_g["cur"]:
        return "current_sequential_context"
    if st["ok"] and fresh["ok"] and prev_g and prev_g["bs"] > 0:
        return "block_stack"
    return "unknown"


def minimise_all(runner, fresh_of, items):
    """items: [(history, victim position)] -> for each a minimal history whose last compilation (the victim) still
    differs from its fresh outcome.  Delta debugging, all candidates of a round in ONE worker call:
    round 1 = every single predecessor, round 2 = every ordered pair of predecessors, then greedy single removals
    (1-minimal)."""
    victims = [h[pos] for h, pos in items]
    cur = [list(h[:pos]) for h, pos in items]
    want = [outcome_of(fresh_of(v)) for v in victims]
    done = [False] * len(items)

    def fails(i, steps):
        return steps is not None and len(steps) > 0 and outcome_of(steps[-1]) != want[i]

    def distinct(seqs):
        seen, out = set(), []
        for q in seqs:
            if tuple(q) not in seen:
                seen.add(tuple(q))
                out.append(q)
        return out

    for size in (1, 2):
        batch, owner = [], []
        for i in range(len(items)):
            if done[i] or len(cur[i]) <= size:
                continue
            for q in distinct([list(c) for c in itertools.combinations(cur[i], size)]):
                batch.append(q + [victims[i]])
                owner.append((i, q))
        for (i, q), steps in zip(owner, runner.run(batch)):
            if not done[i] and fails(i, steps):
                cur[i], done[i] = q, True
    while True:
        batch, owner = [], []
        for i in range(len(items)):
            if done[i]:
                continue
            for j in range(len(cur[i])):
                batch.append(cur[i][:j] + cur[i][j + 1:] + [victims[i]])
                owner.append((i, j))
        if not batch:
            break
        progressed = set()
        for (i, j), steps in zip(owner, runner.run(batch)):
            if i not in progressed and fails(i, steps):
                cur[i] = cur[i][:j] + cur[i][j + 1:]
                progressed.add(i)
        for i in range(len(items)):
            if not done[i] and i not in progressed:
                done[i] = True
    return [c + [v] for c, v in zip(cur, victims)]


# ----------------------------------------------------------------------------
# history generation
# ----------------------------------------------------------------------------

# regression histories: one group per mechanism that used to poison the interpreter (repaired by the fix: commits
# 73c9e08 72ebcaa 215d68c 5bdcba1 36732b7; Examples C11_before_fixes_* / C11_current_regressions in the Props file)
CORPUS = [
    # two revisions of one design file under the same module name (same definition sites, different bodies)
    ["a_rev1", "a_rev2"], ["a_rev2", "a_comb", "a_rev1", "a_rev2"],
    # (i) statemachine singleton
    ["r_sm_continue", "a_coro"],
    ["a_coro", "r_sm_continue", "a_comb", "a_coro", "a_sub_coro"],
    ["r_sm_continue_raw", "a_coro_raw", "a_coro"],
    # enumeration literals reserved by one compilation must not rename objects of the next
    ["a_enum", "a_named_like_literals"], ["a_coro", "a_named_like_literals", "a_enum", "a_named_like_literals"],
    # a rejection that is no AssertionError inside a compile-time `with`
    ["r_prep_handler_keyerror", "a_handler", "a_comb"], ["a_handler", "r_prep_handler_keyerror", "r_prep_handler", "a_handler"],
    # (ii) block stack + prefix table
    ["r_prep_width", "a_pfx_ctx", "a_pfx_ctx"],
    ["a_pfx_ctx", "r_prep_sub", "a_pfx_ctx", "a_pfx_ctx2", "a_pfx_arch", "a_pfx_ctx"],
    # (iii) prefix scope
    ["r_prep_in_with", "a_pfx_arch", "a_pfx_arch", "a_pfx_with", "a_pfx_with_ctx", "a_pfx_ctx"],
    ["r_prep_in_with", "r_prep_in_with", "a_pfx_ctx", "r_prep_in_with"],
    # (iv) current sequential context
    ["x_needs_ctx", "r_prep_clk", "x_needs_ctx", "a_seq", "x_needs_ctx"],
    ["r_prep_coro", "r_prep_after_clk", "x_needs_ctx", "r_prep_push", "x_needs_ctx"],
    # (v) stale entity template
    ["r_arch_raise", "r_arch_raise", "r_arch_raise", "a_comb"],
    ["r_arch_sub", "a_sub", "r_arch_sub", "r_arch_in_with", "r_arch_in_with"],
    # returned_blocks / _current_frame / handler list (harmless for later outcomes)
    ["r_ir_paths", "a_call_ret", "r_an_always_temp", "a_call_ret", "r_prep_handler", "a_handler", "r_prep_handler"],
    # repetition of accepted designs, caches
    ["a_types", "a_types", "a_inline", "a_inline", "a_sub2", "a_sub2", "a_two_coro", "a_two_coro", "a_waitfor",
     "a_waitfor", "a_pfx_mixed", "a_pfx_mixed"],
    # only designs whose rejection leaves nothing behind
    ["r_an_temp", "r_an_var_conc", "r_an_reused_temp", "r_an_write_input", "r_an_drivers", "r_be_inline",
     "r_be_inline_coro", "a_coro", "a_pfx_ctx", "x_needs_ctx"],
]


def class_representatives():
    """one pool design per distinct value of the model's design class (identity excluded)"""
    seen, out = set(), []
    for n in ORDER:
        c = dict(POOL[n]["cls"])
        c.pop("id")
        k = json.dumps(c, sort_keys=True)
        if k not in seen:
            seen.add(k)
            out.append(n)
    return out


def make_histories(ck):
    rng = ck.rng
    hs = [list(h) for h in CORPUS]
    hs += [[n] for n in ORDER]                      # every design alone (= the fresh outcomes, tied to the model too)
    hs += [[n, n] for n in ORDER]                   # compiled twice
    harmless = [n for n in ORDER if POOL[n]["cls"]["verdict"] in ("ok", "analysis", "backend") and not POOL[n]["cls"]["needs_ctx"]]
    if ck.tier == "quick":
        for i in range(60):
            n = rng.randint(2, 12)
            src = harmless if i % 5 == 4 else ORDER
            hs.append([rng.choice(src) for _ in range(n)])
        ck.cov["exhaustive"] = False
    else:
        hs += [list(t) for t in itertools.product(ORDER, repeat=2)]
        reps = class_representatives()
        hs += [list(t) for t in itertools.product(reps, repeat=3)]
        for i in range(300):
            n = rng.randint(4, 12)
            src = harmless if i % 5 == 4 else ORDER
            hs.append([rng.choice(src) for _ in range(n)])
        ck.cov["exhaustive"] = True
        ck.cov["exhaustive_space"] = ("all histories of length <= 2 over the %d pool designs and all histories of length 3 "
                                      "over one representative per distinct design class (%d)" % (len(ORDER), len(reps)))
    # dedupe, keep order
    seen, out = set(), []
    for h in hs:
        k = tuple(h)
        if k not in seen:
            seen.add(k)
            out.append(h)
    return out


# ----------------------------------------------------------------------------
# the check
# ----------------------------------------------------------------------------

def run(ck: common.Check, replay=None):
    ck.check_props("C11_Properties.v")
    model = os.environ.get("C11_MODEL", "current")
    cfun = MODELS[model]
    ck.cov["model"] = model
    ck.trusted += [
        "Models/Hist.v as the rendering of the set/restore discipline of the compiler's module and class level state",
        "c11_worker.py: reading the real globals after every compilation, stage classification of a rejection from "
        "the traceback frames, sha256 of the output",
        "harness/c11.py: the class (Hist.design) declared for each pool design; parsing of generated names",
        "a forked child of an interpreter that has only imported cohdl stands for a fresh interpreter in the history "
        "runs (the hash seed runs start real interpreters)",
    ]
    ck.assumptions += [
        "histories range over a fixed pool of %d designs (one or more per design class); the Coq theorems quantify "
        "over all histories of all designs of the model" % len(ORDER),
        "a repeated design is the same entity class object (module executed once per interpreter)",
        "hash seeds: three values, a differential test only (DESIGN.md section 8)",
    ]
    runner = Runner(ck)
    import time
    phases = ck.cov.setdefault("phase_s", {})
    t_last = [time.time()]

    def phase(name):
        now = time.time()
        phases[name] = round(phases.get(name, 0) + now - t_last[0], 1)
        t_last[0] = now

    # ---- replay of one recorded violation ------------------------------------------------------------------
    if replay is not None:
        if "history" not in replay:
            return
        h = replay["history"]
        for n in h:
            if not n.startswith("up:") and n not in POOL:
                runner.pool[n] = replay["sources"][n]
        fr = runner.run([[h[-1]]], text=True)[0]
        rs = runner.run([h], text=True)[0]
        ck.evaluations += len(h) + 1
        bad = fr is None or rs is None or outcome_of(rs[-1]) != outcome_of(fr[-1])
        ck.obligation(not bad)
        if bad:
            ck.violation(replay.get("key", {"replay": "history"}), replay.get("what", "outcome depends on the history"),
                         {"history": h, "sources": replay.get("sources"), "fresh": fr and fr[-1], "after_history": rs and rs[-1]})
        return

    # ---- fresh outcomes -------------------------------------------------------------------------------------
    fresh_runs = runner.run([[n] for n in ORDER], text=True)
    fresh = {}
    for n, steps in zip(ORDER, fresh_runs):
        c = POOL[n]["cls"]
        ok_pool = steps is not None and (steps[0]["ok"], steps[0]["stage"]) == fresh_expect(c)
        ck.obligation(ok_pool)
        ck.evaluations += 1
        if not ok_pool:
            got = steps and {k: steps[0][k] for k in ("ok", "stage", "err")}
            ck.violation({"pool": n}, "pool design no longer has its declared outcome in a fresh interpreter "
                         "(expected %r); the design classes of the correspondence no longer check" % (fresh_expect(c),),
                         {"design": n, "source": POOL[n]["source"], "got": got}, no_input=True)
        fresh[n] = steps[0] if steps else {"ok": None, "sha": None, "stage": "?"}
        ck.hist("pool_classes", label(n))
    ck.cov["pool_size"] = len(ORDER)
    ck.cov["pool_accepted"] = sum(1 for n in ORDER if fresh[n]["ok"])
    phase("fresh")
    # ---- histories -------------------------------------------------------------------------------------------
    hists = make_histories(ck)
    results = runner.run(hists)
    phase("histories")
    ck.cov["histories"] = len(hists)
    ck.cov["history_length_max"] = max(len(h) for h in hists)

    # (a) model tie inside Coq
    designs = "\n".join("Definition D_%s := %s." % (n, design_term(POOL[n]["cls"])) for n in ORDER)
    pre = PREAMBLE + designs + "\n"
    terms, tidx, untied = [], [], []
    for hi, (h, steps) in enumerate(zip(hists, results)):
        if steps is None or len(steps) != len(h):
            untied.append(hi)
            continue
        obs = [obs_term(st) for st in steps]
        if any(o is None for o in obs):
            untied.append(hi)
            continue
        terms.append(cl("(D_%s, %s)" % (n, o) for n, o in zip(h, obs)))
        tidx.append(hi)
    bad = set(common.coq_bad_indices(ck, "hist", pre, "list (design * obs)", terms, "hist_ok %s" % cfun, shard=250))
    bad_h = {tidx[i] for i in bad} | set(untied)
    phase("coq_tie")

    # two fresh interpreter images give the same outcome (the single-design histories are a second fresh run)
    for h, steps in zip(hists, results):
        if len(h) == 1 and h[0] in fresh:
            same = steps is not None and outcome_of(steps[0]) == outcome_of(fresh[h[0]])
            ck.obligation(same)
            if not same:
                ck.violation({"mechanism": "nondeterminism", "after": "nothing", "victim": label(h[0])},
                             "two fresh interpreters give different outcomes",
                             {"history": h, "sources": {h[0]: runner.pool[h[0]]}})

    # (b) the specification on the real results
    groups = {}      # (victim, kind, err) -> (len, hi, pos)
    n_steps = 0
    for hi, (h, steps) in enumerate(zip(hists, results)):
        if steps is None:
            ck.obligation(False)
            ck.violation({"after": "history", "victim": "interpreter"}, "the interpreter died while running a history",
                         {"history": h, "sources": {n: runner.pool[n] for n in set(h)}})
            continue
        spec_ok = True
        for pos, st in enumerate(steps):
            n_steps += 1
            ck.evaluations += 1
            f = fresh[st["name"]]
            if outcome_of(st) != outcome_of(f):
                spec_ok = False
                kind = ("accepted_instead_of_rejected" if st["ok"] and not f["ok"] else
                        "rejected_instead_of_accepted" if f["ok"] and not st["ok"] else "different_output")
                prev_g = steps[pos - 1]["g"] if pos else None
                gk = (label(st["name"]), kind, mechanism(prev_g, st, f, runner.base))
                if gk not in groups or groups[gk][0] > pos:
                    groups[gk] = (pos, hi, pos)
            ck.hist("outcome", "accepted" if st["ok"] else "rejected_" + st["stage"])
        ck.obligation(spec_ok and hi not in bad_h)
        ck.hist("history_length", len(h))
        dirty = dirty_fields(steps[-1]["g"], runner.base)
        ck.hist("leaked_state_at_end", ",".join(dirty) or "clean")
        if len(set(h)) >= 2:
            ck.nontrivial(h)
        if hi % 37 == 0:
            ck.sample({"history": h, "outcomes": [("ok:" + s["sha"][:8]) if s["ok"] else "rej:" + s["stage"] for s in steps],
                       "leaked": dirty})
    ck.cov["compilations_in_histories"] = n_steps

    # monotone caches (never shrink, never decide anything: C11_caches_transparent)
    for h, steps in zip(hists, results):
        if steps:
            seq = [(s["g"]["kd"], s["g"]["st"], s["g"]["ic"]) for s in steps]
            mono = all(all(a <= b for a, b in zip(x, y)) for x, y in zip(seq, seq[1:]))
            ck.obligation(mono)
            if not mono:
                ck.violation({"caches": "shrink"}, "a cache of the compiler shrank during a history (model: monotone counter)",
                             {"history": h, "caches": seq}, no_input=True)

    # violations: one per (poisoning class, victim class, mechanism), shown on a 1-minimal history
    reported = {}
    glist = sorted(groups.items(), key=lambda kv: (kv[1][0], kv[0]))[:40]
    minis = minimise_all(runner, lambda n: fresh[n], [(hists[hi], pos) for _, (_, hi, pos) in glist])
    finals = runner.run(minis, text=True)
    for (gk, (_, hi, pos)), mini, rs in zip(glist, minis, finals):
        h = hists[hi]
        if rs is None or outcome_of(rs[-1]) == outcome_of(fresh[mini[-1]]):
            mini, rs = h[:pos + 1], runner.run([h[:pos + 1]], text=True)[0]
        prev_g = rs[-2]["g"] if len(rs) >= 2 else None
        mech = mechanism(prev_g, rs[-1], fresh[mini[-1]], runner.base)
        after = label(mini[0]) if len(mini) > 1 else "nothing"
        f = fresh[mini[-1]]
        kind = ("accepted_instead_of_rejected" if rs[-1]["ok"] and not f["ok"] else
                "rejected_instead_of_accepted" if f["ok"] and not rs[-1]["ok"] else "different_output")
        key = {"mechanism": mech, "after": after, "victim": label(mini[-1]), "kind": kind}
        kk = json.dumps(key, sort_keys=True)
        if kk in reported:
            continue
        reported[kk] = True
        what = ("%s: after %s the design %s is %s (fresh interpreter: %s)" % (
            mech, " -> ".join(mini[:-1]) or "nothing", mini[-1],
            ("accepted, sha " + rs[-1]["sha"][:12] + ", names " + ",".join(n for n in rs[-1]["names"] if re.search(r"_s\d*$", n)))
            if rs[-1]["ok"] else "rejected: " + rs[-1]["err"][:90],
            ("accepted, sha " + f["sha"][:12]) if f["ok"] else "rejected: " + f["err"][:90]))
        ck.violation(key, what, {
            "history": mini, "found_in": h, "sources": {n: runner.pool[n] for n in set(mini)},
            "expected": {k: f.get(k) for k in ("ok", "sha", "stage", "err", "names")},
            "observed": {k: rs[-1].get(k) for k in ("ok", "sha", "stage", "err", "names")},
            "state_before_victim": prev_g and {k: prev_g[k] for k in dirty_fields(prev_g, runner.base)},
            "vhdl_fresh": f.get("vhdl"), "vhdl_after_history": rs[-1].get("vhdl"),
            "python": "PYTHONPATH=/repo /venv/bin/python - <<'EOF'\n# write each entry of `sources` to m_<name>.py, then:\n"
                      "from cohdl import std; import importlib\nfor n in %r:\n    try: print(n, hash(std.VhdlCompiler.to_string("
                      "importlib.import_module('m_'+n).E)))\n    except BaseException as e: print(n, 'REJECTED', e)\nEOF" % (mini,)})

    phase("minimise_and_report")
    # model disagreements that are not explained by a specification violation in the same history
    for hi in sorted(bad_h, key=lambda i: (len(hists[i]), i))[:6]:      # the shortest ones; all are counted above
        h, steps = hists[hi], results[hi]
        if steps is None:
            continue
        spec_bad = any(outcome_of(s) != outcome_of(fresh[s["name"]]) for s in steps)
        # locate the first step where the model departs
        lo = None
        for k in range(1, len(h) + 1):
            obs = [obs_term(st) for st in steps[:k]]
            if any(o is None for o in obs):
                lo = k
                break
        ck.violation({"correspondence": "Hist.%s" % cfun, "first": label(h[0]), "last": label(h[-1]),
                      "spec_violated_too": spec_bad},
                     "Models/Hist.v (%s) and the real compiler's global state / outcome differ on this history%s" % (
                         cfun, "" if spec_bad else "; the specification holds on it (model out of date)"),
                     {"history": h, "steps": [{k: s[k] for k in ("name", "ok", "stage", "err", "names", "g")} for s in steps],
                      "outside_model_vocabulary_at": lo}, no_input=True)

    # ---- mixed histories with upstream reference designs (specification only) ----------------------------------
    ups = upstream_modules()
    n_mixed = 6 if ck.tier == "quick" else 150
    rejected = [n for n in ORDER if not fresh[n]["ok"]]
    mixed = []
    if ups:
        for i in range(n_mixed):
            k = ck.rng.randint(3, 5)
            h = []
            for j in range(k):
                h.append("up:" + ck.rng.choice(ups) if j % 2 == 0 else ck.rng.choice(rejected if i % 3 else ORDER))
            mixed.append(h)
        used_up = sorted({n for h in mixed for n in h if n.startswith("up:")})
        up_fresh = {n: (s[0] if s else None) for n, s in zip(used_up, runner.run([[n] for n in used_up]))}
        mres = runner.run(mixed)
        seen_up, todo = {}, []
        for h, steps in zip(mixed, mres):
            ok = steps is not None
            for pos, st in enumerate(steps or []):
                ck.evaluations += 1
                f = up_fresh.get(st["name"]) if st["name"].startswith("up:") else fresh[st["name"]]
                if f is None or not st["name"].startswith("up:") or not f["ok"]:
                    continue
                if outcome_of(st) != outcome_of(f):
                    ok = False
                    prev_g = steps[pos - 1]["g"] if pos else None
                    mech = mechanism(prev_g, st, f, runner.base)
                    key = {"mechanism": mech, "after": "history", "victim": "accepted[upstream]",
                           "kind": "rejected_instead_of_accepted" if not st["ok"] else "different_output"}
                    kk = json.dumps(key, sort_keys=True)
                    if kk not in seen_up:
                        seen_up[kk] = True
                        todo.append((key, h, pos, st))
            ck.obligation(ok)
            ck.nontrivial(h)
        if todo:
            fr = dict(fresh)
            fr.update(up_fresh)
            minis = minimise_all(runner, lambda n: fr[n], [(h, pos) for _, h, pos, _ in todo])
            for (key, h, pos, st), mini in zip(todo, minis):
                key = dict(key, after=label(mini[0]) if len(mini) > 1 else "nothing")
                ck.violation(key, "%s: upstream design %s compiled after %s is %s" % (
                    key["mechanism"], st["name"][3:], " -> ".join(mini[:-1]),
                    "rejected: " + st["err"][:90] if not st["ok"] else "different from the fresh output"),
                    {"history": mini, "found_in": h, "sources": {n: runner.pool[n] for n in set(mini) if n in runner.pool}})
        ck.cov["mixed_histories_with_upstream_designs"] = len(mixed)

    phase("mixed_upstream")
    # ---- (c) hash seeds ------------------------------------------------------------------------------------
    acc = [n for n in ORDER if fresh[n]["ok"]]
    n_up = 8 if ck.tier == "quick" else len(ups)
    up_sel = ["up:" + m for m in (ups if n_up >= len(ups) else ck.rng.sample(ups, n_up))]
    seeds = [0, 1, 2 + (ck.seed * 7919 + 12345) % 4294967290]
    per_seed = {}
    for s in seeds:
        rs = runner.run([[n] for n in acc + up_sel], hashseed=s)
        per_seed[s] = {n: (st[0] if st else None) for n, st in zip(acc + up_sel, rs)}
    hs_ok = hs_n = 0
    for n in acc + up_sel:
        outs = [per_seed[s][n] and outcome_of(per_seed[s][n]) for s in seeds]
        if n.startswith("up:") and outs[0] and outs[0][0] == "rej":
            continue   # not compilable without its test environment
        hs_n += 1
        same = all(o == outs[0] for o in outs) and outs[0] is not None
        hs_ok += same
        ck.evaluations += len(seeds)
        if not same:
            ck.violation({"mechanism": "hash_seed", "after": "nothing", "victim": label(n), "design": n},
                         "output depends on PYTHONHASHSEED", {"design": n, "seeds": seeds, "outcomes": outs,
                                                              "source": runner.pool.get(n)})
    ck.cov["hashseed_differential"] = {"seeds": seeds, "designs": hs_n, "identical": hs_ok,
                                       "pool_designs": len(acc), "upstream_designs": hs_n - len(acc),
                                       "note": "a differential test, not a discharged proof obligation"}

    phase("hashseeds")
    ck.cov["compilations_total"] = runner.compiles
    ck.cov["rule"] = ("a history = sequence of pool designs compiled in one interpreter image; corpus (one per known leak "
                      "mechanism) + every design alone and twice + seeded random histories (quick) / all histories of "
                      "length <= 3 (thorough); non-trivial = history with at least two distinct designs, distinct by "
                      "its sequence; every step is compared with the fresh-interpreter outcome of its design (spec) and "
                      "with Hist.%s (state and outcome, inside Coq)" % cfun)
    shutil.rmtree(runner.dir, ignore_errors=True)


def upstream_modules():
    root = os.path.join(common.REPO, "tests", "reference_builds")
    out = []
    for dp, dn, fs in sorted(os.walk(root)):
        dn.sort()
        for f in sorted(fs):
            if f.startswith("test_") and f.endswith(".py"):
                rel = os.path.relpath(os.path.join(dp, f), os.path.join(common.REPO, "tests"))
                out.append(rel[:-3].replace(os.sep, "."))
    return out
