"""C20 layout worker: runs the REAL cohdl.std.reg / Axi4Light.connect_addr_map code on generated register maps.

stdin : {"cases": [{"src": python source defining class Root, "leaves": [python expressions over `root`],
                    "init": [word per leaf, in `leaves` order], "W": address width,
                    "writes": [[addr, data, strb], ...], "reads": [addr, ...]}, ...]}
stdout: one JSON line {"results": [...]}; per case
   {"ok": false, "stage": "define"|"instantiate"|"connect"|"access", "error": type name, "msg": text}   or
   {"ok": true,
    "flat":   [[global offset, word count], ...]   addr_map._flatten_() (the order connect_addr_map tests the registers in)
    "leaf_off": [global offset per leaf expression], "leaf_pos": [index of that leaf object in flat],
    "state0": [word per flat register after the initial values were poked],
    "writes": [{"hit": index in flat of the register whose _basic_write_ ran or null, "state": [word per flat register]}, ...],
    "reads":  [{"hit": index or null, "data": word}, ...]}

No compilation: the register map is instantiated with the real classes, `connect_addr_map` itself is called with the
SequentialContext of its module replaced by a recorder, and the REAL closures proc_write / proc_read it defines are run
as plain Python coroutines on constant-valued signals (cohdl signals take `<<=` immediately outside a compilation);
only the two channel methods (await_*_request / send_*) are stand-ins.  `cohdl.Variable(...)` inside
connect_addr_map is given its run-time meaning by a two-line shim (a bare Variable supports no operators outside a
compilation, a typed one ignores `@=`)."""
from __future__ import annotations
import json
import sys
import types

import cohdl
from cohdl import BitVector, Unsigned, Signal, Null
from cohdl import std
from cohdl.std.reg import reg32
from cohdl.std.axi.axi4_light import base as axibase
from cohdl.std.axi.axi4_light import Axi4Light


class Recorder:
    """stands for SequentialContext(clk, reset): records the decorated processes"""

    def __init__(self, clk=None, reset=None):
        self.procs = {}
        Recorder.last = self

    def __call__(self, fn):
        self.procs[fn.__name__] = fn
        return fn


class _EagerVar:
    """Variable[T](init) with immediate `@=`"""

    def __init__(self, T, init):
        self.sig = Signal[T](init)

    def __imatmul__(self, other):
        self.sig <<= other
        return self


class _VarMeta(type):
    def __getitem__(cls, T):
        return lambda init=None: _EagerVar(T, init)


class _Var(metaclass=_VarMeta):
    def __new__(cls, x):
        return cohdl.TypeQualifier.decay(x)


class _CohdlProxy:
    def __getattr__(self, n):
        if n == "Variable":
            return _Var
        return getattr(cohdl, n)


axibase.SequentialContext = Recorder
axibase.cohdl = _CohdlProxy()


class Done(Exception):
    pass


class Channels:
    clk = None
    reset = None

    async def await_write_request(self):
        return self.wreq

    async def send_write_response(self, resp=Null):
        raise Done()

    async def await_read_request(self):
        return self.rreq

    async def send_read_resp(self, data, resp=Null):
        self.rdata = data
        raise Done()


def to_int(x):
    if isinstance(x, _EagerVar):
        x = x.sig
    v = cohdl.TypeQualifier.decay(x)
    if isinstance(v, cohdl.Bit):
        return 1 if v else 0
    s = str(v.bitvector) if hasattr(v, "bitvector") else str(v)
    if not set(s) <= set("01"):
        raise ValueError("non-binary value " + s)
    return int(s, 2)


def word_of(reg):
    if hasattr(reg, "_to_bits_"):
        return to_int(reg._to_bits_())
    if hasattr(reg, "raw"):
        return to_int(reg.raw)
    return 0


def typed(target, width, val):
    """the unsigned bit pattern `val` as a value of the target's vector type"""
    T = type(cohdl.TypeQualifier.decay(target))
    if issubclass(T, cohdl.Signed):
        return cohdl.Signed[width](val - (1 << width) if val >> (width - 1) else val)
    if issubclass(T, Unsigned):
        return Unsigned[width](val)
    return BitVector[width](Unsigned[width](val))


def poke(reg, word):
    """initial value of a register object (hardware side assignment)"""
    if hasattr(reg, "_fields_"):
        for f in reg._fields_.values():
            a = f._field_arg
            val = (word >> a.offset) & ((1 << a.width) - 1)
            if a.is_bit:
                f._value <<= bool(val)
            else:
                f._value <<= typed(f._value, a.width, val)
    elif hasattr(reg, "raw"):
        reg.raw <<= typed(reg.raw, 32, word)


def run_case(idx, c):
    name = "c20l_case_%d" % idx
    mod = types.ModuleType(name)
    sys.modules[name] = mod
    stage = "define"
    try:
        exec(compile("from __future__ import annotations\nfrom cohdl import Null, BitVector, Unsigned, Signed\n"
                     "from cohdl.std.reg import reg32\n" + c["src"], name, "exec"), mod.__dict__)
        stage = "instantiate"
        root = mod.Root()
        stage = "connect"
        ch = Channels()
        Axi4Light.connect_addr_map(ch, root)
        procs = Recorder.last.procs
        flat = root._flatten_()
        pos = {id(r): i for i, r in enumerate(flat)}
        leaves = [eval(e, {"root": root}) for e in c["leaves"]]
        log = []

        def wrap(i, r):
            rw, rr = r._basic_write_, r._basic_read_

            async def w(*a, **k):
                log.append(i)
                return await std.as_awaitable(rw, *a, **k)

            async def rd(*a, **k):
                log.append(i)
                return await std.as_awaitable(rr, *a, **k)

            r._basic_write_, r._basic_read_ = w, rd

        for i, r in enumerate(flat):
            wrap(i, r)
        stage = "access"
        for r, w0 in zip(leaves, c["init"]):
            poke(r, w0)
        out = {"ok": True, "flat": [[int(r._global_offset_), int(r._word_count_)] for r in flat],
               "leaf_off": [int(r._global_offset_) for r in leaves], "leaf_pos": [pos.get(id(r), -1) for r in leaves],
               "state0": [word_of(r) for r in flat], "writes": [], "reads": []}
        W = c["W"]

        def drive(co):
            try:
                co.send(None)
            except Done:
                return
            raise RuntimeError("process suspended")

        for a, d, s in c["writes"]:
            del log[:]
            ch.wreq = Axi4Light._WriteRequest(Signal[BitVector[W]](Unsigned[W](a)), None, BitVector[32](Unsigned[32](d)),
                                              BitVector[4](Unsigned[4](s)))
            drive(procs["proc_write"]())
            if len(log) > 1:
                raise RuntimeError("more than one register written")
            out["writes"].append({"hit": log[0] if log else None, "state": [word_of(r) for r in flat]})
        for a in c["reads"]:
            del log[:]
            ch.rreq = Axi4Light._ReadRequest(Signal[BitVector[W]](Unsigned[W](a)), None)
            drive(procs["proc_read"]())
            if len(log) > 1:
                raise RuntimeError("more than one register read")
            out["reads"].append({"hit": log[0] if log else None, "data": to_int(ch.rdata)})
        return out
    except BaseException as e:   # noqa: the real code raises AssertionError, AttributeError, ValueError, TypeError ...
        return {"ok": False, "stage": stage, "error": type(e).__name__, "msg": str(e)[:200]}
    finally:
        sys.modules.pop(name, None)


def main():
    payload = json.load(sys.stdin)
    res = [run_case(i, c) for i, c in enumerate(payload["cases"])]
    sys.stdout.write("\n" + json.dumps({"results": res}) + "\n")


if __name__ == "__main__":
    main()
