"""C04 - equivalence pairs: two renderings of the same reset behaviour through the REAL compiler must have the same
trace for ALL input sequences (kernel-checked `dcheck_s_sound`, the template of C12).

The right-hand rendering only uses forms whose reset behaviour the reference-machine cases of c04.py decide
(primitive objects with `noreset=True`, `std.sequential(clk, reset, on_reset=..., step_cond=...)` written out);
the left-hand rendering reaches the same behaviour through library plumbing:
  * `std.NoresetSignal[T]` / `std.NoresetVariable[T]` for primitive AND compound (std.Record, nested) types,
  * a `std.SequentialContext` object and contexts derived from it with `with_params(...)` (on_reset / step_cond
    inherited or overridden)."""
from __future__ import annotations
import os

import common
import explore as X
import vhdl_reader as R
import c12

HEAD = """from __future__ import annotations
import cohdl
from cohdl import Bit, BitVector, Port, Unsigned, Null, Signal, Variable
from cohdl import std


class Rec(std.Record):
    f: Bit
    n: Unsigned[2]


class Outer(std.Record):
    g: Bit
    inner: Rec


class E(cohdl.Entity):
    clk = Port.input(Bit)
    rst = Port.input(Bit)
    en = Port.input(Bit)
    a = Port.input(Bit)
    b = Port.input(Unsigned[2])
    o0 = Port.output(Bit)
    o1 = Port.output(Unsigned[2])
    o2 = Port.output(Bit)
    o3 = Port.output(Unsigned[2], default=Null)

    def architecture(self):
"""


def reset_args(is_async, low):
    parts = ["self.rst"]
    if is_async:
        parts.append("is_async=True")
    if low:
        parts.append("active_low=True")
    return "std.Reset(" + ", ".join(parts) + ")"


def body(lines):
    return "".join("        " + l + "\n" for l in lines)


def pairs(is_async, low):
    rs = reset_args(is_async, low)
    ctx = f"std.Clock(self.clk), {rs}"
    out = []
    # ---- noreset objects ------------------------------------------------------------------------------------
    tail = ["@std.concurrent", "def show():", "    self.o0 <<= {f}", "    self.o1 <<= {n}", "    self.o2 <<= {g}"]

    def nr(name, decl_l, decl_r, acc_l, acc_r):
        proc = ["@std.sequential(%s)" % ctx, "def proc():", "    if self.en:", "        {f}.next = self.a", "        {n}.next = {n} + self.b",
                "        {g}.next = {g} ^ self.a", "    self.o3 <<= self.o3 + 1"]
        def render(decl, acc):
            return HEAD + body(decl + [l.format(**acc) for l in proc] + [l.format(**acc) for l in tail])
        out.append((name, render(decl_l, acc_l), render(decl_r, acc_r)))

    prim = {"f": "pf", "n": "pn", "g": "pg"}
    prim_decl_nr = ["pf = Signal[Bit](True, noreset=True)", "pn = Signal[Unsigned[2]](2, noreset=True)", "pg = Signal[Bit](False, noreset=True)"]
    prim_decl_rs = ["pf = Signal[Bit](True)", "pn = Signal[Unsigned[2]](2)", "pg = Signal[Bit](False)"]
    nr("noreset_primitive_wrapper",
       ["pf = std.NoresetSignal[Bit](True)", "pn = std.NoresetSignal[Unsigned[2]](2)", "pg = std.NoresetSignal[Bit](False)"], prim_decl_nr, prim, prim)
    nr("noreset_record",
       ["r = std.NoresetSignal[Rec](f=True, n=2)", "pg = std.NoresetSignal[Bit](False)"], prim_decl_nr,
       {"f": "r.f", "n": "r.n", "g": "pg"}, prim)
    nr("noreset_nested_record",
       ["r = std.NoresetSignal[Outer](g=False, inner=Rec(f=True, n=2))"], prim_decl_nr,
       {"f": "r.inner.f", "n": "r.inner.n", "g": "r.g"}, prim)
    nr("resettable_record",
       ["r = std.Signal[Rec](f=True, n=2)", "pg = Signal[Bit](False)"], prim_decl_rs,
       {"f": "r.f", "n": "r.n", "g": "pg"}, prim)
    # ---- derived contexts -----------------------------------------------------------------------------------
    common_decl = ["s = Signal[Unsigned[2]](1)", "t = Signal[Bit](False)",
                   "def load():", "    s.next = 2", "    t.next = True",
                   "def load2():", "    s.next = 3"]
    show = ["@std.concurrent", "def show():", "    self.o0 <<= t", "    self.o1 <<= s", "    self.o2 <<= self.a"]
    work = ["    s.next = s + self.b", "    t.next = t ^ self.a", "    self.o3 <<= self.o3 + 1"]

    def cx(name, left, right):
        out.append((name, HEAD + body(common_decl + left + work + show), HEAD + body(common_decl + right + work + show)))

    cx("with_params_keeps_on_reset",
       [f"ctx = std.SequentialContext({ctx}, on_reset=load)", "@ctx.with_params(step_cond=lambda: self.en)", "def proc():"],
       [f"@std.sequential({ctx}, on_reset=load, step_cond=lambda: self.en)", "def proc():"])
    cx("with_params_overrides_on_reset",
       [f"ctx = std.SequentialContext({ctx}, on_reset=load)", "@ctx.with_params(on_reset=load2)", "def proc():"],
       [f"@std.sequential({ctx}, on_reset=load2)", "def proc():"])
    cx("context_object_direct",
       [f"ctx = std.SequentialContext({ctx}, on_reset=load, step_cond=lambda: self.en)", "@ctx", "def proc():"],
       [f"@std.sequential({ctx}, on_reset=load, step_cond=lambda: self.en)", "def proc():"])
    cx("context_call_adds_on_reset",
       [f"ctx = std.SequentialContext({ctx})", "@ctx(on_reset=load)", "def proc():"],
       [f"@std.sequential({ctx}, on_reset=load)", "def proc():"])
    return out


def run_pairs(ck: common.Check):
    variants = [(False, False), (True, False)] if ck.tier == "quick" else [(a, l) for a in (False, True) for l in (False, True)]
    designs, metas = [], []
    for is_async, low in variants:
        for name, left, right in pairs(is_async, low):
            tag = f"pair_{name}_{'async' if is_async else 'sync'}_{'low' if low else 'high'}"
            designs.append({"name": tag + "_l", "source": left, "entity": "E"})
            designs.append({"name": tag + "_r", "source": right, "entity": "E"})
            metas.append((tag, name, is_async, low, left, right))
    res = X.compile_designs(ck, designs)
    files = []
    for k, (tag, name, is_async, low, left, right) in enumerate(metas):
        rl, rr = res[2 * k], res[2 * k + 1]
        ck.evaluations += 1
        ck.hist("pairs", name)
        if not rr["ok"]:
            # the written-out rendering must compile: otherwise the pair says nothing
            ck.obligation(False)
            ck.violation({"pair": name, "side": "reference rendering"}, "the written-out rendering no longer compiles: " + rr["error"][:200],
                         {"source": right, "error": rr.get("trace", rr["error"])}, no_input=True)
            continue
        if not rl["ok"]:
            # rejecting the library form is allowed by the property (no wrong behaviour), recorded only
            ck.hist("pairs_left_rejected", name + ": " + rl["error"][:60])
            ck.obligation(True)
            continue
        try:
            _, dl = R.read_design(rl["vhdl"], "E")
            _, dr = R.read_design(rr["vhdl"], "E")
            for d in (dl, dr):
                for sd in d.sigs:
                    if sd.dir == "in" and sd.name == "rst" and low:
                        sd.init = ("L", True)        # an active-low reset is held inactive at power-up (as in c04.py)
        except R.Unparsed as e:
            ck.obligation(False)
            ck.violation({"pair": name}, "emitted VHDL left the parsed subset: " + str(e), {"left": left, "right": right}, no_input=True)
            continue
        path = os.path.join(ck.gen, tag + ".v")
        with open(path, "w") as f:
            f.write(c12.CASE_TMPL.format(header=common.COQ_HEADER, dh=R.design_to_coq(dl), df=R.design_to_coq(dr),
                                         alphabet=X.default_alphabet(dl), count="").replace("sstep dh false", "sstep dh true")
                    .replace("sstep df false", "sstep df true").replace("dcheck_s_sound dh df false", "dcheck_s_sound dh df true"))
        files.append((tag, name, path, left, right, rl["vhdl"], rr["vhdl"]))
    outs = common.coqc_many([f[2] for f in files], timeout=2400)
    for (tag, name, path, left, right, vl, vr), (rc, out, err) in zip(files, outs):
        if rc == 0:
            ck.obligation(True)
            ck.nontrivial(tag)
            common._cleanup_v(path)
            continue
        ck.obligation(False)
        src = open(path).read()
        src = src[:src.index("Theorem case_ok")]
        dpath = path[:-2] + "_diag.v"
        open(dpath, "w").write(src + c12.DIAG.replace("false alphabet", "true alphabet").replace("sstep dh false", "sstep dh true")
                               .replace("sstep df false", "sstep df true"))
        rc2, out2, err2 = common.coqc(dpath, 3000)
        o = common.coq_outputs(out2)
        while o and not o[0].startswith("V"):
            o = o[1:]
        rep = {"pair": name, "library_form_source": left, "written_out_source": right, "library_form_vhdl": vl, "written_out_vhdl": vr}
        if o and o[0].startswith("VCex"):
            rep.update({"path": o[0], "traces": o[1] if len(o) > 1 else ""})
            ck.violation({"pair": name}, "the library form and the written-out form of the same reset behaviour differ on an input sequence "
                         "(inputs per clock: rst, en, a, b; observation before and after each edge)", rep)
        else:
            rep["log"] = (out + err + out2 + err2)[-1500:]
            ck.violation({"pair": name}, "equivalence obligation not discharged", rep, no_input=True)
    ck.cov["equivalence_pairs"] = len(files)
