"""C07 - One driver per signal: conflicts rejected, accepted designs conflict-free.

PLACEMENTS (who writes / reads which object - whole, slice, element, run-time index - from which sequential
body / always-expression / concurrent context / entity-instance output) -> CoHDL source -> the REAL compiler:

  * model tie   : the real verdict AND rejection reason vs `Usage.check` (the discipline of the current tree) on the
                  placement, compared inside Coq  (development only: C07_MODEL=old compares with `Usage.check_old`,
                  the discipline before the fix commits 8d3d526 / 615f499 / f68d635);
  * spec        : an ACCEPTED design must be conflict free (`drivers <= 1`, variables / temporaries used by one
                  context, no input port written) - evaluated in Python and, independently, by
                  `Usage.conflict_freeb` in Coq; a conflict-free design that is REJECTED is only reported under
                  coverage ("over_rejected");
  * emitted text: for every accepted design `Drivers.single_driver d = true` is evaluated in Coq on the parsed and
                  elaborated VHDL (all entities); text that leaves the reader's subset because a process variable
                  is referenced outside its process is a violation of the property's last sentence.
"""
from __future__ import annotations
import itertools
import json
import os
import re
import time
from concurrent.futures import ThreadPoolExecutor

import common
import explore as X
import vhdl_reader as R

MODEL = os.environ.get("C07_MODEL", "current")
assert MODEL in ("current", "old"), "C07_MODEL must be current (default) or old (development only)"

KINDS = ["sig", "pout", "pin", "var", "tmp", "ref"]
COQ_KIND = {"sig": "KSignal", "pout": "KPortOut", "pin": "KPortIn", "var": "KVariable", "tmp": "KTemporary", "ref": "KTemporary"}
PARTS = ["whole", "s32", "e1", "e3", "dyn"]
BITS = {"whole": {0, 1, 2, 3}, "s32": {2, 3}, "e1": {1}, "e3": {3}, "dyn": {0, 1, 2, 3}}
# places: A0 = always-expression of C0, B0 = body of the sequential C0, K1 = concurrent C1, B2 = body of the
# sequential C2, K3 = concurrent C3; I = instance at architecture level, IK1 = inline entity inside C1,
# IA0 = inline entity inside `cohdl.always(...)` of C0
CTX_PLACES = ["A0", "B0", "K1", "B2", "K3"]
# I2 = ONE architecture-level instance whose TWO output ports are both connected to the object
INST_PLACES = ["I", "IK1", "IA0", "I2"]
CONC_UNITS = {"A0", "K1", "K3"}
UNIT_KIND = {"A0": "always", "B0": "seq-body", "B2": "seq-body", "K1": "conc", "K3": "conc",
             "I": "inst", "IK1": "inline-inst", "IA0": "inline-inst", "I2": "inst"}
CTX_OF = {"A0": 0, "B0": 0, "K1": 1, "B2": 2, "K3": 3, "IK1": 1, "IA0": 0}

REASONS = ["RInputWritten", "RMultiWrite", "RMultiUse", "RVarInConc", "RVarAssign", "RTempRead"]


def classify_error(msg):
    if "writing to input port" in msg:
        return "RInputWritten"
    if "written in multiple contexts" in msg:
        return "RMultiWrite"
    if "used in multiple contexts" in msg:
        return "RMultiUse"
    if "variables cannot be used in" in msg:
        return "RVarInConc"
    if "variable assignment only possible in sequential contexts" in msg:
        return "RVarAssign"
    if "temporary read before it was written" in msg or "cannot inherit temporaries" in msg:
        return "RTempRead"
    return "ROther"


# ----------------------------------------------------------------------------
# placements
# ----------------------------------------------------------------------------

def feasible(kind, place, acc, part):
    if kind == "ref":
        # an element reference with a run-time index (`self.ia[self.ix]`): its index intermediate belongs to the context
        # that evaluates the subscript ("W" = create it there, hand it to a pyeval helper and use it); "R" = a later
        # context takes the stored reference out of the Python list and reads it
        return place in ("B0", "K1", "B2", "K3") and acc in ("W", "R") and part == "whole"
    if place in INST_PLACES:
        return kind in ("sig", "pout", "pin") and acc == "W" and part in ("whole", "s32")
    if kind == "tmp":
        return acc == "R"
    if acc == "P":
        return kind in ("sig", "pout") and place in ("B0", "B2")
    if kind == "var":
        return acc in ("R", "W")
    return True


def all_accesses(kind, read_parts=None):
    out = []
    for place in CTX_PLACES + INST_PLACES:
        for acc in ("R", "W", "P"):
            for part in PARTS:
                if not feasible(kind, place, acc, part):
                    continue
                if acc == "R" and read_parts is not None and part not in read_parts:
                    continue
                out.append((place, acc, part))
    return out


def in_scope(placement):
    """the generator's own restriction: inside ONE concurrent unit (concurrent context / always block) a root is
    assigned at most once per scalar and never through a run-time index next to another assignment.  (Two
    assignments of one concurrent context become two concurrent VHDL statements; the property only speaks about
    different contexts.)"""
    for ob in placement["objects"]:
        for unit in CONC_UNITS:
            ws = [a for a in ob["acc"] if a[0] == unit and a[1] in ("W", "P")]
            for a, b in itertools.combinations(ws, 2):
                if BITS[a[2]] & BITS[b[2]]:
                    return False
    used_ctx = {CTX_OF[a[0]] for ob in placement["objects"] for a in ob["acc"] if a[0] in CTX_OF}
    return len(used_ctx) <= 3


def obj_name(k, kind):
    return ("self.x%d" % k) if kind in ("pout", "pin") else ("x%d" % k)


SEL = {"whole": "", "s32": "[3:2]", "e1": "[1]", "e3": "[3]", "dyn": "[self.ix]"}
SRC = {"whole": "self.ia", "s32": "self.ia[1:0]", "e1": "self.ia[0]", "e3": "self.ia[0]", "dyn": "self.ia[0]"}
SINK_SEL = {"whole": "", "s32": "[1:0]", "e1": "[0]", "e3": "[0]", "dyn": "[0]"}
IA_ROOT = 90


def build(placement):
    """-> (source text, Coq term of Usage.design, python units for the spec)"""
    objs = placement["objects"]
    ports = []
    locals_ = []
    for k, ob in enumerate(objs):
        kind = ob["kind"]
        if kind == "pout":
            ports.append("    x%d = Port.output(BitVector[4], default=Null)" % k)
        elif kind == "pin":
            ports.append("    x%d = Port.input(BitVector[4])" % k)
        elif kind == "sig":
            locals_.append("        x%d = Signal[BitVector[4]](Null)" % k)
        elif kind == "var":
            locals_.append("        x%d = Variable[BitVector[4]](Null)" % k)
        elif kind == "tmp":
            locals_.append("        x%d = self.ia & self.ia" % k)
        elif kind == "ref":
            locals_ += ["        refs%d = []" % k, "", "        @cohdl.pyeval", "        def keep%d(ref):" % k,
                        "            refs%d.append(ref)" % k, ""]
    stmts = {p: [] for p in CTX_PLACES}          # python statements per place
    events = {p: [] for p in CTX_PLACES}         # model events per place
    insts = {p: [] for p in INST_PLACES}         # (python expr, (root, kind))
    sinks = []
    nsink = 0

    def ev(root, acc, kind):
        return "(ev %d A%s %s)" % (root, acc, COQ_KIND[kind])

    # accesses are emitted object by object, in the order listed
    for k, ob in enumerate(objs):
        kind = ob["kind"]
        name = obj_name(k, kind)
        root = k + 1
        for place, acc, part in ob["acc"]:
            if kind == "ref":
                sink = "r%d" % nsink
                sroot = 100 + nsink
                nsink += 1
                sinks.append(sink)
                if acc == "W":
                    stmts[place] += ["e%d = self.ia[self.ix]" % k, "keep%d(e%d)" % (k, k), "%s[0] <<= e%d" % (sink, k)]
                    events[place] += [ev(root, "W", kind), ev(IA_ROOT, "R", "pin"), ev(sroot, "W", "sig"), ev(root, "R", kind)]
                else:
                    stmts[place].append("%s[0] <<= refs%d[0]" % (sink, k))
                    events[place] += [ev(sroot, "W", "sig"), ev(root, "R", kind)]
                continue
            if place == "I2":
                if part == "whole":
                    expr = "SubD(pi=self.ia, po=%s, pq=%s)" % (name, name)
                else:
                    expr = "SubD2(pi=self.ia[1:0], po=%s[3:2], pq=%s[3:2])" % (name, name)
                insts[place].append((expr, [(root, kind), (root, kind)]))
                continue
            if place in INST_PLACES:
                if part == "whole":
                    expr = "Sub(pi=self.ia, po=%s)" % name
                else:
                    expr = "Sub2(pi=self.ia[1:0], po=%s[3:2])" % name
                insts[place].append((expr, [(root, kind)]))
                continue
            if acc == "R":
                sink = "r%d" % nsink
                sroot = 100 + nsink
                nsink += 1
                sinks.append(sink)
                if part == "whole":
                    stmts[place].append("%s.next = %s" % (sink, name))
                else:
                    stmts[place].append("%s%s <<= %s%s" % (sink, SINK_SEL[part], name, SEL[part]))
                events[place] += [ev(sroot, "W", "sig"), ev(root, "R", kind)]
            else:
                if part == "whole":
                    attr = {"W": "value" if kind == "var" else "next", "P": "push"}[acc]
                    stmts[place].append("%s.%s = %s" % (name, attr, SRC[part]))
                else:
                    op = {"W": "@=" if kind == "var" else "<<=", "P": "^="}[acc]
                    stmts[place].append("%s%s %s %s" % (name, SEL[part], op, SRC[part]))
                events[place] += [ev(root, acc, kind), ev(IA_ROOT, "R", "pin")]
    # std.sequential starts its body with reset_pushed(): an ordinary write of the default to every signal that is
    # pushed in that body (in the order of the first push); the core-API flavour has no such statement
    for place in ("B0", "B2"):
        if place == "B2" and "B2" in placement.get("core", []):
            continue
        pushed = []
        for k, ob in enumerate(objs):
            if any(a[0] == place and a[1] == "P" for a in ob["acc"]) and (k + 1, ob["kind"]) not in pushed:
                pushed.append((k + 1, ob["kind"]))
        order = []
        for k, ob in enumerate(objs):          # order of the first push statement = order of emission above
            for a in ob["acc"]:
                if a[0] == place and a[1] == "P" and (k + 1, ob["kind"]) not in order:
                    order.append((k + 1, ob["kind"]))
        events[place] = [ev(r, "W", kd) for r, kd in order] + events[place]
    for s in sinks:
        locals_.append("        %s = Signal[BitVector[4]]()" % s)

    lines = ["import cohdl", "from cohdl import Bit, BitVector, Port, Signal, Variable, Unsigned, Null",
             "from cohdl import std", "", "",
             "class Sub(cohdl.Entity):", "    pi = Port.input(BitVector[4])", "    po = Port.output(BitVector[4])", "",
             "    def architecture(self):", "        std.concurrent_assign(self.po, self.pi)", "", "",
             "class Sub2(cohdl.Entity):", "    pi = Port.input(BitVector[2])", "    po = Port.output(BitVector[2])", "",
             "    def architecture(self):", "        std.concurrent_assign(self.po, self.pi)", "", "",
             "class SubD(cohdl.Entity):", "    pi = Port.input(BitVector[4])", "    po = Port.output(BitVector[4])",
             "    pq = Port.output(BitVector[4])", "",
             "    def architecture(self):", "        std.concurrent_assign(self.po, self.pi)",
             "        std.concurrent_assign(self.pq, self.pi)", "", "",
             "class SubD2(cohdl.Entity):", "    pi = Port.input(BitVector[2])", "    po = Port.output(BitVector[2])",
             "    pq = Port.output(BitVector[2])", "",
             "    def architecture(self):", "        std.concurrent_assign(self.po, self.pi)",
             "        std.concurrent_assign(self.pq, self.pi)", "", "",
             "class _NB:",
             "    # nested blocks, opened with the calls the block machinery itself uses (std.block cannot be entered on this tree)",
             "    def __init__(self, depth):", "        self.depth = depth", "",
             "    def __enter__(self):", "        for nr in range(self.depth):",
             "            cohdl._core._context._enter_block(cohdl.Block('blk_%d' % nr, {}))", "",
             "    def __exit__(self, *args):", "        for nr in range(self.depth):",
             "            cohdl._core._context._exit_block()", "", "",
             "class E(cohdl.Entity):", "    clk = Port.input(Bit)", "    ia = Port.input(BitVector[4])",
             "    ix = Port.input(Unsigned[2])"] + ports + ["", "    def architecture(self):"] + locals_
    ctx_terms = []
    inline_terms = []
    body_any = False
    # C0: sequential with always block
    if stmts["A0"] or stmts["B0"] or insts["IA0"]:
        body_any = True
        lines += ["", "        @std.sequential(std.Clock(self.clk))", "        def c0():"]
        if stmts["A0"]:
            lines.append("            with cohdl.always:")
            lines += ["                " + s for s in stmts["A0"]]
        for expr, rk in insts["IA0"]:
            lines.append("            cohdl.always(%s)" % expr)
            inline_terms.append(rk)
        lines += ["            " + s for s in stmts["B0"]]
        has_always = bool(stmts["A0"]) or bool(insts["IA0"])
        alw = "(Some [%s])" % "; ".join(events["A0"]) if has_always else "None"
        ctx_terms.append("(cx Sequential %s [%s])" % (alw, "; ".join(events["B0"])))
    blocks = placement.get("blocks", {})
    core = placement.get("core", [])
    block_terms = []
    for place, iplace, fname in (("K1", "IK1", "c1"), ("B2", None, "c2"), ("K3", None, "c3")):
        its = insts[iplace] if iplace else []
        if not (stmts[place] or its):
            continue
        body_any = True
        depth = blocks.get(place, 0)
        ind = "        "
        lines.append("")
        if depth:
            lines.append("        with _NB(%d):" % depth)
            ind = "            "
        if place == "B2" and "B2" in core:
            # core API process: no std wrapper, hence no reset_pushed() default assignment
            lines += [ind + "@cohdl.sequential_context", ind + "def %s():" % fname, ind + "    if cohdl.rising_edge(self.clk):"]
            ind2 = ind + "        "
            ck = "Sequential"
        elif place == "B2":
            lines += [ind + "@std.sequential(std.Clock(self.clk))", ind + "def %s():" % fname]
            ind2 = ind + "    "
            ck = "Sequential"
        else:
            lines += [ind + "@std.concurrent", ind + "def %s():" % fname]
            ind2 = ind + "    "
            ck = "Concurrent"
        for expr, rk in its:
            lines.append(ind2 + expr)
            inline_terms.append(rk)
        lines += [ind2 + s for s in stmts[place]]
        term = "(cx %s None [%s])" % (ck, "; ".join(events[place]))
        if depth:
            bt = "BBlock [%s] []" % term
            for _ in range(depth - 1):
                bt = "BBlock [] [%s]" % bt
            block_terms.append(bt)
        else:
            ctx_terms.append(term)
    arch_terms = []
    for expr, rk in insts["I"] + insts["I2"]:
        lines += ["", "        " + expr]
        arch_terms.append(rk)
        body_any = True
    if not body_any:
        lines.append("        pass")
    source = "\n".join(lines) + "\n"
    subs = "; ".join(block_terms + ["BEntity [%s]" % "; ".join("(%d%%positive, %s)" % (r, COQ_KIND[k]) for r, k in rks)
                                    for rks in arch_terms + inline_terms])
    term = "{| d_ctxs := [%s]; d_subs := [%s] |}" % ("; ".join(ctx_terms), subs)
    return source, term


def py_spec(placement):
    """the property's demand on a placement, independent of the Coq model:
    -> list of (class, object index) of conflicts; local (non-conflict) rejections are returned separately"""
    conflicts = []
    local = []
    for k, ob in enumerate(placement["objects"]):
        kind = ob["kind"]
        drv = []          # one entry per driver
        seen_units = set()
        users = set()
        for place, acc, part in ob["acc"]:
            if place in INST_PLACES:
                drv.append(place)
                if place == "I2":
                    drv.append(place)      # two output ports of the instance
                if kind == "pin":
                    conflicts.append(("input-port<-" + UNIT_KIND[place], k))
                continue
            if kind in ("var", "tmp", "ref"):
                users.add(place)
            if acc in ("W", "P"):
                if kind == "pin":
                    conflicts.append(("input-port<-" + UNIT_KIND[place], k))
                if place not in seen_units:
                    seen_units.add(place)
                    drv.append(place)
            # rules that are not conflicts between contexts
            if kind == "var" and place in CONC_UNITS:
                local.append(("variable-in-" + UNIT_KIND[place], k))
            if kind == "tmp":
                local.append(("temporary-defined-outside", k))
        if len(drv) > 1:
            names = sorted(UNIT_KIND[p] for p in drv)
            cls = "+".join(names)
            if "A0" in drv and "B0" in drv and len(drv) == 2:
                cls = "always+enclosing-body"
            conflicts.append(("drivers:" + cls, k))
        if len(users) > 1:
            names = sorted(UNIT_KIND[p] for p in users)
            cls = "+".join(names)
            if users == {"A0", "B0"}:
                cls = "always+enclosing-body"
            conflicts.append(("users:" + cls, k))
    return conflicts, local


# ----------------------------------------------------------------------------
# generators
# ----------------------------------------------------------------------------

def P(*objs, blocks=None, core=None):
    p = {"objects": [{"kind": k, "acc": [tuple(a) for a in accs]} for k, accs in objs]}
    if blocks:
        p["blocks"] = dict(blocks)      # {"B2" | "K3" | "K1": nesting depth of the block the context is declared in}
    if core:
        p["core"] = list(core)          # ["B2"]: that process is written with the core API (cohdl.sequential_context)
    return p


def corpus():
    c = []
    # the always-block witness and its neighbours
    c.append(P(("pout", [("A0", "W", "whole"), ("B0", "W", "whole")])))
    c.append(P(("pout", [("A0", "W", "s32"), ("B0", "W", "e1")])))
    c.append(P(("sig", [("A0", "W", "e1"), ("B0", "P", "whole")])))
    c.append(P(("sig", [("A0", "W", "whole"), ("B2", "W", "whole")])))
    c.append(P(("sig", [("A0", "W", "whole"), ("B0", "R", "whole")])))
    c.append(P(("var", [("A0", "R", "whole"), ("B0", "W", "whole")])))
    c.append(P(("var", [("A0", "R", "whole")])))
    c.append(P(("var", [("A0", "W", "whole"), ("B0", "R", "whole")])))
    c.append(P(("sig", [("IA0", "W", "whole"), ("B0", "W", "whole")])))
    # upstream tests/invalid_builds analogues
    for a, b in itertools.product(["K1", "B0"], ["K3", "B2"]):                       # test_multiple_drivers_1/2
        for first, second in itertools.product(["R", "W"], repeat=2):
            c.append(P(("var", [(a, first, "whole"), (b, second, "whole")])))
        c.append(P(("pout", [(a, "W", "e1"), (b, "W", "e3")])))
    for pl in CTX_PLACES:                                                              # test_multiple_drivers_3
        c.append(P(("pout", [(pl, "W", "whole")])))
        c.append(P(("pout", [(pl, "W", "e3")])))
    for a, b in itertools.combinations(CTX_PLACES, 2):
        if CTX_OF[a] != CTX_OF[b] or {a, b} == {"A0", "B0"}:
            c.append(P(("pout", [(a, "W", "e3"), (b, "W", "e3")])))
    for a, b in itertools.combinations(["I", "IK1", "IA0", "K3", "B2"], 2):            # test_multiple_drivers_4
        pa = "s32" if a in INST_PLACES else "e1"
        pb = "s32" if b in INST_PLACES else "e1"
        c.append(P(("pout", [(a, "W", pa), (b, "W", pb)])))
    c.append(P(("sig", [("I", "W", "whole"), ("I", "W", "whole")])))
    # one instance driving one signal through two of its output ports (whole / overlapping slices), alone and next to others
    for kind in ("sig", "pout"):
        c.append(P((kind, [("I2", "W", "whole")])))
        c.append(P((kind, [("I2", "W", "s32")])))
    c.append(P(("sig", [("I2", "W", "s32"), ("K3", "W", "e1")])))
    c.append(P(("pin", [("I2", "W", "whole")])))
    # contexts inside nested blocks (depth 1-3): conflicts with the top level, with another block, input written
    for d in (1, 2, 3):
        c.append(P(("pout", [("K3", "W", "whole")]), blocks={"K3": d}))
        c.append(P(("pout", [("K3", "W", "whole"), ("K1", "W", "whole")]), blocks={"K3": d}))
        c.append(P(("pout", [("B2", "W", "e1"), ("K1", "W", "e3")]), blocks={"B2": d}))
        c.append(P(("sig", [("B2", "W", "whole"), ("K3", "W", "whole")]), blocks={"B2": d, "K3": d}))
        c.append(P(("sig", [("B2", "W", "whole"), ("K3", "W", "whole")]), blocks={"B2": d, "K3": 1}))
        c.append(P(("pin", [("K3", "W", "whole")]), blocks={"K3": d}))
        c.append(P(("var", [("B2", "W", "whole"), ("B0", "R", "whole")]), blocks={"B2": d}))
        c.append(P(("sig", [("I", "W", "whole"), ("K3", "W", "s32")]), blocks={"K3": d}))
    # push-only process written with the core API (no reset_pushed() default assignment) next to a second writer
    for other in ("B0", "K1", "K3", "A0", "I"):
        for part in ("whole", "e1"):
            c.append(P(("pout", [("B2", "P", part), (other, "W", "whole" if other == "I" else "e1")]), core=["B2"]))
    c.append(P(("pout", [("B2", "P", "whole")]), core=["B2"]))
    c.append(P(("pout", [("B2", "P", "e1"), ("B2", "W", "e3")]), core=["B2"]))
    c.append(P(("pout", [("B2", "P", "whole"), ("K3", "W", "e1")]), core=["B2"], blocks={"K3": 2}))
    for pl in CTX_PLACES + INST_PLACES:                                                # test_write_input
        c.append(P(("pin", [(pl, "W", "whole")])))
    for pl in ("K1", "A0"):                                                            # test_variable_in_concurrent
        for acc in ("R", "W"):
            for part in ("whole", "dyn"):
                c.append(P(("var", [(pl, acc, part)])))
    for pl in CTX_PLACES:                                                              # temporaries from outside
        c.append(P(("tmp", [(pl, "R", "whole")])))
    c.append(P(("tmp", [("B0", "R", "e1"), ("B2", "R", "e3")])))
    # an element reference with a run-time index that escapes from the context that created it (through a pyeval helper)
    # and is read by a context compiled later: the index intermediate is then used by two contexts
    for home in ("B0", "K1", "B2", "K3"):
        c.append(P(("ref", [(home, "W", "whole")])))
        c.append(P(("ref", [(home, "W", "whole"), (home, "R", "whole")])))
    for home, other in (("B0", "K1"), ("B0", "B2"), ("B0", "K3"), ("K1", "B2"), ("K1", "K3"), ("B2", "K3")):
        c.append(P(("ref", [(home, "W", "whole"), (other, "R", "whole")])))
        c.append(P(("ref", [(home, "W", "whole"), (other, "R", "whole")]), ("sig", [(other, "W", "e1")])))
    for other in ("B2", "K1", "A0", "I"):                                             # push conflicts
        c.append(P(("sig", [("B0", "P", "whole"), (other, "W", "whole" if other == "I" else "e1")])))
    c.append(P(("sig", [("B0", "P", "s32"), ("B0", "W", "e1"), ("K1", "R", "whole")])))
    # several objects
    c.append(P(("sig", [("B0", "W", "whole"), ("K1", "R", "whole")]), ("pout", [("K1", "W", "whole")]),
               ("var", [("B0", "W", "whole"), ("B0", "R", "dyn")])))
    c.append(P(("sig", [("I", "W", "whole"), ("B2", "R", "s32")]), ("pout", [("A0", "W", "s32"), ("A0", "W", "e1")]),
               ("pin", [("K1", "R", "whole"), ("B0", "R", "dyn")])))
    return [p for p in c if in_scope(p)]


def random_placement(rng):
    """2-3 objects x 2-3 contexts; mostly valid: with probability 0.6 all writers of an object sit in one
    unit (its "home"), otherwise they are placed freely"""
    ctxs = rng.sample([0, 1, 2, 3], rng.choice([2, 3, 3]))
    places = [p for p in CTX_PLACES + INST_PLACES if p in ("I", "I2") or CTX_OF[p] in ctxs]
    nobj = rng.choice([2, 2, 3])
    objs = []
    for _ in range(nobj):
        kind = rng.choice(["sig", "sig", "sig", "pout", "pout", "pout", "pin", "var", "var", "tmp"])
        cands = [a for a in all_accesses(kind) if a[0] in places]
        valid = rng.random() < 0.6
        if valid:
            if kind == "pin":
                cands = [a for a in cands if a[1] == "R"]
            elif kind in ("var", "tmp"):
                homes = [p for p in places if p in ("B0", "B2")] if kind == "var" else []
                home = rng.choice(homes) if homes else None
                cands = [a for a in cands if a[0] == home]
            else:
                home = rng.choice([p for p in places])
                cands = [a for a in cands if a[1] == "R" or a[0] == home]
        if not cands:
            continue
        writes = [a for a in cands if a[1] != "R"]
        n = rng.choice([1, 2, 2, 2, 3])
        accs = []
        for _ in range(n):
            pool = writes if (writes and rng.random() < 0.6) else cands
            a = rng.choice(pool)
            if a[0] in INST_PLACES and any(b[0] in INST_PLACES for b in accs) and valid:
                continue
            accs.append(a)
        if accs:
            objs.append((kind, accs))
    if not objs:
        return random_placement(rng)
    blocks = {pl: rng.choice([1, 2, 2, 3]) for pl in ("K1", "B2", "K3") if rng.random() < 0.3}
    if any(a[0] == "IK1" for _, accs in objs for a in accs):
        blocks.pop("K1", None)          # an inline instance is registered in the block of its context: keep that at the top
    core = ["B2"] if rng.random() < 0.3 else None
    return P(*objs, blocks=blocks, core=core)


def exhaustive_pairs():
    """every single access and every unordered pair of accesses of ONE object, for each object kind;
    reads of signals / ports (which no rule looks at) are restricted to the whole object"""
    out = []
    for kind in [k for k in KINDS if k != "ref"]:   # "ref" placements need creation before use: corpus only
        accs = all_accesses(kind, read_parts=None if kind in ("var", "tmp") else ("whole",))
        for a in accs:
            out.append(P((kind, [a])))
        for a, b in itertools.combinations_with_replacement(accs, 2):
            out.append(P((kind, [a, b])))
    return [p for p in out if in_scope(p)]


# ----------------------------------------------------------------------------
# emitted text
# ----------------------------------------------------------------------------

def escaped_variable(vhdl, exc):
    """Unparsed('undeclared identifier X') where X is a variable of a process of the emitted text"""
    m = re.search(r"undeclared identifier '(\w+)'", str(exc))
    if not m:
        return None
    name = m.group(1)
    if re.search(r"^\s*variable\s+%s\s*:" % re.escape(name), vhdl, re.M | re.I):
        return name
    return None


def py_targets(design):
    """python mirror of Drivers.conc_writes for diagnosis: per concurrent statement [(root, path)]"""
    def stmt_targets(ss, acc):
        for s in ss:
            if s[0] == "sig":
                acc.append(s[1])
            elif s[0] == "if":
                stmt_targets(s[2], acc)
                stmt_targets(s[3], acc)
            elif s[0] == "case":
                for _, b in s[2]:
                    stmt_targets(b, acc)
                if s[3] is not None:
                    stmt_targets(s[3], acc)
        return acc

    res = []
    for c in design.conc:
        tg = [c[1]] if c[0] in ("assign", "select") else stmt_targets(c[3], [])
        res.append([(n.lower(), p) for n, p in tg])
    return res


def py_sel_disjoint(p, q):
    """mirror of Drivers.sel_disjoint"""
    def static(s):
        i = s[1]
        return i[1][1] if (i[0] == "lit" and i[1][0] == "I" and i[1][1] >= 0) else None

    if not p or not q:
        return False
    a, b = p[0], q[0]
    if a[0] == "idx" and b[0] == "idx":
        n, m = static(a), static(b)
        if n is None or m is None:
            return False
        return py_sel_disjoint(p[1:], q[1:]) if n == m else True
    if a[0] == "idx" and b[0] == "slice":
        n = static(a)
        return n is not None and len(p) == 1 and len(q) == 1 and (n < b[2] or b[1] < n)
    if a[0] == "slice" and b[0] == "idx":
        return py_sel_disjoint(q, p)
    return len(p) == 1 and len(q) == 1 and (a[1] < b[2] or b[1] < a[2])


def driver_lines(vhdl, roots):
    out = []
    for line in vhdl.split("\n"):
        s = line.strip()
        for r in roots:
            if re.match(r"%s\s*(\(.*\))?\s*<=" % re.escape(r), s, re.I) or re.search(r"=>\s*%s\b" % re.escape(r), s, re.I):
                out.append(s)
    return out


def py_clash(design):
    tg = py_targets(design)
    dirs = {s.name.lower(): s.dir for s in design.sigs}
    for i in range(len(tg)):
        for (r, p) in tg[i]:
            if dirs.get(r) == "in":
                return ("in-port-assigned", r)
        for j in range(i + 1, len(tg)):
            for (r1, p1) in tg[i]:
                for (r2, p2) in tg[j]:
                    if r1 == r2 and not py_sel_disjoint(p1, p2):
                        return ("two-drivers", r1)
    return None


# ----------------------------------------------------------------------------
# the check
# ----------------------------------------------------------------------------

PREAMBLE = (common.COQ_HEADER +
            "From Cohdl Require Import Models.Usage Vhdl.Drivers.\n"
            "Definition ev (r : positive) (a : acc) (k : okind) : event := {| e_root := r; e_acc := a; e_kind := k |}.\n"
            "Definition cx (k : ckind) (a : option (list event)) (b : list event) : context :=\n"
            "  {| c_kind := k; c_always := a; c_body := b |}.\n"
            "Inductive real := RealAccept | RealReject (r : reason) | RealRejectUnmodelled | RealRejectOther.\n"
            "(* RealRejectUnmodelled: rejected by a rule outside the anchored code (verdict compared only);\n"
            "   RealRejectOther: rejected with a message the model does not know (never agrees) *)\n"
            "Definition verdict_ok (m : Usage.design -> verdict) (c : Usage.design * real) : bool :=\n"
            "  match m (fst c), snd c with\n"
            "  | Accept, RealAccept => true\n"
            "  | Reject r, RealReject r' => reason_eqb r r'\n"
            "  | Reject _, RealRejectUnmodelled => true\n"
            "  | _, _ => false\n"
            "  end.\n")

# rejections by rules outside the anchored code that the placements can reach (verdict compared, reason not)
UNMODELLED = ("pushed signal requires default value",)


def model_fn():
    return "check" if MODEL == "current" else "check_old"


def placement_key(p):
    return json.dumps(p, sort_keys=True)


PER_CLASS = 2


def report(ck, key, what, replay, no_input=False):
    """at most PER_CLASS replay files per finding class (the failed obligation is counted by the caller)"""
    seen = ck.cov.setdefault("finding_classes", {})
    k = json.dumps(key, sort_keys=True)
    seen[k] = seen.get(k, 0) + 1
    if seen[k] <= PER_CLASS:
        ck.violation(key, what, replay, no_input=no_input)


def evaluate(ck, placements, tag):
    """compile, tie, spec, emitted text for a list of placements"""
    designs = []
    terms = []
    for i, p in enumerate(placements):
        src, term = build(p)
        designs.append({"name": "%s_%05d" % (tag, i), "source": src, "entity": "E"})
        terms.append(term)
    t0 = time.time()
    res = X.compile_designs(ck, designs)
    ck.cov["compile_s"] = round(ck.cov.get("compile_s", 0) + time.time() - t0, 1)
    t0 = time.time()
    accepted = []
    reasons = []
    for p, dsg, r in zip(placements, designs, res):
        ck.evaluations += 1
        if r["ok"]:
            accepted.append(True)
            reasons.append("Accept")
        else:
            accepted.append(False)
            reasons.append(classify_error(r.get("error", "")) if r.get("error_type") == "AssertionError" else "ROther")
        ck.hist("real_verdicts", reasons[-1])
        for ob in p["objects"]:
            ck.hist("object_kinds", ob["kind"])
            for a in ob["acc"]:
                ck.hist("access_places", a[0])
                ck.hist("access_kinds", a[1] + ":" + a[2])
        ck.hist("objects_per_placement", len(p["objects"]))
        ck.nontrivial(placement_key(p))

    # ---- (1) model tie, inside Coq -------------------------------------------------------
    def real_term(i):
        if accepted[i]:
            return "RealAccept"
        if reasons[i] in REASONS:
            return "(RealReject %s)" % reasons[i]
        if any(u in res[i].get("error", "") for u in UNMODELLED):
            return "RealRejectUnmodelled"
        return "RealRejectOther"

    cases = ["(%s, %s)" % (t, real_term(i)) for i, t in enumerate(terms)]
    acc_ix = [i for i, a in enumerate(accepted) if a]

    # ---- (3) emitted text: parse ---------------------------------------------------------
    dterms = []
    dix = []
    parsed = {}
    for i in acc_ix:
        vhdl = res[i]["vhdl"]
        try:
            ents, d = R.read_design(vhdl)
            parsed[i] = d
            dterms.append(R.design_to_coq(d))
            dix.append(i)
            ck.count("emitted_designs_parsed")
            ck.count("emitted_concurrent_statements", len(d.conc))
        except R.Unparsed as e:
            v = escaped_variable(vhdl, e)
            ck.obligation(False)
            if v is not None:
                lines = [l.strip() for l in vhdl.split("\n") if re.search(r"\b%s\b" % re.escape(v), l)]
                report(ck, {"placement": "variable-outside-process"},
                             "accepted design: process variable '%s' is referenced by a concurrent statement outside its "
                             "process (the always-expression); the emitted architecture is not legal VHDL" % v,
                             {"placement_json": placements[i], "source": designs[i]["source"], "emitted_lines": lines,
                              "vhdl": vhdl, "reader": str(e)})
            else:
                report(ck, {"placement": "unparsed"}, "emitted VHDL left the parsed subset: " + str(e),
                             {"placement_json": placements[i], "source": designs[i]["source"], "vhdl": vhdl}, no_input=True)

    # ---- all Coq evaluations, side by side -------------------------------------------------
    jobs = {"tie": (tag + "_tie", "Usage.design * real", cases, "verdict_ok %s" % model_fn(), 400)}
    if acc_ix:
        jobs["spec"] = (tag + "_spec", "Usage.design", [terms[i] for i in acc_ix], "conflict_freeb", 400)
    if dterms:
        jobs["drv"] = (tag + "_drv", "Syntax.design", dterms, "single_driver", 150)
        jobs["roots"] = (tag + "_drvroots", "Syntax.design", dterms, "single_driver_roots", 150)
    with ThreadPoolExecutor(len(jobs)) as ex:
        futs = {k: ex.submit(common.coq_bad_indices, ck, j[0], PREAMBLE, j[1], j[2], j[3], j[4]) for k, j in jobs.items()}
        outs = {k: f.result() for k, f in futs.items()}
    bad = set(outs["tie"])                                          # (1) model tie
    bad_spec = {acc_ix[j] for j in outs.get("spec", [])}            # (2) spec on the accepted ones
    bad_drv = {dix[j] for j in outs.get("drv", [])}                 # (3) single_driver on the emitted text
    if dterms:
        b2 = outs["roots"]
        # different statements assign different SIGNALS (the roots-level corollary applies as well)
        ck.count("single_driver_roots_true", len(dterms) - len(b2))
        ck.count("single_driver_roots_false_but_scalars_disjoint", len([j for j in b2 if dix[j] not in bad_drv]))

    ck.cov["coq_and_parse_s"] = round(ck.cov.get("coq_and_parse_s", 0) + time.time() - t0, 1)
    # ---- verdicts ---------------------------------------------------------------------------
    for i, p in enumerate(placements):
        conflicts, local = py_spec(p)
        src = designs[i]["source"]
        # (a) the property itself
        if accepted[i]:
            ck.count("accepted")
            spec_bad_py = bool(conflicts)
            spec_bad_coq = i in bad_spec
            ck.obligation(not (spec_bad_py or spec_bad_coq))
            if spec_bad_py != spec_bad_coq:
                ck.obligation(False)
                report(ck, {"harness": "spec-renderings-disagree"},
                             "python spec and Usage.conflict_freeb disagree on a placement",
                             {"placement_json": p, "python": conflicts, "coq_conflict_free": not spec_bad_coq}, no_input=True)
            if spec_bad_py or spec_bad_coq:
                cls = conflicts[0][0] if conflicts else "coq-only"
                roots = []
                if i in parsed:
                    k = conflicts[0][1] if conflicts else 0
                    nm = "x%d" % k
                    roots = [nm, "buffer_" + nm]
                report(ck, {"placement": cls},
                             "design with a conflict (%s) is ACCEPTED" % ", ".join(c for c, _ in conflicts),
                             {"placement_json": p, "source": src, "conflicts": conflicts,
                              "driver_statements": driver_lines(res[i]["vhdl"], roots) if roots else [],
                              "vhdl": res[i]["vhdl"],
                              "replay_py": "PYTHONPATH=/repo /venv/bin/python -c \"import runpy; from cohdl import std; "
                                           "m = runpy.run_path('<source file>'); print(std.VhdlCompiler.to_string(m['E']))\""})
            if local and not conflicts:
                # accepted although a context-local rule (variable in an always block ...) says otherwise:
                # the emitted-text check below decides
                ck.count("accepted_with_local_rule_hit")
            if i in dix:
                ok = i not in bad_drv
                ck.obligation(ok)
                if not ok:
                    clash = py_clash(parsed[i])
                    if conflicts:
                        # already reported as a spec violation of the same class; keep one finding per design
                        ck.count("single_driver_false_on_reported_conflict")
                    else:
                        roots = [clash[1]] if clash else []
                        report(ck, {"placement": "emitted:" + (clash[0] if clash else "single_driver-false")},
                                     "accepted, conflict-free placement, but single_driver is false on the emitted design",
                                     {"placement_json": p, "source": src, "clash": clash,
                                      "driver_statements": driver_lines(res[i]["vhdl"], roots), "vhdl": res[i]["vhdl"]})
                else:
                    ck.count("single_driver_true")
        else:
            ck.count("rejected")
            ck.obligation(True)
            if not conflicts and not local:
                ck.count("over_rejected")
                ck.hist("over_rejected_reasons", reasons[i])
                ck.cov.setdefault("over_rejected_samples", [])
                if len(ck.cov["over_rejected_samples"]) < 5:
                    ck.cov["over_rejected_samples"].append({"placement": p, "error": res[i].get("error", "")[:200]})
            elif conflicts:
                ck.hist("conflicts_rejected", conflicts[0][0])
            else:
                ck.hist("local_rule_rejections", local[0][0])
            if reasons[i] == "ROther":
                ck.hist("unclassified_errors", (res[i].get("error_type", "") + ": " + res[i].get("error", ""))[:120])
        # (b) the model tie
        tie_ok = i not in bad
        ck.obligation(tie_ok)
        if not tie_ok:
            spec_violated = accepted[i] and bool(conflicts)
            if spec_violated:
                # the implementation violates the spec on this very input: reported above with the input
                ck.count("tie_mismatch_with_spec_violation")
            else:
                report(ck, {"tie": "Usage.%s" % model_fn(), "real": reasons[i]},
                             "Usage.%s and the real compiler disagree on a placement, the real verdict still satisfies the "
                             "specification (model out of date)" % model_fn(),
                             {"placement_json": p, "source": src, "real": reasons[i], "error": res[i].get("error", "")[:300],
                              "coq_design": terms[i]}, no_input=True)
        if i < 4:
            ck.sample({"placement": p, "real": reasons[i], "conflicts": [c for c, _ in conflicts]})
    return res


def observe_overlap(ck):
    """OBSERVATION (no obligation): two overlapping assignments to one signal inside ONE concurrent context / always
    block.  By the letter of the property the signal is still driven by one concurrent BLOCK; the block is emitted as
    several concurrent VHDL statements, so at statement level there are two drivers."""
    ps = [P(("sig", [("K1", "W", "whole"), ("K1", "W", "s32")])),
          P(("pout", [("A0", "W", "whole"), ("A0", "W", "e1")])),
          P(("sig", [("K1", "W", "e1"), ("K1", "W", "e1")]))]
    designs = [{"name": "obs_%02d" % i, "source": build(p)[0], "entity": "E"} for i, p in enumerate(ps)]
    res = X.compile_designs(ck, designs)
    obs = []
    for p, r in zip(ps, res):
        o = {"placement": p, "accepted": bool(r["ok"])}
        if r["ok"]:
            try:
                _, d = R.read_design(r["vhdl"])
                o["statement_level_clash"] = py_clash(d)
                o["driver_statements"] = driver_lines(r["vhdl"], ["x0", "buffer_x0"])
            except R.Unparsed as e:
                o["unparsed"] = str(e)
        else:
            o["error"] = r.get("error", "")[:160]
        obs.append(o)
    ck.cov["observation_overlapping_assignments_in_one_concurrent_block"] = {
        "note": "inside the property text (one concurrent block drives the signal), therefore not a violation; "
                "not generated as placements because single_driver (statement level) is false on them",
        "cases": obs}


def run(ck: common.Check, replay=None):
    ck.check_props("C07_Properties.v")
    ck.cov["model"] = MODEL
    if replay is not None and "placement_json" in replay:
        p = replay["placement_json"]
        p = dict(p, objects=[{"kind": o["kind"], "acc": [tuple(a) for a in o["acc"]]} for o in p["objects"]])
        evaluate(ck, [p], "replay")
        return
    observe_overlap(ck)
    reg = corpus()
    ck.cov["corpus"] = len(reg)
    seen = set()
    todo = []
    for p in reg:
        k = placement_key(p)
        if k not in seen:
            seen.add(k)
            todo.append(p)
    if os.environ.get("C07_ONLY_CORPUS"):
        ck.cov["only_corpus"] = True   # mutation self-test shortcut: the regression corpus alone
    elif ck.tier == "quick":
        target = len(todo) + 150
        guard = 0
        while len(todo) < target and guard < 100000:
            guard += 1
            p = random_placement(ck.rng)
            if not in_scope(p):
                ck.count("generated_out_of_scope")
                continue
            k = placement_key(p)
            if k in seen:
                continue
            seen.add(k)
            todo.append(p)
    else:
        ex = exhaustive_pairs()
        ck.cov["exhaustive_space"] = ("every single access and every unordered pair of accesses (place x R/W/Push x "
                                      "whole/slice/element/run-time index) of one object, for each of the 5 object kinds: "
                                      "%d placements" % len(ex))
        for p in ex:
            k = placement_key(p)
            if k not in seen:
                seen.add(k)
                todo.append(p)
        n_rand = 1000
        guard = 0
        target = len(todo) + n_rand
        while len(todo) < target and guard < 1000000:
            guard += 1
            p = random_placement(ck.rng)
            if not in_scope(p):
                continue
            k = placement_key(p)
            if k in seen:
                continue
            seen.add(k)
            todo.append(p)
        ck.cov["exhaustive"] = True
    ck.cov["placements"] = len(todo)
    for p in todo:
        for pl, d in p.get("blocks", {}).items():
            ck.hist("context_in_nested_block_depth", d)
        if p.get("core"):
            ck.hist("process_flavour", "core-api (no reset_pushed)")
        if any(a[0] == "I2" for o in p["objects"] for a in o["acc"]):
            ck.hist("instance_with_two_outputs_on_one_object", 1)
    for k0 in ("over_rejected", "accepted", "rejected", "single_driver_true"):
        ck.cov.setdefault(k0, 0)
    chunk = 2500
    for ci in range(0, len(todo), chunk):
        evaluate(ck, todo[ci:ci + chunk], "p%02d" % (ci // chunk))
    ck.cov["rule"] = ("one case per distinct placement (objects with kind, list of (place, access, part)); every placement "
                      "contains at least one access of a user object from a context or an instance output, so none is trivial")
    ck.trusted += ["fail-closed VHDL reader (harness/vhdl_reader.py) incl. its net-collapse elaboration",
                   "Vhdl.Sem (modelled VHDL-93 simulation cycle) as the meaning of 'driver order does not matter' "
                   "(C07_single_driver_sound: one delta cycle is independent of the statement order)",
                   "the placement -> source rendering of harness/c07.py (the model sees the placement, the compiler the source)"]
    ck.assumptions += [
        "std.block cannot be entered on this tree (TypeError: Block is no context manager); nested generic blocks are "
        "opened with the calls the block machinery itself uses (cohdl._core._context._enter_block / _exit_block) around "
        "the contexts c1/c2/c3, depth 1-3, and are modelled by Usage.BBlock",
        "two overlapping assignments to one root inside ONE concurrent context / always block are not generated: the "
        "property speaks about different contexts; such a design is accepted and yields two concurrent VHDL drivers",
        "compiler-internal temporaries (run-time index copies) are not part of the placement; user temporaries are "
        "architecture-level expressions (always read before written inside a context)",
        "sub-entity templates (Sub, Sub2) are checked by the compiler on their own and are conflict free by construction",
    ]
