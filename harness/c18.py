"""C18 - std combinational helpers compute their mathematical definition.

static : theories/Props/C18_Properties.v (model = specification for all widths / lengths / batch sizes)
tie    : the REAL helpers of /repo/cohdl/std run on compile-time constants in c18_worker.py
         (exhaustive for small widths, seeded up to width 70);
         (a) every recorded result is compared with the Gallina model inside Coq (Models/Helpers.v, hcase_ok)
         (b) every recorded result is compared with an independent python rendering of the mathematical
             definition (this file, functions spec_*).
"""
from __future__ import annotations
import itertools
import json

import common

MAXW = 70


# ----------------------------------------------------------------------------
# small reference definitions (specification side, plain ints)
# ----------------------------------------------------------------------------

def mask(w):
    return (1 << w) - 1


def tobits(w, v):
    return [(v >> i) & 1 for i in range(w)]


def frombits(bs):
    return sum(b << i for i, b in enumerate(bs))


def bitlen(n):
    return n.bit_length()


def upto_width(n):
    return max(1, n.bit_length())


def popcount(v):
    return bin(v).count("1")


def sval(w, v):
    return v - (1 << w) if v >> (w - 1) else v


def polymod(a, g):
    dg = g.bit_length() - 1
    while a and a.bit_length() - 1 >= dg:
        a ^= g << (a.bit_length() - 1 - dg)
    return a


E = ["E"]          # expected: any exception


def is_err(r):
    return isinstance(r, list) and len(r) >= 1 and r[0] == "E"


def same(r, exp):
    if exp is None:
        return True
    if exp is E:
        return is_err(r)
    if callable(exp):
        return exp(r)
    return r == exp


# ----------------------------------------------------------------------------
# Coq term printers
# ----------------------------------------------------------------------------

def cB(w, v):
    return f"(B {w} {v})"


def cbool(b):
    return "true" if b else "false"


def cZ(z):
    return f"({z})%Z"


def clist(xs):
    return "[" + "; ".join(xs) + "]"


def copt(r, f):
    return "None" if is_err(r) else f"(Some {f(r)})"


def r_bits(r):
    # ["bv"|"u"|"s"|"bit", w, v]
    return cB(r[1], r[2])


def r_uns(r):
    return f"({r[1]}%nat, {cZ(r[2])})"


def r_int(r):
    return cZ(r[1])


def leaves(r):
    """in-order leaves of a canonical nested-tuple result"""
    if r[0] == "int":
        return [r[1]]
    return [x for e in r[1] for x in leaves(e)]


def in_order(n):
    """specification of a fold with a free operator: any bracketing of the operands IN ORDER
    (= the left fold whenever the operator is associative)"""
    return lambda r: (not is_err(r)) and r[0] in ("int", "tup") and leaves(r) == list(range(n))


def r_tree(r):
    if r[0] == "int":
        return f"(Leaf {r[1]})"
    a, b = r[1]
    return f"(Node {r_tree(a)} {r_tree(b)})"


def elem_num(e):
    """numeric reading of a tagged operand"""
    if e[0] == "u" or e[0] == "bv":
        return e[2]
    if e[0] == "s":
        return sval(e[1], e[2])
    if e[0] == "int":
        return e[1]
    raise AssertionError(e)


# ----------------------------------------------------------------------------
# case construction: each generator yields dicts
#   h: helper, c: worker case, exp: expected canonical result | E | None (no spec for this input),
#   coq: function(recorded result) -> Coq hcase term (or None), nt: key if non-trivial
# ----------------------------------------------------------------------------

class Cases:
    def __init__(self, ck):
        self.ck = ck
        self.tier = ck.tier
        self.rng = ck.rng
        self.quick = ck.tier == "quick"
        self.W = 3 if self.quick else 4          # exhaustive width bound
        self.out = []

    def add(self, h, c, exp, coq, kind="exh"):
        self.out.append({"h": h, "c": [h] + list(c), "exp": exp, "coq": coq, "kind": kind})

    def rw(self, lo=1, hi=MAXW):
        """seeded width: biased to boundaries"""
        r = self.rng.random()
        if r < 0.25:
            return self.rng.choice([1, 2, 5, 6, 7, 8, 31, 32, 33, 63, 64, 65, 69, 70])
        return self.rng.randint(lo, hi)

    def rv(self, w):
        r = self.rng.random()
        if r < 0.1:
            return 0
        if r < 0.2:
            return mask(w)
        if r < 0.3:
            return 1 << self.rng.randrange(w)
        return self.rng.getrandbits(w)

    # -- folds -----------------------------------------------------------------
    def folds(self):
        def tree_l(xs):
            t = xs[0]
            for x in xs[1:]:
                t = (t, x)
            return t
        nmax = 14 if self.quick else 40
        for n in range(0, nmax + 1):
            for right in (0, 1):
                self.add("binary_fold", [right, n], in_order(n) if n else E,
                         lambda r, right=right, n=n: f"HBinaryFold {cbool(right)} {n} {copt(r, r_tree)}")
            for bs in [None, 1, 2, 3, 4] + ([] if self.quick else [5, 6, 7, 8, 9]) + [0]:
                cbs = 2 if bs is None else bs
                exp = E if (n == 0 or (bs == 0 and n > 0)) else in_order(n)
                self.add("batched_fold", [n, bs], exp,
                         lambda r, n=n, cbs=cbs: f"HBatchedFold {n} {cbs} {copt(r, r_tree)}")
                if bs:
                    exp = ["tup", [["tup", [["int", x] for x in range(o, min(o + bs, n))]] for o in range(0, n, bs)]]
                    self.add("batch_args", [n, bs], exp,
                             lambda r, n=n, bs=bs: f"HBatchArgs {n} {bs} " + copt(
                                 r, lambda r: clist([clist([str(x[1]) for x in b[1]]) for b in r[1]])))
        # value level: subtraction (not associative, so the shape matters) and addition via the spec
        for _ in range(60 if self.quick else 600):
            n = self.rng.randint(1, 12)
            xs = [self.rng.randint(-50, 50) for _ in range(n)]
            right = self.rng.randrange(2)
            if right:
                acc = xs[-1]
                for x in reversed(xs[:-1]):
                    acc = x - acc
            else:
                acc = xs[0]
                for x in xs[1:]:
                    acc = acc - x
            self.add("binary_fold_sub", [right, xs], ["int", acc],
                     lambda r, right=right, xs=xs: f"HBinaryFoldSub {cbool(right)} {clist([cZ(x) for x in xs])} {copt(r, r_int)}",
                     "seeded")
            bs = self.rng.randint(1, 5)
            self.add("batched_fold_sub", [xs, bs], None,
                     lambda r, bs=bs, xs=xs: f"HBatchedFoldSub {clist([cZ(x) for x in xs])} {bs} {copt(r, r_int)}",
                     "seeded")

    # -- concat / repeat / stretch / pads ---------------------------------------------
    def operand_list_exh(self, maxlen, maxtotal):
        """lists of Bit / BitVector[1..2] operands with bounded total width, all values"""
        kinds = [("bit", 1), ("bv", 1), ("bv", 2)]
        for n in range(1, maxlen + 1):
            for ks in itertools.product(kinds, repeat=n):
                if sum(k[1] for k in ks) > maxtotal:
                    continue
                if n > 2 and any(k == ("bv", 1) for k in ks):
                    continue          # Bit and BitVector[1] behave alike beyond the first operands
                for vals in itertools.product(*[range(1 << k[1]) for k in ks]):
                    yield [([k[0], v] if k[0] == "bit" else [k[0], k[1], v]) for k, v in zip(ks, vals)]

    def spec_concat(self, ops):
        w = 0
        v = 0
        for o in ops:
            ow = 1 if o[0] == "bit" else o[1]
            v = (v << ow) | o[-1]
            w += ow
        return ["bv", w, v]

    def concat(self):
        def coq(ops):
            terms = clist([cB(1 if o[0] == "bit" else o[1], o[-1]) for o in ops])
            return lambda r: f"HConcat {terms} {copt(r, r_bits)}"
        for ops in self.operand_list_exh(5, 5 if self.quick else 6):
            self.add("concat", [ops], self.spec_concat(ops), coq(ops))
        for _ in range(60 if self.quick else 800):
            n = self.rng.randint(1, 9)
            ops = []
            for _ in range(n):
                if self.rng.random() < 0.3:
                    ops.append(["bit", self.rng.randrange(2)])
                else:
                    w = self.rw(1, MAXW // 2)
                    ops.append([self.rng.choice(["bv", "u", "s"]), w, self.rv(w)])
            self.add("concat", [ops], self.spec_concat(ops), coq(ops), "seeded")

    def repeat_stretch(self):
        W = self.W
        tmax = 9 if self.quick else 33
        vals = [["bit", 0], ["bit", 1]] + [["bv", w, v] for w in range(1, W + 1) for v in range(1 << w)]
        for val in vals:
            w = 1 if val[0] == "bit" else val[1]
            v = val[-1]
            for t in range(0, tmax + 1):
                exp = E if t == 0 else ["bv", w * t, frombits(tobits(w, v) * t)]
                self.add("repeat", [val, t], exp,
                         lambda r, w=w, v=v, t=t: f"HRepeat {cB(w, v)} {t} {copt(r, r_bits)}")
            for f in range(0, 6 if self.quick else 9):
                exp = E if f == 0 else ["bv", w * f, frombits([b for b in tobits(w, v) for _ in range(f)])]
                isbit = val[0] == "bit"
                self.add("stretch", [val, f], exp,
                         lambda r, w=w, v=v, f=f, isbit=isbit: f"HStretch {cbool(isbit)} {cB(w, v)} {f} {copt(r, r_bits)}")
        for _ in range(40 if self.quick else 500):
            w = self.rw(1, 20)
            v = self.rv(w)
            t = self.rng.randint(1, MAXW // w + 2)
            self.add("repeat", [["bv", w, v], t], ["bv", w * t, frombits(tobits(w, v) * t)],
                     lambda r, w=w, v=v, t=t: f"HRepeat {cB(w, v)} {t} {copt(r, r_bits)}", "seeded")
            f = self.rng.randint(1, MAXW // w + 2)
            self.add("stretch", [["bv", w, v], f], ["bv", w * f, frombits([b for b in tobits(w, v) for _ in range(f)])],
                     lambda r, w=w, v=v, f=f: f"HStretch false {cB(w, v)} {f} {copt(r, r_bits)}", "seeded")

    def pads(self):
        fills = [("none", 0), ("null", 0), ("full", 1), ("b0", 0), ("b1", 1)]

        def one(w, v, rw, l, rt, fill, kind):
            fname, fb = fill
            exp = E if rw < w else ["bv", rw, v | ((mask(rw - w) << w) if fb else 0)]
            self.add("leftpad", [[w, v], rw, fname], exp,
                     lambda r: f"HLeftpad {cB(w, v)} {rw} {cbool(fb)} {copt(r, r_bits)}", kind)
            exp = E if rw < w else ["bv", rw, (v << (rw - w)) | (mask(rw - w) if fb else 0)]
            self.add("rightpad", [[w, v], rw, fname], exp,
                     lambda r: f"HRightpad {cB(w, v)} {rw} {cbool(fb)} {copt(r, r_bits)}", kind)
            if fname != "none":
                exp = ["bv", w + l + rt, (v << rt) | (mask(rt) if fb else 0) | ((mask(l) << (w + rt)) if fb else 0)]
                self.add("pad", [[w, v], l, rt, fname], exp,
                         lambda r: f"HPad {cB(w, v)} {l} {rt} {cbool(fb)} {copt(r, r_bits)}", kind)
        for w in range(1, self.W + 1):
            for v in range(1 << w):
                for fill in fills:
                    for rw in range(max(1, w - 1), w + 5):
                        d = max(0, rw - w)
                        one(w, v, rw, d, (d * 3 + v) % 4, fill, "exh")
        for _ in range(40 if self.quick else 500):
            w = self.rw(1, MAXW - 1)
            one(w, self.rv(w), self.rng.randint(w, MAXW), self.rng.randint(0, 12), self.rng.randint(0, 12),
                self.rng.choice(fills), "seeded")

    # -- rotations / fills ----------------------------------------------------------------
    def rotations(self):
        def one(w, v, n, kind):
            b = tobits(w, v)
            bad = n > w or n < 0
            exp = E if bad else ["bv", w, frombits([b[(i - n) % w] for i in range(w)])]
            self.add("rol", [[w, v], n], exp,
                     (lambda r: f"HRol {cB(w, v)} {n} {copt(r, r_bits)}") if n >= 0 else (lambda r: None), kind)
            exp = E if bad else ["bv", w, frombits([b[(i + n) % w] for i in range(w)])]
            self.add("ror", [[w, v], n], exp,
                     (lambda r: f"HRor {cB(w, v)} {n} {copt(r, r_bits)}") if n >= 0 else (lambda r: None), kind)
        for w in range(1, self.W + 2):
            for v in range(1 << w):
                for n in range(-1, w + 2):
                    one(w, v, n, "exh")
        for _ in range(60 if self.quick else 800):
            w = self.rw()
            one(w, self.rv(w), self.rng.randint(0, w), "seeded")

    def fills(self):
        def one(w, v, fop, kind):
            wf = 1 if fop[0] == "bit" else fop[1]
            fv = fop[-1]
            exp = E if wf > w else ["bv", w, ((v << wf) | fv) & mask(w)]
            self.add("lshift_fill", [[w, v], fop], exp,
                     lambda r: f"HLshiftFill {cB(w, v)} {cB(wf, fv)} {copt(r, r_bits)}", kind)
            exp = E if wf > w else ["bv", w, ((fv << w) | v) >> wf]
            self.add("rshift_fill", [[w, v], fop], exp,
                     lambda r: f"HRshiftFill {cB(w, v)} {cB(wf, fv)} {copt(r, r_bits)}", kind)
        for w in range(1, self.W + 1):
            for v in range(1 << w):
                for fop in [["bit", 0], ["bit", 1]] + [["bv", wf, fv] for wf in range(1, w + 2) for fv in range(1 << wf)]:
                    one(w, v, fop, "exh")
        for _ in range(60 if self.quick else 800):
            w = self.rw()
            wf = self.rng.randint(1, w)
            one(w, self.rv(w), ["bv", wf, self.rv(wf)] if self.rng.random() < 0.8 else ["bit", self.rng.randrange(2)], "seeded")

    # -- masks ------------------------------------------------------------------------
    def masks(self):
        def one(w, o, n, wm, m, kind):
            exp = E if wm != w else ["bv", w, (o & ~m) | (n & m)]
            self.add("apply_mask", [[w, o], [w, n], [wm, m]], exp,
                     lambda r: f"HApplyMask {cB(w, o)} {cB(w, n)} {cB(wm, m)} {copt(r, r_bits)}", kind)
        for w in range(1, self.W + 1):
            for o in range(1 << w):
                for n in range(1 << w):
                    for m in range(1 << w):
                        one(w, o, n, w, m, "exh")
                    self.add("mask", ["apply", ["null"], [w, o], [w, n], w], ["bv", w, o],
                             lambda r, w=w, o=o, n=n: f"HMaskApply MNull {cB(w, o)} {cB(w, n)} {copt(r, r_bits)}")
                    self.add("mask", ["apply", ["full"], [w, o], [w, n], w], ["bv", w, n],
                             lambda r, w=w, o=o, n=n: f"HMaskApply MFull {cB(w, o)} {cB(w, n)} {copt(r, r_bits)}")
                    m = (o * 5 + n * 3 + 1) & mask(w)
                    self.add("mask", ["apply", ["vec", w, m], [w, o], [w, n], w], ["bv", w, (o & ~m) | (n & m)],
                             lambda r, w=w, o=o, n=n, m=m: f"HMaskApply (MVec {cB(w, m)}) {cB(w, o)} {cB(w, n)} {copt(r, r_bits)}")
                self.add("mask", ["vector", ["vec", w, o], None, None, w], ["bv", w, o],
                         lambda r, w=w, o=o: f"HMaskVector (MVec {cB(w, o)}) {w} {copt(r, r_bits)}")
            self.add("mask", ["vector", ["null"], None, None, w], ["bv", w, 0],
                     lambda r, w=w: f"HMaskVector MNull {w} {copt(r, r_bits)}")
            self.add("mask", ["vector", ["full"], None, None, w], ["bv", w, mask(w)],
                     lambda r, w=w: f"HMaskVector MFull {w} {copt(r, r_bits)}")
            one(w, 0, mask(w), w + 1, 1, "exh")
        for _ in range(60 if self.quick else 800):
            w = self.rw()
            one(w, self.rv(w), self.rv(w), w, self.rv(w), "seeded")

    # -- batched / select_batch -----------------------------------------------------------
    def batches(self):
        def one(w, v, n, partial, kind):
            if n == 0 or (w % n != 0 and not partial):
                exp = E
            else:
                exp = ["tup", [["bv", min(n, w - o), (v >> o) & mask(min(n, w - o))] for o in range(0, w, n)]]
            self.add("batched", [[w, v], n, partial], exp,
                     lambda r: f"HBatched {cB(w, v)} {n} {cbool(partial)} " + copt(
                         r, lambda r: clist([r_bits(x) for x in r[1]])), kind)
        for w in range(1, self.W + 3):
            for v in range(1 << w):
                for n in range(0, w + 2):
                    for partial in (0, 1):
                        one(w, v, n, partial, "exh")
        for _ in range(60 if self.quick else 600):
            w = self.rw()
            one(w, self.rv(w), self.rng.randint(1, min(w, 12)), 1, "seeded")

        def sel(ws, s, bs, wv, v, kind):
            if wv != ws * bs:
                exp = E
            else:
                acc = 0
                for k in range(ws):
                    if (s >> k) & 1:
                        acc |= (v >> (k * bs)) & mask(bs)
                exp = ["bv", bs, acc]
            self.add("select_batch", [[wv, v], [ws, s], bs], exp,
                     lambda r: f"HSelectBatch {cB(wv, v)} {cB(ws, s)} {bs} {copt(r, r_bits)}", kind)
        tot = 6 if self.quick else 8
        for ws in range(1, 5):
            for bs in range(1, 5):
                if ws * bs > tot:
                    continue
                for s in range(1 << ws):
                    for v in range(1 << (ws * bs)):
                        sel(ws, s, bs, ws * bs, v, "exh")
                sel(ws, 1, bs, ws * bs + 1, 1, "exh")
        for _ in range(60 if self.quick else 600):
            ws = self.rng.randint(1, 9)
            bs = self.rng.randint(1, MAXW // ws)
            s = (1 << self.rng.randrange(ws)) if self.rng.random() < 0.7 else self.rv(ws)
            sel(ws, s, bs, ws * bs, self.rv(ws * bs), "seeded")

    # -- min / max ------------------------------------------------------------------------
    def minmax(self):
        def one(elems, keyed, form, kind, which=None):
            """elems: tagged numeric operands; keyed: wrap into (tag, elem) tuples with key=x[1]"""
            n = len(elems)
            nums = [elem_num(e) for e in elems]
            ops = [["tup", [["int", i], e]] for i, e in enumerate(elems)] if keyed else elems
            czz = clist([f"({cZ(i if keyed else 0)}, {cZ(x)})" for i, x in enumerate(nums)])
            single_arg = (form == "args" and n == 1)      # minimum(x) treats x as the container

            def r_zz(r):
                if keyed:
                    return f"({cZ(r[1][0][1])}, {cZ(elem_num(r[1][1]))})"
                return f"({cZ(0)}, {cZ(elem_num(r))})"

            for ismax in (0, 1):
                if n == 0:
                    best = None
                elif ismax:
                    best = max(range(n), key=lambda i: (nums[i], -i))
                else:
                    best = min(range(n), key=lambda i: (nums[i], i))
                iw = upto_width(n)
                names = ("maximum", "max_element", "max_index") if ismax else ("minimum", "min_element", "min_index")
                if which is not None and names[0] not in which and names[1] not in which and names[2] not in which:
                    continue
                none = (n == 0 or single_arg)
                exp = (E if n == 0 else None) if none else ops[best]
                self.add(names[0], [form, ops, keyed], exp,
                         (lambda r, ismax=ismax: None if single_arg else f"HMinimum {cbool(ismax)} {czz} {copt(r, r_zz)}"), kind)
                if form != "args":
                    exp = E if n == 0 else ["tup", [["u", iw, best], ops[best]]]
                    self.add(names[1], [form, ops, keyed], exp,
                             lambda r, ismax=ismax: f"HMinElement {cbool(ismax)} {czz} " + copt(
                                 r, lambda r: f"({r_uns(r[1][0])}, {r_zz(r[1][1])})"), kind)
                    exp = E if n == 0 else ["u", iw, best]
                    self.add(names[2], [form, ops, keyed], exp,
                             lambda r, ismax=ismax: f"HMinIndex {cbool(ismax)} {czz} {copt(r, r_uns)}", kind)
        vw = 2
        lmax = 4 if self.quick else 5
        one([], 0, "list", "exh")
        for n in range(1, lmax + 1):
            for vals in itertools.product(range(1 << vw), repeat=n):
                one([["u", vw, v] for v in vals], 0, "list", "exh")
                one([["u", vw, v] for v in vals], 1, "tuple" if n % 2 else "list", "exh")
        for n in range(1, 4):
            for vals in itertools.product(range(1 << 3), repeat=n):
                one([["s", 3, v] for v in vals], 0, "args" if n > 1 else "list", "exh")
        if not self.quick:
            for vals in itertools.product(range(3), repeat=7):
                one([["int", v] for v in vals], 1, "list", "exh")
        for _ in range(80 if self.quick else 1500):
            n = self.rng.randint(1, 12)
            w = self.rw()
            t = self.rng.choice(["u", "s"])
            pool = [self.rv(w) for _ in range(self.rng.randint(1, 4))]
            one([[t, w, self.rng.choice(pool)] for _ in range(n)], self.rng.randrange(2),
                self.rng.choice(["list", "tuple", "args"]), "seeded")

    # -- counting ------------------------------------------------------------------------
    def counts(self):
        def one(flags, via, kind, cont="list"):
            n = len(flags)
            val = ["u", 3, 5]
            other = [["u", 3, 2], ["u", 3, 7]]
            if cont == "bv":
                elems = ["bv", n, frombits(flags)]
                val = ["bit", 1]
            else:
                elems = [val if f else other[i % 2] for i, f in enumerate(flags)]
            exp = ["u", 1, 0] if n == 0 else ["u", bitlen(n), sum(flags)]
            cf = clist([cbool(f) for f in flags])
            self.add("count", [cont, elems, val, via], exp, lambda r: f"HCount {cf} {copt(r, r_uns)}", kind)
            if cont == "list":
                pl = 0
                while pl < n and flags[pl]:
                    pl += 1
                self.add("count_elements_while", [elems, val, "value" if via != "check" else "cond"],
                         ["u", upto_width(n), pl], lambda r: f"HCountWhile {cf} {copt(r, r_uns)}", kind)
                pl = 0
                while pl < n and not flags[pl]:
                    pl += 1
                self.add("count_elements_until", [elems, val, "value" if via != "check" else "cond"],
                         ["u", upto_width(n), pl], lambda r: f"HCountUntil {cf} {copt(r, r_uns)}", kind)
        lmax = 7 if self.quick else 11
        for n in range(0, lmax + 1):
            for k, flags in enumerate(itertools.product((0, 1), repeat=n)):
                one(list(flags), ("value", "kw", "check")[k % 3], "exh", "bv" if (n > 0 and k % 4 == 3) else "list")
        for _ in range(60 if self.quick else 600):
            n = self.rng.randint(8, MAXW)
            p = self.rng.random()
            one([1 if self.rng.random() < p else 0 for _ in range(n)], self.rng.choice(["value", "kw", "check"]), "seeded",
                self.rng.choice(["list", "bv"]))

    def popcounts(self):
        def one(w, v, bs, kind, patched=1):
            cbs = 6 if bs is None else bs
            bad = cbs == 0
            for name, val, con in (("count_set_bits", popcount(v), "HCountSetBits"),
                                   ("count_clear_bits", w - popcount(v), "HCountClearBits")):
                exp = E if bad else ["u", bitlen(w), val]
                if not patched:
                    # python level, unpatched select_with: recorded for the evidence only
                    self.add(name, [[w, v], bs, 0], None, lambda r: None, "unpatched")
                    continue
                self.add(name, [[w, v], bs, 1], exp,
                         lambda r, con=con: f"{con} {cB(w, v)} {cbs} {copt(r, r_uns)}", kind)
        wmax = 7 if self.quick else 10
        for w in range(1, wmax + 1):
            for v in range(1 << w):
                for bs in ([1, 2, 3, 4, None] if w <= 6 else [2, 3, None]):
                    one(w, v, bs, "exh")
        for w in (1, 3, 7):
            one(w, 1, None, "exh", patched=0)
        one(3, 5, 0, "exh")
        for _ in range(150 if self.quick else 2500):
            w = self.rw()
            one(w, self.rv(w), self.rng.choice([1, 2, 3, 4, 5, 6, 7, 8, None]), "seeded")

    def leading_trailing(self):
        def one(w, v, kind):
            b = tobits(w, v)

            def pl(bits, x):
                k = 0
                while k < len(bits) and bits[k] == x:
                    k += 1
                return k
            iw = upto_width(w)
            for name, bits, x, con in (("count_trailing_zeros", b, 0, "HCountTrailing false"),
                                       ("count_trailing_ones", b, 1, "HCountTrailing true"),
                                       ("count_leading_zeros", b[::-1], 0, "HCountLeading false"),
                                       ("count_leading_ones", b[::-1], 1, "HCountLeading true")):
                self.add(name, [[w, v]], ["u", iw, pl(bits, x)],
                         lambda r, con=con: f"{con} {cB(w, v)} {copt(r, r_uns)}", kind)
            self.add("reverse_bits", [["bv", w, v]], ["bv", w, frombits(b[::-1])],
                     lambda r: f"HReverseBits {cB(w, v)} {copt(r, r_bits)}", kind)
            self.add("is_one_hot", [["bv", w, v]], ["bool", int(popcount(v) == 1)],
                     lambda r: f"HIsOneHot {cB(w, v)} " + copt(r, lambda r: cbool(r[1])), kind)
        for w in range(1, (6 if self.quick else 9) + 1):
            for v in range(1 << w):
                one(w, v, "exh")
        for _ in range(60 if self.quick else 800):
            w = self.rw()
            one(w, self.rv(w), "seeded")
        for w in range(1, MAXW + 1):
            for pos in (range(0, w + 2) if (w <= 9 or not self.quick) else sorted({0, 1, w // 2, w - 1, w})):
                self.add("one_hot", [w, ["int", pos]], E if pos >= w else ["bv", w, 1 << pos],
                         lambda r, w=w, pos=pos: f"HOneHot {w} {pos} {copt(r, r_bits)}")
        for w in (1, 2, 5):
            for pos in range(w):
                pw = upto_width(w - 1)
                self.add("one_hot", [w, ["u", pw, pos]], ["bv", w, 1 << pos],
                         lambda r, w=w, pos=pos: f"HOneHot {w} {pos} {copt(r, r_bits)}")

    def clamps(self):
        def one(t, w, val, lo, hi, kind):
            if t == "int":
                rng, op, crng = None, ["int", val], "None"
            elif t == "u":
                rng, op = (0, mask(w)), ["u", w, val]
            else:
                rng, op = (-(1 << (w - 1)), (1 << (w - 1)) - 1), ["s", w, val & mask(w)]
            if rng:
                crng = f"(Some ({cZ(rng[0])}, {cZ(rng[1])}))"
            bad = rng is not None and not (rng[0] <= lo <= rng[1] and rng[0] <= hi <= rng[1])
            if bad:
                exp = E
            elif lo <= hi:
                res = max(lo, min(hi, val))
                exp = ["int", res] if t == "int" else [t, w, res & mask(w)]
            else:
                exp = None          # no mathematical definition for an empty interval

            def rz(r):
                return cZ(elem_num(r))
            self.add("clamp", [op, lo, hi], exp,
                     lambda r: f"HClamp {crng} {cZ(val)} {cZ(lo)} {cZ(hi)} {copt(r, rz)}", kind)
        w = self.W
        for val in range(1 << w):
            for lo in range(-1, (1 << w) + 1):
                for hi in range(-1, (1 << w) + 1):
                    one("u", w, val, lo, hi, "exh")
        sw = 3
        for val in range(-4, 4):
            for lo in range(-5, 5):
                for hi in range(-5, 5):
                    one("s", sw, val, lo, hi, "exh")
                    if not self.quick or (lo + hi) % 3 == 0:
                        one("int", 0, val, lo, hi, "exh")
        for _ in range(60 if self.quick else 800):
            w = self.rw()
            t = self.rng.choice(["u", "s"])
            lo_r, hi_r = (0, mask(w)) if t == "u" else (-(1 << (w - 1)), (1 << (w - 1)) - 1)
            a, b = sorted([self.rng.randint(lo_r, hi_r), self.rng.randint(lo_r, hi_r)])
            val = self.rng.choice([a, b, a - 1, b + 1, self.rng.randint(lo_r, hi_r), lo_r, hi_r])
            val = min(max(val, lo_r), hi_r)
            one(t, w, val, a, b, "seeded")

    def choosers(self):
        lmax = 4 if self.quick else 6
        for n in range(0, lmax + 1):
            for conds in itertools.product((0, 1), repeat=n):
                pairs = [[c, 10 + i] for i, c in enumerate(conds)]
                first = next((10 + i for i, c in enumerate(conds) if c), 99)
                cp = clist([f"({cbool(c)}, {cZ(x)})" for c, x in pairs])
                self.add("choose_first", [pairs, 99], ["int", first],
                         lambda r, cp=cp: f"HChooseFirst {cp} {cZ(99)} {copt(r, r_int)}")
        for n in range(0, 5):
            keys = [3, 7, -1, 0][:n]
            for arg in [3, 7, -1, 0, 5]:
                br = [[k, 20 + i] for i, k in enumerate(keys)]
                exp = next((v for k, v in br if k == arg), 77)
                cb = clist([f"({cZ(k)}, {cZ(v)})" for k, v in br])
                self.add("select", [arg, br, 77], ["int", exp],
                         lambda r, cb=cb, arg=arg: f"HSelect {cZ(arg)} {cb} {cZ(77)} {copt(r, r_int)}")
        for c in (0, 1):
            self.add("cond", [c, 4, 9], ["int", 4 if c else 9], lambda r, c=c: f"HCond {cbool(c)} {cZ(4)} {cZ(9)} {copt(r, r_int)}")

    def crcs(self):
        def one(n, poly, init, inv, steps, kinds, kind):
            msg = [b for s in steps for b in s]
            L = len(msg)
            m = 0
            for b in msg:
                m = (m << 1) | b
            rem = polymod((init << L) ^ (m << n), (1 << n) | poly)
            if inv:
                rem ^= mask(n)
            csteps = clist([clist([cbool(b) for b in s]) for s in steps])
            if n == 1:
                # a 1-bit register is rejected by the code (reg.lsb(rest=1) is empty): outside the modelled domain
                for k in kinds:
                    if k != "calc" or len(steps) == 1:
                        self.add("crc", [k, [n, poly], [n, init], inv, steps], E if msg else None, lambda r: None, kind)
                return
            for k in kinds:
                if k == "calc":
                    if len(steps) != 1 or inv:
                        continue
                    exp = E if not msg else ["bv", n, rem]
                    self.add("crc", ["calc", [n, poly], [n, init], 0, steps], exp,
                             lambda r: f"HCrcCalc {cB(n, poly)} {cB(n, init)} {clist([cbool(b) for b in msg])} {copt(r, r_bits)}", kind)
                else:
                    exp = E if (k == "multi" and any(len(s) == 0 for s in steps)) else ["bv", n, rem]
                    self.add("crc", [k, [n, poly], [n, init], inv, steps], exp,
                             lambda r, k=k: f"HCrcRun {cbool(k == 'multi')} {cbool(inv)} {cB(n, poly)} {cB(n, init)} {csteps} {copt(r, r_bits)}", kind)
        nmax = 3 if self.quick else 4
        self.add("crc", ["single", [3, 3], [3, 5], 1, [[1, 0]], 1], None, lambda r: None, "unpatched")
        for n in range(1, nmax + 1):
            for poly in range(1 << n):
                for init in range(1 << n):
                    for L in range(0, 4 if self.quick else 6):
                        for mv in range(1 << L):
                            msg = [(mv >> i) & 1 for i in range(L)]
                            one(n, poly, init, 0, [msg], ["calc", "single", "multi"], "exh")
                            if L >= 2:
                                one(n, poly, init, (mv + init) & 1, [msg[:1], msg[1:]], ["single", "multi"], "exh")
        std_polys = [(5, 0x05), (8, 0x07), (16, 0x1021), (16, 0x8005), (32, 0x04C11DB7), (64, 0x42F0E1EBA9EA3693)]
        # CRC-32/MPEG-2 and CRC-16/CCITT-FALSE check values of b"123456789"
        data = [(byte >> (7 - i)) & 1 for byte in b"123456789" for i in range(8)]
        self._crc_checks = [(32, 0x04C11DB7, 0xFFFFFFFF, 0x0376E6E7), (16, 0x1021, 0xFFFF, 0x29B1), (8, 0x07, 0, 0xF4)]
        for n, poly, init, chk in self._crc_checks:
            steps = [data[i:i + 8] for i in range(0, len(data), 8)]
            one(n, poly, init, 0, steps, ["single", "multi"], "corpus")
            assert polymod((init << len(data)) ^ (frombits(data[::-1]) << n), (1 << n) | poly) == chk
        for _ in range(40 if self.quick else 500):
            if self.rng.random() < 0.5:
                n, poly = self.rng.choice(std_polys)
            else:
                n = self.rw()
                poly = self.rv(n)
            init = self.rng.choice([0, mask(n), self.rv(n)])
            steps = [[self.rng.randrange(2) for _ in range(self.rng.randint(1, 9))] for _ in range(self.rng.randint(1, 6))]
            one(n, poly, init, self.rng.randrange(2), steps, ["single", "multi"] + (["calc"] if len(steps) == 1 else []), "seeded")

    def all(self):
        for g in (self.folds, self.concat, self.repeat_stretch, self.pads, self.rotations, self.fills, self.masks,
                  self.batches, self.minmax, self.counts, self.popcounts, self.leading_trailing, self.clamps,
                  self.choosers, self.crcs):
            g()
        return self.out


# regression corpus: shapes taken from the upstream tests (tests/reference_builds/std/utility, tests/not_evaluated/std)
def corpus(cs: Cases):
    out_before = len(cs.out)
    cs.add("one_hot", [4, ["int", 0]], ["bv", 4, 1], lambda r: f"HOneHot 4 0 {copt(r, r_bits)}", "corpus")
    cs.add("one_hot", [4, ["int", 3]], ["bv", 4, 8], lambda r: f"HOneHot 4 3 {copt(r, r_bits)}", "corpus")
    cs.add("reverse_bits", [["bv", 8, 0b11010000]], ["bv", 8, 0b00001011],
           lambda r: f"HReverseBits {cB(8, 0b11010000)} {copt(r, r_bits)}", "corpus")
    cs.add("batched_fold", [5, None], in_order(5), lambda r: f"HBatchedFold 5 2 {copt(r, r_tree)}", "corpus")
    cs.add("batched_fold", [7, 3], in_order(7), lambda r: f"HBatchedFold 7 3 {copt(r, r_tree)}", "corpus")
    return len(cs.out) - out_before


def split(xs, n):
    k = max(1, (len(xs) + n - 1) // n)
    return [xs[i:i + k] for i in range(0, len(xs), k)]


PREAMBLE = ("From Coq Require Import ZArith NArith List Bool.\nImport ListNotations.\n"
            "From Cohdl Require Import Base.Bits Models.Helpers.\n")


def oneliner(case):
    return ("echo '%s' | PYTHONPATH=%s /venv/bin/python /verif/harness/c18_worker.py"
            % (json.dumps({"cases": [case]}), common.REPO))


def run(ck: common.Check, replay=None):
    ck.check_props("C18_Properties.v")
    ck.trusted += [
        "c18_worker.py: construction of cohdl constants from (width, value) and canonicalisation of results",
        "python reference definitions spec_* in harness/c18.py (popcount, rotation as index permutation, GF(2) long division ...)",
        "value-equality rendering of cohdl.select_with used for count_set_bits/count_clear_bits "
        "(the python-level fallback hashes the argument and never matches an Unsigned against the int keys; "
        "the emitted VHDL is a selected assignment comparing by value)",
    ]
    ck.assumptions += [
        "helpers are observed at python level on compile-time constants (the same python bodies are what the compiler "
        "traces in synthesizable contexts); the VHDL emitted for them is covered by the operator properties, not here",
        "operators of Bit/BitVector/Unsigned (@, &, |, ~, ^, +, <<, slicing, comparison) are those of the real cohdl types "
        "in the worker and list/Z operations in the model; their agreement is part of what the correspondence run checks",
        "widths <= 70, list lengths <= 70, batch sizes <= 9 in the correspondence run; the theorems cover all sizes",
    ]
    cs = Cases(ck)
    if replay is not None:
        case = replay["case"]
        res = common.run_worker("c18_worker.py", {"cases": [case]})["results"][0]
        exp = replay.get("expected")
        exp_f = E if exp == ["E"] else exp
        if isinstance(exp, str) and exp.startswith("in-order"):
            exp_f = in_order(case[2] if case[0] == "binary_fold" else case[1])
        ok = same(res, exp_f)
        ck.evaluations += 1
        ck.obligation(ok)
        print("replay: case=%s observed=%s expected=%s -> %s" % (json.dumps(case), json.dumps(res), json.dumps(exp),
                                                               "ok" if ok else "MISMATCH"))
        if not ok:
            ck.violation(replay.get("key", {"helper": case[0]}), replay.get("what", "replayed case still fails"),
                         {"case": case, "expected": exp, "observed": res, "python": oneliner(case)})
        return
    ncorpus = corpus(cs)
    cases = cs.all()
    ck.cov["corpus_cases"] = ncorpus
    # 3. real code
    parts = split([c["c"] for c in cases], common.NCPU)
    outs = common.run_workers("c18_worker.py", [{"cases": p} for p in parts], timeout=3000)
    results = [r for o in outs for r in o["results"]]
    assert len(results) == len(cases)
    ck.cov["worker_tree"] = outs[0]["meta"]["cohdl"]
    # 4. model in Coq
    terms = []
    idx = []
    for i, (c, r) in enumerate(zip(cases, results)):
        c["r"] = r
        t = c["coq"](r) if c["kind"] != "unpatched" else None
        if t is not None:
            terms.append("(" + t + ")")
            idx.append(i)
    bi = common.coq_bad_indices(ck, "cases", PREAMBLE, "hcase", terms, "hcase_ok", shard=500, timeout=2400)
    bad = {idx[j] for j in bi}
    in_coq = set(idx)
    # 5./6. decide per case
    per_helper = {}
    for i, c in enumerate(cases):
        h = c["h"]
        r = c["r"]
        ck.evaluations += 1
        ck.hist("cases_per_helper", h)
        ck.hist("kind", c["kind"])
        if c["kind"] == "unpatched":
            ck.hist("python_level_unpatched:" + h, json.dumps(r))
            continue
        if is_err(r):
            ck.hist("errors", h + ":" + r[1])
        spec_ok = same(r, c["exp"])
        model_ok = i not in bad
        ck.obligation(spec_ok)
        if i in in_coq:
            ck.obligation(model_ok)
        if c["exp"] is not None:
            ck.count("spec_checked")
        if i in in_coq:
            ck.count("model_checked")
        if spec_ok and model_ok and not is_err(r):
            ck.nontrivial(c["c"])
        st = per_helper.setdefault(h, {"spec": [], "model": []})
        if not spec_ok:
            st["spec"].append(i)
        elif not model_ok:
            st["model"].append(i)
    for s in cases[ncorpus::max(1, len(cases) // 6)]:
        ck.sample({"case": s["c"], "observed": s["r"],
                   "expected": "any error" if s["exp"] is E else ("in-order bracketing" if callable(s["exp"]) else s["exp"])})
    for h, st in sorted(per_helper.items()):
        if st["spec"]:
            i = min(st["spec"], key=lambda i: len(json.dumps(cases[i]["c"])))
            c = cases[i]
            exp = ["E"] if c["exp"] is E else ("in-order bracketing of the operands" if callable(c["exp"]) else c["exp"])
            ck.violation({"helper": h, "class": "spec"},
                         "std.%s does not return its mathematical definition (%d of the generated inputs)" % (h, len(st["spec"])),
                         {"case": c["c"], "expected": exp, "observed": c["r"], "failing_inputs": len(st["spec"]),
                          "model_agrees_with_code": i not in bad, "python": oneliner(c["c"]),
                          "more": [cases[j]["c"] for j in st["spec"][:5]]})
        if st["model"]:
            i = min(st["model"], key=lambda i: len(json.dumps(cases[i]["c"])))
            c = cases[i]
            exp = ["E"] if c["exp"] is E else ("in-order bracketing of the operands" if callable(c["exp"]) else c["exp"])
            ck.violation({"helper": h, "class": "model"},
                         "Gallina model of std.%s no longer matches the code although the result meets the specification on all "
                         "generated inputs (%d cases): the theorems about it no longer speak about the code" % (h, len(st["model"])),
                         {"case": c["c"], "expected": exp, "observed": c["r"], "coq_case": c["coq"](c["r"]),
                          "python": oneliner(c["c"])}, no_input=True)
    # CRC check values from the catalogue
    ck.cov["exhaustive"] = False
    ck.cov["exhaustive_part"] = (
        "all values for widths <= %d (rotations/fills/pads/masks/stretch/repeat), list lengths <= %d over 2-bit elements (min/max), "
        "all match patterns of length <= %d (count / count_elements), all vectors of width <= %d (popcounts, batch sizes 1..4 and 6), "
        "CRC widths <= %d x all polynomials x all initial values x all messages of length <= %d"
        % (cs.W, 4 if cs.quick else 5, 7 if cs.quick else 11, 7 if cs.quick else 10, 3 if cs.quick else 4, 3 if cs.quick else 5))
    ck.cov["rule"] = ("one case = one call of a real std helper on constants; non-trivial = the helper returned a value (no error) "
                      "that equals both the model and the python specification; distinct by (helper, operands)")
