"""C03, all-programs part: tie of the Gallina lowering model (Models/SeqLower.v) to the real compiler.

For every C03 case (clocked context) whose reference body lies inside the grammar of the all-programs theorem
(`in_grammar its sdecls vts body = true`, evaluated inside Coq) a second kernel-checked obligation is generated:

    the design the REAL compiler emitted  ==  the design `lower its sdecls vts sinit vinit body`
    (trace equality for ALL input sequences over the alphabet, design against design, `dcheck_s_sound`).

Together with `C03_lower_*` (lowered model == SeqRef for every body of the grammar) this ties model, reference
semantics and emitted VHDL pairwise on every run."""
from __future__ import annotations
import os

import common
import explore as X
import vhdl_reader as R

STY = {"bit": "SBit", "u2": "SUns 2%N", "bv4": "SSlv 4%N"}

PREAMBLE = (common.COQ_HEADER +
            "From Cohdl Require Import Equiv.VhdlTS Vhdl.DeadVars Equiv.StoreTS Equiv.RefTS Models.SeqRef Models.SeqLower.\n")

CASE_TMPL = """{pre}Definition dr : design := {dr}.
Definition its : list sty := {its}.
Definition sdecls : list sdecl := {sdecls}.
Definition vts : list sty := {vts}.
Definition sinit : list Z := {sinit}.
Definition vinit : list Z := {vinit}.
Definition body : stm := {body}.
Definition dl : design := Eval vm_compute in (lower its sdecls vts sinit vinit body).
Definition alphabet : list (list value) := {alphabet}.
Theorem in_g : in_grammar its sdecls vts body = true.
Proof. vm_cast_no_check (eq_refl true). Qed.
{count}Theorem case_ok : forall ins, Forall (fun i => In i alphabet) ins ->
  traceA (sstep dr false) (power_up_s dr) ins = traceA (sstep dl false) (power_up_s dl) ins.
Proof. apply (dcheck_s_sound dr dl false alphabet 1000000); vm_cast_no_check (eq_refl true). Qed.
"""

DIAG = """Eval vm_compute in (conc_all_ok (auto_Ts dr) dr, conc_all_ok (auto_Ts dl) dl).
Definition verdict := Eval vm_compute in (dcheck_s_bfs dr dl false alphabet 60000).
Eval vm_compute in verdict.
Eval vm_compute in (match verdict with
  | VCex path => Some (traceA (sstep dr false) (power_up_s dr) path, traceA (sstep dl false) (power_up_s dl) path)
  | _ => None end).
"""


def decls(c03, uni):
    its = "[" + "; ".join(STY[t] for _, t in c03.INPUTS) + "]"
    vts = "[" + "; ".join(STY[t] for _, t in c03.VARS) + "]"
    sinit = "[" + "; ".join(f"{(uni.sig_defaults[k] if uni.sig_hasdef[k] else 0)}%Z" for k in range(len(c03.SIGS))) + "]"
    vinit = "[" + "; ".join(f"{v}%Z" for v in uni.var_defaults) + "]"
    return its, uni.sdecls(), vts, sinit, vinit


def run_extra(ck, cases, c03):
    """cases: the explore.Case objects of C03 (with .design parsed, .meta['ref'], .meta['mode'], .uni)"""
    cand = [c for c in cases if c.meta.get("mode") == "clocked" and c.design is not None and getattr(c, "uni", None) is not None
            and c.uni.first_in == 0]
    ck.cov["lower_candidates_clocked"] = len(cand)
    ck.cov["lower_not_clocked"] = len(cases) - len(cand)
    if not cand:
        return
    # pass 1: which bodies are inside the grammar (evaluated by the Coq definition itself)
    terms = []
    for c in cand:
        its, sd, vts, _, _ = decls(c03, c.uni)
        terms.append(f"in_grammar {its} {sd} {vts} {c.meta['ref']}")
    outs = common.coq_eval_terms(ck, "c03_lower_grammar", PREAMBLE, terms)
    if len(outs) != len(cand):
        raise RuntimeError("c03_lower: grammar evaluation returned %d answers for %d bodies" % (len(outs), len(cand)))
    inside = [c for c, o in zip(cand, outs) if o.strip() == "true"]
    ck.cov["lower_in_grammar"] = len(inside)
    ck.cov["lower_outside_grammar"] = len(cand) - len(inside)
    files = []
    for c in inside:
        its, sd, vts, sinit, vinit = decls(c03, c.uni)
        path = os.path.join(ck.gen, c.name + "_lower.v")
        count = "Eval vm_compute in (dcheck_s dr dl false alphabet 1000000).\n" if len(files) < 3 else ""
        alpha = c.alphabet or X.default_alphabet(c.design, c.alphabet_overrides)
        with open(path, "w") as f:
            f.write(CASE_TMPL.format(pre=PREAMBLE, dr=R.design_to_coq(c.design), its=its, sdecls=sd, vts=vts, sinit=sinit,
                                     vinit=vinit, body=c.meta["ref"], alphabet=alpha, count=count))
        files.append((c, path))
        ck.evaluations += 1
    outs = common.coqc_many([p for _, p in files], timeout=2400)
    for (c, path), (rc, out, err) in zip(files, outs):
        if rc == 0:
            ck.obligation(True)
            ck.nontrivial(c.name + "_lower")
            o = common.coq_outputs(out)
            if o and o[0].startswith("VOk"):
                ck.sample({"case": c.name + "_lower", "verdict": o[0], "body": c.meta["ref"]}, limit=8)
            common._cleanup_v(path)
            continue
        ck.obligation(False)
        src = open(path).read()
        src = src[:src.index("Theorem case_ok")]
        dpath = path[:-2] + "_diag.v"
        open(dpath, "w").write(src + DIAG)
        rc2, out2, err2 = common.coqc(dpath, 3000)
        o = common.coq_outputs(out2)
        while o and not o[0].startswith("V"):
            o = o[1:]
        rep = {"case": c.name, "meta": c.meta, "vhdl": c.vhdl, "case_file": path}
        key = {"lower": c.meta["ref"]}
        if o and o[0].startswith("VCex"):
            rep.update({"path": o[0], "traces": o[1] if len(o) > 1 else ""})
            ck.violation(key, "emitted design and the lowering model (Models/SeqLower.v: lower) differ on an input sequence; "
                              "the model is proved equal to the documented semantics (C03_lower_*), so the emitted design "
                              "departs from it", rep)
        elif o and o[0].startswith("VFuel"):
            # product state space of a generated body above the exploration budget, no difference within the breadth-first
            # budget: undecided for lack of resources (generator artefact), withdrawn - see explore.run_cases
            ck.obligations -= 1
            ck.cov.setdefault("undecided_state_space_above_budget", []).append(c.name + "_lower")
        else:
            rep["log"] = (out + err + out2 + err2)[-1500:]
            ck.violation(key, "lowering-model obligation not discharged", rep, no_input=True)
    ck.cov["lower_rule"] = ("clocked C03 bodies inside in_grammar (whole-signal / variable / push targets, "
                            "Bit/Unsigned/BitVector objects, the operators of Models/SeqLower.v): emitted design == "
                            "lower(body) for all input sequences, kernel checked per case")
    ck.trusted += ["Models/SeqLower.v as the rendering of the compiler's statement printer (tied per case by design-against-design exploration)"]
