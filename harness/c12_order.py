"""C12 (extension) - the compiler's instantiation bookkeeping against Models/EmitOrder.v.

Generated instantiation graphs (templates shared at several depths, diamonds, repeated instances, instances created
inside contexts, unreachable classes, class names that are reserved words or collide case-insensitively, keyword
arguments in permuted order, malformed instantiations) are compiled with the real compiler.  From the emitted text
the ORDER of the `entity X is` units, the instances of every architecture in order and each instance's
`formal => actual` list are read (vhdl_reader.parse_library); the order in which architecture methods ran is
recorded by the generated source itself.  The same graph is evaluated by the model inside Coq
(`EmitOrder.compile`, vm_compute) and compared EXACTLY (`case_ok`).  A difference = the correspondence is broken:
then the property's own specification (python, below: each template once, sub-entity before user, each formal once
with the actual given for it, every architecture elaborated once) decides between a violation with the failing
input and "no failing input found".  The specification is also evaluated on every accepted case directly."""
from __future__ import annotations
import json
import os
import re

import common
import explore as X
import vhdl_reader as R

PREAMBLE = ("From Coq Require Import NArith Arith List Bool.\nImport ListNotations.\n"
            "From Cohdl Require Import Models.EmitOrder.\n")

TY_SRC = {"bit": "Bit", "u2": "Unsigned[2]", "bv2": "BitVector[2]", "s2": "Signed[2]", "bv4": "BitVector[4]"}
TY_COQ = {"bit": "TBit", "u2": "(TVec KUns 2%N)", "bv2": "(TVec KSlv 2%N)", "s2": "(TVec KSgn 2%N)", "bv4": "(TVec KSlv 4%N)"}
TY_KIND = {"bit": None, "u2": "uns", "bv2": "slv", "s2": "sgn", "bv4": "slv"}
KIND_COQ = {None: "None", "uns": "(Some KUns)", "slv": "(Some KSlv)", "sgn": "(Some KSgn)"}
VIEW = {"uns": ".unsigned", "slv": ".bitvector", "sgn": ".signed"}
NAME_ID = {"clk": 0, "e": 1, "a": 2, "b": 3, "o": 4, "p": 5, "zz": 6}

# declared port lists (name, direction, type) - different lengths and orders, outputs first in one of them
SHAPES = {
    "S0": [("a", "in", "u2"), ("b", "in", "u2"), ("o", "out", "u2")],
    "S1": [("clk", "in", "bit"), ("a", "in", "u2"), ("b", "in", "u2"), ("o", "out", "u2")],
    "S2": [("a", "in", "bv2"), ("b", "in", "bv2"), ("o", "out", "bv2")],
    "S3": [("e", "in", "bit"), ("a", "in", "u2"), ("o", "out", "u2"), ("p", "out", "bv2")],
    "S4": [("o", "out", "u2"), ("b", "in", "bv2"), ("a", "in", "u2")],
    "TOP": [("clk", "in", "bit"), ("e", "in", "bit"), ("a", "in", "u2"), ("b", "in", "bv2"), ("o", "out", "u2"), ("p", "out", "bv2")],
}


class Actual:
    """an object of the parent: root token, python expression, selection, root type, type of the object"""

    def __init__(self, root, expr, sel, root_ty, ty):
        self.root, self.expr, self.sel, self.root_ty, self.ty = root, expr, sel, root_ty, ty

    def coq(self):
        sel = {"whole": "SWhole", "slice": "(SSlice %d%%N %d%%N)", "elem": "(SElem %d%%N)"}[self.sel[0]]
        if self.sel[0] != "whole":
            sel = sel % tuple(self.sel[1:])
        return f"(mkact {self.root}%N {sel} {TY_COQ[self.root_ty]} {TY_COQ[self.ty]})"

    def canon(self):
        return (self.root, tuple(self.sel), TY_KIND[self.ty])


class Tmpl:
    def __init__(self, tid, name, shape):
        self.tid, self.name, self.shape = tid, name, shape
        self.ports = SHAPES[shape]
        self.arch = []       # instances: (child tid, [(port name, Actual)] in CALL order)
        self.ctx = []
        self.wires = []      # (wire index, type)
        self.assigns = []    # (target expr, source expr) concurrent assignments
        self.leaf_body = None


def view_expr(expr, have_kind, want_kind):
    return expr if have_kind == want_kind else expr + VIEW[want_kind]


class Gen:
    def __init__(self, rng, n_tmpl, flavour):
        self.rng = rng
        self.flavour = flavour
        self.tmpls: list[Tmpl] = []
        self.malformed = None
        n_leaf = rng.randint(1, 3)
        for i in range(n_tmpl):
            top = i == n_tmpl - 1
            shape = "TOP" if top else rng.choice(["S0", "S1", "S2", "S3", "S4"])
            t = Tmpl(i, self.class_name(i, top), shape)
            self.tmpls.append(t)
            if i < n_leaf:
                self.make_leaf(t)
            else:
                self.make_mid(t, top)
        self.apply_flavour()

    # -- names ---------------------------------------------------------------------------------
    def class_name(self, i, top):
        if top:
            return "Top"
        return "Cell%dq" % i

    def apply_flavour(self):
        fl, ts = self.flavour, self.tmpls
        if fl == "reserved" and len(ts) > 1:
            ts[self.rng.randrange(len(ts) - 1)].name = "Buffer"        # emitted under another name (Buffer1)
        elif fl == "case_collision" and len(ts) > 2:
            i, j = self.rng.sample(range(len(ts) - 1), 2)
            ts[j].name = ts[i].name.upper() if self.rng.random() < 0.5 else ts[i].name.swapcase()
        elif fl == "same_name" and len(ts) > 2:
            # two different classes with the same __name__ (the second is defined under another python identifier)
            i, j = self.rng.sample(range(len(ts) - 1), 2)
            ts[j].name = ts[i].name

    # -- bodies --------------------------------------------------------------------------------
    def make_leaf(self, t):
        ins = [(n, ty) for n, d, ty in t.ports if d == "in"]
        body = []
        for n, d, ty in t.ports:
            if d != "out":
                continue
            srcs = [view_expr("self." + m, TY_KIND[mt], TY_KIND[ty]) for m, mt in ins if mt != "bit"]
            if len(srcs) >= 2 and ty == "u2":
                body.append(f"self.{n} <<= {srcs[0]} + {srcs[1]}")
            elif len(srcs) >= 2:
                body.append(f"self.{n} <<= {srcs[0]} ^ {srcs[1]}")
            else:
                body.append(f"self.{n} <<= {srcs[0]}")
        t.leaf_body = body

    def sources(self, t, ty):
        """actuals of type ty readable in template t (inputs, wires written so far)"""
        out = []
        for k, (n, d, pty) in enumerate(t.ports):
            if d != "in":
                continue
            if ty == "bit":
                if pty == "bit":
                    out.append(Actual(k, "self." + n, ("whole",), pty, "bit"))
                else:
                    i = self.rng.randint(0, 1)
                    out.append(Actual(k, f"self.{n}[{i}]", ("elem", i), pty, "bit"))
            elif pty != "bit":
                out.append(Actual(k, view_expr("self." + n, TY_KIND[pty], TY_KIND[ty]), ("whole",), pty, ty))
        for w, wty in t.wires:
            if ty == "bit":
                continue
            if wty == "bv4":
                hi = self.rng.choice([1, 2, 3])
                out.append(Actual(100 + w, view_expr(f"w{w}[{hi}:{hi - 1}]", "slv", TY_KIND[ty]), ("slice", hi, hi - 1), wty, ty))
            else:
                out.append(Actual(100 + w, view_expr(f"w{w}", TY_KIND[wty], TY_KIND[ty]), ("whole",), wty, ty))
        return out

    def sink(self, t, ty, free_outs):
        """where a child output of type ty goes: a parent output port, or a fresh wire (whole / view / slice of a bus)"""
        r = self.rng.random()
        cands = [k for k in free_outs if t.ports[k][2] != "bit"]
        if cands and r < 0.35:
            k = self.rng.choice(cands)
            free_outs.remove(k)
            n, d, pty = t.ports[k]
            return Actual(k, view_expr("self." + n, TY_KIND[pty], TY_KIND[ty]), ("whole",), pty, ty)
        w = len(t.wires)
        if r < 0.55:
            t.wires.append((w, ty))
            return Actual(100 + w, f"w{w}", ("whole",), ty, ty)
        if r < 0.8:
            wty = self.rng.choice([x for x in ("u2", "bv2", "s2") if x != ty])
            t.wires.append((w, wty))
            return Actual(100 + w, view_expr(f"w{w}", TY_KIND[wty], TY_KIND[ty]), ("whole",), wty, ty)
        t.wires.append((w, "bv4"))
        hi = self.rng.choice([1, 3])
        return Actual(100 + w, view_expr(f"w{w}[{hi}:{hi - 1}]", "slv", TY_KIND[ty]), ("slice", hi, hi - 1), "bv4", ty)

    def make_mid(self, t, top):
        rng = self.rng
        i = t.tid
        fl = self.flavour
        n_inst = rng.randint(1, 4)
        pool = list(range(i))
        if fl in ("diamond", "deep") and i >= 2:
            # prefer the most recent templates and a common old one: shared templates at several depths
            chosen = [i - 1] + [rng.choice(pool) for _ in range(n_inst - 1)] + [0]
            if top and i >= 3:
                chosen.append(i - 2)
        else:
            chosen = [rng.choice(pool) for _ in range(n_inst)]
        if top:
            # keep most classes reachable
            for c in pool:
                if c not in chosen and rng.random() < 0.7:
                    chosen.append(c)
        if rng.random() < 0.5:
            chosen.append(rng.choice(chosen))                        # a repeated template
        rng.shuffle(chosen)
        free_outs = [k for k, (n, d, ty) in enumerate(t.ports) if d == "out"]
        for c in chosen:
            child = self.tmpls[c]
            kw = []
            for n, d, ty in child.ports:
                if d == "in":
                    kw.append((n, rng.choice(self.sources(t, ty))))
                else:
                    kw.append((n, self.sink(t, ty, free_outs)))
            rng.shuffle(kw)                                          # keyword order is arbitrary
            (t.ctx if rng.random() < 0.3 else t.arch).append((c, kw))
        for k in free_outs:
            n, d, ty = t.ports[k]
            src = rng.choice(self.sources(t, ty))
            t.assigns.append((f"self.{n}", src.expr))

    def make_malformed(self):
        """break one instantiation of a reachable template (Entity.__init__ must reject it)"""
        rng = self.rng
        cands = [(t, lst, k) for t in self.tmpls for lst in (t.arch, t.ctx) for k in range(len(lst)) if t.tid in self.reachable()]
        if not cands:
            return
        t, lst, k = rng.choice(cands)
        c, kw = lst[k]
        kind = rng.choice(["missing", "extra", "type"])
        kw = list(kw)
        if kind == "missing":
            kw.pop(rng.randrange(len(kw)))
        elif kind == "extra":
            kw.insert(rng.randrange(len(kw) + 1), ("zz", kw[0][1]))
        else:
            cand = [j for j, (n, a) in enumerate(kw) if a.ty in ("u2", "bv2") and a.sel[0] == "whole" and a.ty == a.root_ty
                    and dict((pn, pd) for pn, pd, _ in self.tmpls[c].ports)[n] == "in"]
            if not cand:
                kw.pop(0)
                kind = "missing"
            else:
                j = cand[0]
                n, a = kw[j]
                other = "bv2" if a.ty == "u2" else "u2"
                kw[j] = (n, Actual(a.root, a.expr + VIEW[TY_KIND[other]], a.sel, a.root_ty, other))
        lst[k] = (c, kw)
        self.malformed = kind

    # -- the specification's own notion of reachability (python, independent of the model) -----------
    def reachable(self):
        top = len(self.tmpls) - 1
        seen, todo = {top}, [top]
        while todo:
            p = todo.pop()
            for c, _ in self.tmpls[p].arch + self.tmpls[p].ctx:
                if c not in seen:
                    seen.add(c)
                    todo.append(c)
        return seen

    # -- rendering -----------------------------------------------------------------------------
    def pyname(self, t):
        """python identifier of the class object (differs from __name__ for the same_name flavour)"""
        return "K%d" % t.tid

    def source(self):
        L = ["import cohdl", "from cohdl import Bit, BitVector, Port, Unsigned, Signed, Null, Signal", "from cohdl import std", "",
             "_TRACE = __file__ + '.trace'", "open(_TRACE, 'w').close()", "",
             "def _ran(tid):", "    with open(_TRACE, 'a') as f:", "        f.write('%d\\n' % tid)", ""]
        for t in self.tmpls:
            L.append(f"class {self.pyname(t)}(cohdl.Entity, name={t.name!r}):")
            for n, d, ty in t.ports:
                L.append(f"    {n} = Port.{'input' if d == 'in' else 'output'}({TY_SRC[ty]})")
            L += ["", "    def architecture(self):", f"        _ran({t.tid})"]
            if t.leaf_body is not None:
                L += ["        @std.concurrent", "        def logic():"] + ["            " + b for b in t.leaf_body]
            else:
                for w, wty in t.wires:
                    L.append(f"        w{w} = Signal[{TY_SRC[wty]}](name='w{w}')")
                # architecture-level instances and contexts with instances, interleaved in a fixed pattern:
                # contexts first or last does not matter for the model (round 1 / round 2)
                ctx_first = (t.tid % 2 == 0)
                ctx_lines = []
                for k, (c, kw) in enumerate(t.ctx):
                    ctx_lines += ["        @std.concurrent", f"        def ictx{k}():",
                                  "            " + self.inst_src(c, kw)]
                arch_lines = ["        " + self.inst_src(c, kw) for c, kw in t.arch]
                L += (ctx_lines + arch_lines) if ctx_first else (arch_lines + ctx_lines)
                if t.assigns:
                    L += ["        @std.concurrent", "        def drive():"] + [f"            {a} <<= {b}" for a, b in t.assigns]
            L.append("")
        L.append(f"Top = {self.pyname(self.tmpls[-1])}")
        return "\n".join(L) + "\n"

    def inst_src(self, c, kw):
        return f"{self.pyname(self.tmpls[c])}(" + ", ".join(f"{n}={a.expr}" for n, a in kw) + ")"

    def coq(self):
        def port(n, d, ty):
            return f"mkport {NAME_ID[n]}%N {'DIn' if d == 'in' else 'DOut'} {TY_COQ[ty]}"

        def inst(c, kw):
            return f"mkinst {c} [" + "; ".join(f"({NAME_ID[n]}%N, {a.coq()})" for n, a in kw) + "]"

        ts = []
        for t in self.tmpls:
            name = "[" + "; ".join("%d%%N" % ord(ch) for ch in t.name) + "]"
            ts.append(f"mktmpl {name} [" + "; ".join(port(*p) for p in t.ports) + "] [" +
                      "; ".join(inst(c, kw) for c, kw in t.arch) + "] [" + "; ".join(inst(c, kw) for c, kw in t.ctx) + "]")
        return "[" + ";\n    ".join(ts) + "]"


# ------------------------------------------------------------------------------------------------
# reading the emitted text
# ------------------------------------------------------------------------------------------------
CONV = {"FConvUns": "uns", "FConvSgn": "sgn", "FConvSlv": "slv"}


def decode_root(name, parent: Tmpl):
    m = re.fullmatch(r"w(\d+)", name)
    if m:
        return 100 + int(m.group(1))
    for k, (n, d, ty) in enumerate(parent.ports):
        if (d == "in" and name == n) or (d == "out" and name == "buffer_" + n):
            return k
    return None


def decode_actual(e, parent: Tmpl, kinds):
    """parsed expression -> (root token, sel, outermost vector kind) or None"""
    outer = None
    while e[0] == "f1" and e[1] in CONV:
        if outer is None:
            outer = CONV[e[1]]
        e = e[2]
    sel = ("whole",)
    if e[0] == "slice":
        sel = ("slice", e[2], e[3])
        e = e[1]
    elif e[0] == "idx":
        if e[2][0] != "lit" or e[2][1][0] != "I":
            return None
        sel = ("elem", e[2][1][1])
        e = e[1]
    if e[0] != "name":
        return None
    root = decode_root(e[1], parent)
    if root is None:
        return None
    if sel[0] == "elem":
        kind = None if outer is None else outer
    else:
        kind = outer if outer is not None else kinds.get(e[1].lower())
    return (root, sel, kind)


def unit_ids(gen: Gen, ents):
    """emitted units -> template ids (a renamed unit = class name followed by digits); same-named classes are told
    apart by their interface, then by being instantiated at all; None if a unit cannot be identified"""
    out = []
    used = set()
    reach = gen.reachable()
    for e in ents:
        nm = e.name
        cand = [t for t in gen.tmpls if t.name == nm and t.tid not in used]
        if not cand:
            cand = [t for t in gen.tmpls if re.fullmatch(re.escape(t.name) + r"\d+", nm) and t.tid not in used]
        if len(cand) > 1:
            same_if = [t for t in cand if [n for n, _, _ in t.ports] == [p.name for p in e.ports]]
            cand = same_if or cand
        if len(cand) > 1:
            cand = [t for t in cand if t.tid in reach] or cand
        if not cand:
            return None
        out.append(cand[0].tid)
        used.add(cand[0].tid)
    return out


def observe(gen: Gen, vhdl, trace):
    """-> dict(units=[tid], insts={tid: [(child tid, [(formal id, fconv, root, sel, kind)])]}, runs=[tid], names=[...])"""
    lib = R.parse_library(vhdl)
    ents = lib.entities if hasattr(lib, "entities") else lib
    names = [e.name for e in ents]
    ids = unit_ids(gen, ents)
    obs = {"names": names, "units": ids, "runs": trace, "insts": {}, "undecoded": []}
    if ids is None:
        return obs
    by_name = {e.name: tid for e, tid in zip(ents, ids)}
    for e, tid in zip(ents, ids):
        parent = gen.tmpls[tid]
        kinds = {}
        for d in list(e.ports) + list(e.signals):
            kinds[d.name.lower()] = d.ty.vk if d.ty.kind == "vec" else None
        lst = []
        for c in e.conc:
            if not isinstance(c, R.Instance):
                continue
            child = by_name.get(c.entity)
            pm = []
            for formal, actual, conv in c.portmap:
                fc = {None: None, "unsigned": "uns", "signed": "sgn", "std_logic_vector": "slv"}[conv]
                a = decode_actual(actual, parent, kinds)
                if a is None or child is None:
                    obs["undecoded"].append((e.name, c.label, formal))
                    a = (999, ("whole",), None)
                pm.append((NAME_ID.get(formal, 99), fc, a[0], a[1], a[2]))
            lst.append((child if child is not None else 999, pm))
        obs["insts"][tid] = lst
    return obs


def obs_coq(obs):
    if obs is None:
        return "None"

    def sel(s):
        return "SWhole" if s[0] == "whole" else ("(SSlice %d%%N %d%%N)" % (s[1], s[2]) if s[0] == "slice" else "(SElem %d%%N)" % s[1])

    def centry(c):
        f, fc, r, s, k = c
        return f"({f}%N, {KIND_COQ[fc]}, {r}%N, {sel(s)}, {KIND_COQ[k]})"

    units = []
    for tid in obs["units"]:
        insts = "; ".join(f"({c}, [" + "; ".join(centry(x) for x in pm) + "])" for c, pm in obs["insts"].get(tid, []))
        units.append(f"({tid}, [{insts}])")
    return "(Some ([" + "; ".join(units) + "], [" + "; ".join(str(r) for r in obs["runs"]) + "]))"


# ------------------------------------------------------------------------------------------------
# the property's specification, evaluated on what the real compiler produced
# ------------------------------------------------------------------------------------------------
def spec_check(gen: Gen, obs):
    """-> list of (kind, detail): what the property text demands of an ACCEPTED compilation"""
    bad = []
    names = obs["names"]
    low = [n.lower() for n in names]
    if len(set(low)) != len(low):
        bad.append(("unit_names", "two emitted units have the same (case-insensitive) name: %r" % names))
    reach = gen.reachable()
    if obs["units"] is None:
        bad.append(("units", "an emitted unit is not one of the declared entity classes: %r" % names))
        return bad
    if sorted(obs["units"]) != sorted(reach):
        bad.append(("each_once", "emitted templates %r, instantiated templates %r" % (obs["units"], sorted(reach))))
    pos = {tid: k for k, tid in enumerate(obs["units"])}
    for tid in obs["units"]:
        t = gen.tmpls[tid]
        want = t.arch + t.ctx
        got = obs["insts"].get(tid, [])
        # sub-entities before users
        for c, _ in got:
            if c not in pos or pos[c] >= pos[tid]:
                bad.append(("order", "entity %s is emitted before its sub-entity %s" % (t.name, c)))
        # the instances of the architecture are the instantiations of the source (as a multiset of wirings)
        def wiring(child, pm):
            return (child, tuple(sorted((f, fc, r, tuple(s), k) for f, fc, r, s, k in pm)))
        exp = []
        for c, kw in want:
            child = gen.tmpls[c]
            decl = {n: (d, ty) for n, d, ty in child.ports}
            pm = []
            for n, a in kw:
                if n not in decl:
                    continue
                d, ty = decl[n]
                rk, pk = TY_KIND[a.root_ty], TY_KIND[ty]
                fc = rk if (d == "out" and rk is not None and pk is not None and TY_KIND[a.ty] is not None and rk != pk) else None
                # the kind of the actual as printed: inputs carry the conversion of the view, outputs none
                pk_txt = TY_KIND[a.ty] if d == "in" else (None if a.sel[0] == "elem" else rk)
                pm.append((NAME_ID[n], fc, a.root, tuple(a.sel), pk_txt))
            exp.append(wiring(c, pm))
        have = [wiring(c, pm) for c, pm in got]
        if sorted(have, key=repr) != sorted(exp, key=repr):
            bad.append(("port_map", "instances of %s: emitted %r, source %r" % (t.name, have, exp)))
        for c, pm in got:
            if c == 999:
                continue
            formals = [f for f, *_ in pm]
            decl = [NAME_ID[n] for n, _, _ in gen.tmpls[c].ports]
            if sorted(formals) != sorted(decl):
                bad.append(("formals_once", "instance of %s in %s associates formals %r, declared %r" % (c, t.name, formals, decl)))
    if sorted(obs["runs"]) != sorted(reach):
        bad.append(("elaborated_once", "architecture methods ran %r, instantiated templates %r" % (obs["runs"], sorted(reach))))
    return bad


# ------------------------------------------------------------------------------------------------
FLAVOURS = ["plain", "plain", "diamond", "diamond", "deep", "reserved", "case_collision", "same_name", "malformed"]

CORPUS = [  # (seed-independent) regression shapes: (n templates, flavour, generator seed)
    (4, "diamond", 11), (5, "deep", 12), (3, "reserved", 13), (4, "case_collision", 14), (4, "same_name", 15),
    (4, "malformed", 16), (6, "diamond", 17), (2, "plain", 18),
]


def run_trees(ck: common.Check, trees):
    """the netlists of c12.run (its own generator): unit order and the instances of every unit, in order, against
    EmitOrder.shape (port maps of these designs are covered by the trace-equality theorem of c12.run itself).
    trees: [(name, net, mids, inl, hierarchical source, emitted vhdl)]"""
    import c12
    cases, meta = [], []
    for name, net, mids, inl, src, vhdl in trees:
        kinds = []
        for kind, *_ in net.cells:
            if kind not in kinds:
                kinds.append(kind)
        names = [c12.lname(kd) for kd in kinds]
        midk = sorted({(net.cells[k][0], fl) for k, fl in mids.items()})
        children = [([], []) for _ in kinds]
        for kd, fl in midk:
            names.append("Mid" + ("C" if fl == "ctx" else "") + kd)
            leaf = kinds.index(kd)
            children.append(([leaf, leaf], []) if fl == "arch" else ([], [leaf, leaf]))
        arch, ctx = [], []
        for k, c in enumerate(net.cells):
            tid = len(kinds) + midk.index((c[0], mids[k])) if k in mids else kinds.index(c[0])
            (ctx if k in inl else arch).append(tid)
        names.append("Top")
        children.append((arch, ctx))
        try:
            ents = R.parse_library(vhdl)
        except R.Unparsed:
            continue            # reported by c12.run
        ids = []
        for e in ents:
            cand = [i for i, nm in enumerate(names) if c12.emitted_matches(e.name, nm) and i not in ids]
            ids.append(cand[0] if cand else 999)
        by = {e.name: i for e, i in zip(ents, ids)}
        units = [(i, [by.get(c.entity, 999) for c in e.conc if isinstance(c, R.Instance)]) for e, i in zip(ents, ids)]
        g = "[" + "; ".join("mktmpl [%s] [] [%s] [%s]" % ("; ".join("%d%%N" % ord(ch) for ch in nm),
                                                          "; ".join("mkinst %d []" % c for c in a),
                                                          "; ".join("mkinst %d []" % c for c in x))
                            for nm, (a, x) in zip(names, children)) + "]"
        o = "(Some [" + "; ".join("(%d, [%s])" % (i, "; ".join(str(c) for c in cs)) for i, cs in units) + "])"
        cases.append(f"({g}, {len(names) - 1}, {o})")
        meta.append((name, names, children, units, src, vhdl))
    if not cases:
        return
    bad = set(common.coq_bad_indices(ck, "c12trees", PREAMBLE, "graph * nat * option (list (nat * list nat))", cases,
                                     "shape_case_ok", shard=40))
    for j, (name, names, children, units, src, vhdl) in enumerate(meta):
        ck.obligation(j not in bad)
        ck.evaluations += 1
        if j in bad:
            # the property's specification on the emitted units: every template once, sub-entity before user
            order = [i for i, _ in units]
            want = set()
            todo = [len(names) - 1]
            while todo:
                p_ = todo.pop()
                if p_ not in want:
                    want.add(p_)
                    todo += children[p_][0] + children[p_][1]
            pos = {i: k for k, i in enumerate(order)}
            spec_ok = sorted(order) == sorted(want) and all(c in pos and pos[c] < pos[i] for i, cs in units for c in cs) and \
                all(sorted(cs) == sorted(children[i][0] + children[i][1]) for i, cs in units if i != 999)
            rep = {"case": name, "source": src, "vhdl": vhdl, "classes": names, "children(arch,ctx)": children, "emitted(unit,instances)": units}
            if spec_ok:
                ck.violation({"order": "model_mismatch", "flavour": "c12_tree"},
                             "unit order / instance order of a c12 netlist differs from Models/EmitOrder.v (EmitOrder.shape)", rep, no_input=True)
            else:
                ck.violation({"order": "units", "flavour": "c12_tree"},
                             "emitted units of a c12 netlist: a template is missing, repeated, or emitted after its user", rep)
    ck.cov["order_c12_trees"] = len(meta)


def run_extra(ck: common.Check, trees=(), n_quick=45, n_thorough=400):
    import random
    run_trees(ck, list(trees))
    n = n_quick if ck.tier == "quick" else n_thorough
    gens = []
    for nt, fl, sd in CORPUS:
        gens.append((Gen(random.Random(sd), nt, fl), fl))
    for k in range(n):
        fl = FLAVOURS[k % len(FLAVOURS)]
        nt = ck.rng.randint(2, 4) if fl == "plain" else ck.rng.randint(4, 8 if fl == "deep" else 6)
        gens.append((Gen(ck.rng, nt, fl), fl))
    for g, fl in gens:
        if fl == "malformed":
            g.make_malformed()
    designs = [{"name": f"ord{k:04d}", "source": g.source(), "entity": "Top"} for k, (g, fl) in enumerate(gens)]
    res = X.compile_designs(ck, designs)
    cases, meta = [], []
    for k, ((g, fl), r, d) in enumerate(zip(gens, res, designs)):
        ck.evaluations += 1
        ck.hist("order_flavour", fl)
        top = len(g.tmpls) - 1
        trace_path = os.path.join(ck.gen, "src", d["name"] + ".py.trace")
        try:
            trace = [int(x) for x in open(trace_path).read().split()]
        except OSError:
            trace = []
        obs, err = None, None
        if r["ok"]:
            try:
                obs = observe(g, r["vhdl"], trace)
            except R.Unparsed as e:
                ck.obligation(False)
                ck.violation({"order_case": fl, "what": "unparsed"}, "emitted VHDL left the parsed subset: " + str(e),
                             {"source": d["source"], "vhdl": r["vhdl"]}, no_input=True)
                continue
            ck.hist("order_units", len(obs["names"]))
            ck.hist("order_instances", sum(len(v) for v in obs["insts"].values()))
            reach = g.reachable()
            shared = sum(1 for t in reach if sum(1 for p in reach for c, _ in g.tmpls[p].arch + g.tmpls[p].ctx if c == t) > 1)
            ck.hist("order_templates_instantiated_more_than_once", shared)
            if len(reach) < len(g.tmpls):
                ck.count("order_graphs_with_unreachable_classes")
        else:
            err = r.get("error", "")
            ck.hist("order_rejected", (g.malformed or fl) + ": " + err[:50])
        if obs is not None and obs["units"] is None:
            obs_term = "(Some ([], []))"       # not comparable: an emitted unit could not be identified
        else:
            obs_term = obs_coq(obs)
        cases.append(f"({g.coq()}, {top}, {obs_term})")
        meta.append((k, g, fl, r, d, obs))
    bad = set(common.coq_bad_indices(ck, "c12order", PREAMBLE, "graph * nat * obs", cases, "case_ok", shard=40))
    for j, (k, g, fl, r, d, obs) in enumerate(meta):
        agree = j not in bad
        ck.obligation(agree)
        key = json.dumps([fl, len(g.tmpls), [[c for c, _ in t.arch] + [c for c, _ in t.ctx] for t in g.tmpls]])
        if len(g.reachable()) >= 3:
            ck.nontrivial("order:" + key)
        if j % 23 == 0:
            ck.sample({"order_case": d["name"], "flavour": fl, "units": obs and obs["names"], "arch_runs": obs and obs["runs"]}, limit=8)
        spec_bad = spec_check(g, obs) if obs is not None else []
        # step 6: the specification on every accepted case
        ck.obligation(not spec_bad)
        replay = {"source": d["source"], "vhdl": r.get("vhdl"), "error": r.get("error"), "flavour": fl,
                  "observed": obs and {"units": obs["names"], "unit_ids": obs["units"], "arch_runs": obs["runs"],
                                       "insts": {str(a): b for a, b in obs["insts"].items()}},
                  "model_case": cases[j],
                  "python": "PYTHONPATH=$COHDL_SRC PYTHONHASHSEED=0 /venv/bin/python -c \"import runpy; from cohdl import std; "
                            "print(std.VhdlCompiler.to_string(runpy.run_path('<file with source>')['Top']))\""}
        if spec_bad:
            kind, detail = spec_bad[0]
            ck.violation({"order": kind, "flavour": fl},
                         "instantiation bookkeeping violates the property: " + detail,
                         dict(replay, spec_failures=spec_bad))
        elif not agree:
            # the model and the code differ but the emitted design still satisfies the specification (or the
            # compiler rejected / accepted differently): the correspondence EmitOrder.compile no longer checks
            if obs is None:
                what = "the compiler rejects an instantiation graph that the model accepts: " + (r.get("error") or "")[:200]
            elif fl in ("case_collision", "same_name", "malformed") and obs is not None and not spec_bad:
                what = "the compiler accepts an instantiation graph that the model of its checks rejects, or orders/wires it differently"
            else:
                what = "emission order / port map / elaboration order differ from Models/EmitOrder.v (C12_emit_order_*, C12_port_map_*)"
            # accepting two units with one VHDL name, or a malformed instantiation, is a violation with this input
            viol = None
            if obs is not None and fl in ("case_collision", "same_name"):
                reach = g.reachable()
                low = [g.tmpls[t].name.lower() for t in reach]
                if len(set(low)) != len(low):
                    viol = "two instantiated entity classes share a unit name (VHDL is case-insensitive) and the design is accepted"
            if obs is not None and fl == "malformed" and g.malformed:
                viol = "an instantiation with a %s port association is accepted" % g.malformed
            if viol:
                ck.violation({"order": "accepted", "flavour": fl}, viol, replay)
            else:
                ck.violation({"order": "model_mismatch", "flavour": fl}, what, replay, no_input=True)
    ck.cov["order_graphs"] = len(meta)
    ck.cov["order_rule"] = ("one instantiation graph per case (2-8 entity classes, 1-6 instances per class, shared templates at several "
                            "depths, instances inside contexts, permuted keywords, slice/element/view actuals); compared exactly with "
                            "EmitOrder.compile inside Coq: unit order, instances per unit in order, port maps, architecture run order; "
                            "distinct = distinct child structure with >= 3 reachable classes")
    ck.trusted += ["vhdl_reader.parse_library (unit order, instance port maps)",
                   "the generated sources record architecture runs themselves (file next to the module)"]
    ck.assumptions += ["instantiation graphs are acyclic (a class instantiates classes defined before it); extern entities, generics "
                       "and nested Blocks are not generated"]
