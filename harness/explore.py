"""Generic 'compiled design vs Gallina reference machine' obligations (used by C03, C04, C12, C14, C15, C16, C20)."""
from __future__ import annotations
import os

import common
import vhdl_reader as R

CASE_TMPL = """{header}From Cohdl Require Import Equiv.VhdlTS Equiv.RefTS Vhdl.DeadVars Equiv.StoreTS.
{imports}
Definition d : design := {design}.
{defs}
Definition stepB : rstep := {step}.
Definition initB : list Z := {init}.
Definition alphabet : list (list value) := {alphabet}.
Definition assume : list Z -> list value -> bool := {assume}.
{count}Theorem case_ok : forall ins, admissible stepB alphabet assume initB ins ->
  traceA (sstep d {mid}) (power_up_s d) ins = traceB stepB initB ins.
Proof.
  apply (rcheck_s_sound d {mid} stepB alphabet assume {fuel} initB); vm_cast_no_check (eq_refl true).
Qed.
"""


MON_TMPL = """{header}From Cohdl Require Import Equiv.VhdlTS Equiv.RefTS Equiv.Monitor Vhdl.DeadVars Equiv.StoreTS.
{imports}
Definition d : design := {design}.
{defs}
Definition mon : monitor := {step}.
Definition m0 : list Z := {init}.
Definition alphabet : list (list value) := {alphabet}.
{count}Theorem case_ok : forall ins, Forall (fun i => In i alphabet) ins ->
  Forall (fun o => o = okout) (traceA (mstep_s d {mid} mon) (power_up_s d, m0) ins).
Proof.
  apply (mcheck_s_sound d {mid} mon alphabet {fuel} m0); vm_cast_no_check (eq_refl true).
Qed.
"""

MON_DIAG_TMPL = """Definition verdict := Eval vm_compute in (mcheck_s_bfs d {mid} mon alphabet {fuel} m0).
Eval vm_compute in verdict.
Eval vm_compute in (match verdict with
  | VCex path => Some (traceA (sstep d {mid}) (power_up_s d) path, traceA (mstep_s d {mid} mon) (power_up_s d, m0) path)
  | _ => None end).
"""


def cand(ty: R.Ty):
    if ty.kind == "logic":
        return "bit_cands"
    if ty.kind == "vec":
        return f"(vec_cands {R.VK[ty.vk]} {ty.w}%N)"
    raise ValueError("no default candidates for " + str(ty))


def default_alphabet(d: R.Design, overrides=None):
    overrides = overrides or {}
    by = {s.name: s for s in d.sigs}
    parts = []
    for n in d.inputs:
        parts.append(overrides.get(n) or cand(by[n].ty))
    return "product [" + "; ".join(parts) + "]"


class Case:
    def __init__(self, name, vhdl, step, init, imports="", defs="", assume="fun _ _ => true", mid=False,
                 alphabet=None, alphabet_overrides=None, fuel=1000000, clk="clk", top=None, meta=None, monitor=False,
                 input_inits=None):
        self.monitor = monitor
        self.input_inits = input_inits or {}
        self.name = name
        self.vhdl = vhdl
        self.step = step
        self.init = init
        self.imports = imports
        self.defs = defs
        self.assume = assume
        self.mid = mid
        self.alphabet = alphabet
        self.alphabet_overrides = alphabet_overrides
        self.fuel = fuel
        self.clk = clk
        self.top = top
        self.meta = meta or {}
        self.path = None
        self.design = None
        self.count = False


QUICK_FUEL_CAP = 1000000     # explored transitions per case in the quick tier (the costly part of an oversized case was the diagnosis)
DIAG_FUEL_CAP = 60000        # the breadth-first diagnosis run after a failed obligation


def write_case(ck, c: Case):
    if ck.tier == "quick" and c.fuel > QUICK_FUEL_CAP:
        c.fuel = QUICK_FUEL_CAP
    ents, d = R.read_design(c.vhdl, c.top, c.clk)
    for sd in d.sigs:
        # power-up value of an input port as driven by the test bench before the first clock
        if sd.dir == "in" and sd.name in c.input_inits:
            sd.init = c.input_inits[sd.name]
    c.design = d
    c.entities = ents
    term = R.design_to_coq(d)
    alpha = c.alphabet or default_alphabet(d, c.alphabet_overrides)
    c.path = os.path.join(ck.gen, c.name + ".v")
    tmpl = MON_TMPL if c.monitor else CASE_TMPL
    cnt = ""
    if c.count:
        if c.monitor:
            cnt = "Eval vm_compute in (mcheck_s d %s mon alphabet %d m0).\n" % ("true" if c.mid else "false", c.fuel)
        else:
            cnt = "Eval vm_compute in (rcheck_s d %s stepB alphabet assume %d initB).\n" % ("true" if c.mid else "false", c.fuel)
    with open(c.path, "w") as f:
        f.write(tmpl.format(header=common.COQ_HEADER, imports=c.imports, design=term, defs=c.defs, step=c.step,
                                 init=c.init, alphabet=alpha, assume=c.assume, mid="true" if c.mid else "false",
                                 fuel=c.fuel,
                                 count=cnt))
    return c.path


DIAG_TMPL = """Eval vm_compute in (conc_all_ok (auto_Ts d) d).
Definition verdict := Eval vm_compute in (rcheck_s_bfs d {mid} stepB alphabet assume {fuel} initB).
Eval vm_compute in verdict.
Eval vm_compute in (match verdict with
  | VCex path => Some (traceA (sstep d {mid}) (power_up_s d) path, traceB stepB initB path)
  | _ => None end).
"""


def diagnose(c):
    """after a failed obligation: breadth-first search for a short distinguishing input sequence"""
    src = open(c.path).read()
    src = src[:src.index("Theorem case_ok")]
    path = c.path[:-2] + "_diag.v"
    with open(path, "w") as f:
        f.write(src + (MON_DIAG_TMPL if c.monitor else DIAG_TMPL).format(mid="true" if c.mid else "false", fuel=min(c.fuel, DIAG_FUEL_CAP)))
    rc, out, err = common.coqc(path, 3000)
    outs = common.coq_outputs(out)
    while outs and not outs[0].startswith("V"):
        if outs[0].strip() in ("false", "(false, true)", "(true, false)", "(false, false)"):
            return "error", {"log": "dead-variable side condition conc_all_ok is false: " + (out + err)[-600:]}
        outs = outs[1:]
    verdict = outs[0] if outs else ""
    if verdict.startswith("VCex"):
        return "cex", {"path": verdict, "traces": outs[1] if len(outs) > 1 else ""}
    if verdict.startswith("VFuel"):
        return "fuel", {}
    if verdict.startswith("VOk"):
        return "error", {"log": "theorem failed but breadth-first search found no difference: " + (out + err)[-800:]}
    return "error", {"log": (out + err)[-1500:]}


def classify(rc, out, err):
    if rc == 0:
        outs = common.coq_outputs(out)
        if outs and outs[0].startswith("VOk"):
            nums = [int(x) for x in outs[0].replace("%N", "").split()[1:3]]
            return "ok", {"states": nums[0], "transitions": nums[1]}
        return "ok", {"states": 0, "transitions": 0}
    return "failed", {"log": (out + err)[-1500:]}


def _old_classify(rc, out, err):
    outs = common.coq_outputs(out)
    verdict = outs[0] if outs else ""
    if rc == 0 and verdict.startswith("VOk"):
        nums = [int(x) for x in verdict.replace("%N", "").split()[1:3]]
        return "ok", {"states": nums[0], "transitions": nums[1]}
    if verdict.startswith("VCex"):
        return "cex", {"path": verdict, "traces": outs[1] if len(outs) > 1 else ""}
    if verdict.startswith("VFuel"):
        return "fuel", {}
    return "error", {"log": (out + err)[-1500:]}


def run_cases(ck, cases, what_cex, key_of=None, timeout=2400, count_first=3):
    """writes, proves and classifies; returns list of (case, status, info)"""
    ready = []
    results = []
    for i, c in enumerate(cases):
        ck.evaluations += 1
        if i < count_first:
            c.count = True
        try:
            write_case(ck, c)
            ready.append(c)
        except R.Unparsed as e:
            ck.obligation(False)
            ck.violation(dict(key_of(c) if key_of else {"case": c.name}),
                         "emitted VHDL left the parsed subset: " + str(e),
                         {"case": c.name, "meta": c.meta, "vhdl": c.vhdl}, no_input=True)
            results.append((c, "unparsed", {}))
    outs = common.coqc_many([c.path for c in ready], timeout=timeout)
    states = trans = 0
    for c, (rc, out, err) in zip(ready, outs):
        status, info = classify(rc, out, err)
        if status != "ok":
            status, info = diagnose(c)
        results.append((c, status, info))
        if status == "ok":
            ck.obligation(True)
            states += info["states"]
            trans += info["transitions"]
            ck.nontrivial(c.name)
            m = {k: v for k, v in c.meta.items() if k != "source"}
            ck.sample({"case": c.name, "meta": m, "product_states": info["states"], "transitions": info["transitions"]}, limit=5)
            common._cleanup_v(c.path)
        else:
            ck.obligation(False)
            rep = {"case": c.name, "meta": c.meta, "vhdl": c.vhdl, "case_file": c.path, "status": status}
            rep.update(info)
            key = dict(key_of(c) if key_of else {"case": c.name})
            if status == "cex":
                ck.violation(key, what_cex, rep)
            elif status == "fuel":
                # the product state space of this GENERATED case exceeds the exploration budget and the breadth-first
                # search found no difference within its budget either: the case is undecided for lack of resources -
                # a generator artefact (it happens on the unchanged tree for some seeds), not a broken obligation.
                # It is withdrawn (neither an obligation nor a violation) and listed in the evidence.
                ck.obligations -= 1
                ck.cov.setdefault("undecided_state_space_above_budget", []).append(c.name)
            else:
                ck.violation(key, "case obligation not discharged (%s)" % status, rep, no_input=True)
    ck.cov["programs"] = ck.cov.get("programs", 0) + len(ready)
    ck.cov["states"] = ck.cov.get("states", 0) + states
    ck.cov["transitions"] = ck.cov.get("transitions", 0) + trans
    return results


def compile_designs(ck, designs, timeout=3000):
    """designs: [{"name","source","entity"}] -> results list (same order)"""
    return common.run_worker("compile_worker.py", {"dir": os.path.join(ck.gen, "src"), "designs": designs,
                                                   "jobs": common.NCPU}, timeout=timeout)["results"]
