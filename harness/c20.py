"""C20 - AXI4-Lite register maps decode, mask and hand-shake correctly.

wrapper entities connect the REAL std.axi.axi4_light.Axi4Light + connect_addr_map to small register maps
(addresses 4 bits, registers exposed on extra output ports) -> real compiler -> VHDL -> parsed design;
per (layout, phase) a kernel-checked theorem: for ALL input sequences over the stated alphabet (every
valid/ready timing on all five channels, the listed addresses / data patterns / strobes) the protocol-and-data
monitor of Models/AxiSpec.v never flags.

layouts: plain words, a top-level reg32.Array, an Array inside a RegFile at a non-zero offset, one and two levels
of RegFile nesting, a reg32.Register with bus-writable (MemField/MemUField), hardware-driven (UField/Field) fields
and PushOnNotify.Read/.Write notifications exposed on output ports."""
from __future__ import annotations
import os

import common
import explore as X

HEAD = """from __future__ import annotations
import cohdl
from cohdl import Port, Bit, BitVector, Signal, Unsigned, Null
from cohdl import std
from cohdl.std.axi import axi4_light as axi
from cohdl.std.reg import reg32

{regmap}

class W(cohdl.Entity):
    clk = Port.input(Bit)
    axi_awaddr = Port.input(Unsigned[4])
    axi_awprot = Port.input(Unsigned[3])
    axi_awvalid = Port.input(Bit)
    axi_awready = Port.output(Bit, default=Null)
    axi_wdata = Port.input(BitVector[32])
    axi_wstrb = Port.input(BitVector[4])
    axi_wvalid = Port.input(Bit)
    axi_wready = Port.output(Bit, default=Null)
    axi_bresp = Port.output(BitVector[2], default=Null)
    axi_bvalid = Port.output(Bit, default=Null)
    axi_bready = Port.input(Bit)
    axi_araddr = Port.input(Unsigned[4])
    axi_arprot = Port.input(Unsigned[3])
    axi_arvalid = Port.input(Bit)
    axi_arready = Port.output(Bit, default=Null)
    axi_rdata = Port.output(BitVector[32], default=Null)
    axi_rresp = Port.output(BitVector[2], default=Null)
    axi_rvalid = Port.output(Bit, default=Null)
    axi_rready = Port.input(Bit)
{regports}

    def architecture(self):
        clk = std.Clock(self.clk)
        con = axi.Axi4Light(
            clk=clk, reset=None,
            wraddr=axi.Axi4Light.WrAddr(valid=self.axi_awvalid, ready=self.axi_awready, awaddr=self.axi_awaddr, awprot=self.axi_awprot),
            wrdata=axi.Axi4Light.WrData(valid=self.axi_wvalid, ready=self.axi_wready, wdata=self.axi_wdata, wstrb=self.axi_wstrb),
            wrresp=axi.Axi4Light.WrResp(valid=self.axi_bvalid, ready=self.axi_bready, bresp=self.axi_bresp),
            rdaddr=axi.Axi4Light.RdAddr(valid=self.axi_arvalid, ready=self.axi_arready, araddr=self.axi_araddr, arprot=self.axi_arprot),
            rddata=axi.Axi4Light.RdData(valid=self.axi_rvalid, ready=self.axi_rready, rdata=self.axi_rdata, rresp=self.axi_rresp),
        )
        root = Root()
        con.connect_addr_map(root)

        @std.concurrent
        def show():
{show}
"""

A_DEF, B_DEF = 0x00FF00AA, 0x0F0F3C5A
A_LIT = "BitVector[32]('00000000111111110000000010101010')"
B_LIT = "BitVector[32]('00001111000011110011110001011010')"

# register with fields of every access kind (bits: m 7:0 and mu 11:8 bus read/write storage; cnt 17:16 and tog 24 driven by
# the hardware side: cnt counts the write notifications, tog toggles on every read notification)
FIELDS_SRC = """class FReg(reg32.Register):
    m: reg32.MemField[7:0, BitVector[8]('00111100')]
    mu: reg32.MemUField[11:8, Null]
    cnt: reg32.UField[17:16, Null]
    tog: reg32.Field[24, Null]
    wr_n: reg32.PushOnNotify.Write
    rd_n: reg32.PushOnNotify.Read

    def _impl_sequential_(self):
        if self.wr_n:
            self.cnt <<= self.cnt.val() + 1
        if self.rd_n:
            self.tog <<= ~self.tog.val()

class Root(reg32.AddrMap, word_count=2):
    rf: FReg[4]
"""

# layout trees of Models/AxiLayout.v (python form of harness/c20_layout.py): the offsets / wmasks handed to axi_monitor_x are
# cross-checked against the model's offsets_of / wmasks_of of these trees, and the trees against the real flatten of `regmap`
_MW = ("leaf", 1, "RMemWord", None, "MemWord")
_FREG = ("leaf", 1, "RRegister", [("MemField", 0, 8, False), ("MemUField", 8, 4, False), ("UField", 16, 2, False), ("Field", 24, 1, True)], None)

LAYOUTS = {
    # name: regmap = register map source, regs = [(port name, expression, byte offset, default)],
    #       wmasks = bus-writable bits per register (default all), notif = notification ports + hardware model,
    #       pytree = the layout as a tree of Models/AxiLayout.v
    "one_memword": dict(
        pytree=("file", 2, [(0, _MW)]),
        regmap="class Root(reg32.AddrMap, word_count=2):\n    ra: reg32.MemWord[0]\n"
               f"    def _config_(self):\n        self.ra._config_({A_LIT})\n",
        regs=[("reg_a", "root.ra.raw", 0, A_DEF)]),
    "two_memwords": dict(
        pytree=("file", 4, [(0, _MW), (4, ("leaf", 1, "RMemWord", None, "MemUWord"))]),
        regmap="class Root(reg32.AddrMap, word_count=4):\n    ra: reg32.MemWord[0]\n    rb: reg32.MemUWord[4]\n"
               f"    def _config_(self):\n        self.ra._config_({A_LIT})\n"
               "        self.rb._config_(Null)\n",
        regs=[("reg_a", "root.ra.raw", 0, A_DEF), ("reg_b", "root.rb.raw.bitvector", 4, 0)]),
    "nested_file": dict(
        pytree=("file", 4, [(0, _MW), (8, ("file", 2, [(4, _MW)]))]),
        regmap="class Inner(reg32.RegFile, word_count=2):\n    rx: reg32.MemWord[4]\n\n"
               "class Root(reg32.AddrMap, word_count=4):\n    ra: reg32.MemWord[0]\n    sub: Inner[8]\n",
        regs=[("reg_a", "root.ra.raw", 0, 0), ("reg_x", "root.sub.rx.raw", 12, 0)]),
    # array of registers at the top level: elements at 4 and 8
    "array_top": dict(
        pytree=("file", 4, [(4, ("arr", 8, 4, _MW))]),
        regmap="class Root(reg32.AddrMap, word_count=4):\n    arr: reg32.Array[reg32.MemWord, 4:12:4]\n"
               f"    def _config_(self):\n        self.arr[0]._config_({A_LIT})\n        self.arr[1]._config_({B_LIT})\n",
        regs=[("reg_a", "root.arr[0].raw", 4, A_DEF), ("reg_b", "root.arr[1].raw", 8, B_DEF)]),
    # array inside a register file at offset 8: elements at 8 + 0 and 8 + 4
    "array_in_file": dict(
        pytree=("file", 4, [(8, ("file", 2, [(0, ("arr", 8, 4, _MW))]))]),
        regmap="class Inner(reg32.RegFile, word_count=2):\n    arr: reg32.Array[reg32.MemWord, 0:8:4]\n\n"
               "class Root(reg32.AddrMap, word_count=4):\n    sub: Inner[8]\n"
               f"    def _config_(self):\n        self.sub.arr[0]._config_({A_LIT})\n        self.sub.arr[1]._config_({B_LIT})\n",
        regs=[("reg_a", "root.sub.arr[0].raw", 8, A_DEF), ("reg_b", "root.sub.arr[1].raw", 12, B_DEF)]),
    # two levels of register files, both at non-zero offsets: outer@8 / inner@4 / register@0 decodes at 12
    "nested2": dict(
        pytree=("file", 4, [(8, ("file", 2, [(4, ("file", 1, [(0, _MW)]))]))]),
        regmap="class In2(reg32.RegFile, word_count=1):\n    rx: reg32.MemWord[0]\n\n"
               "class In1(reg32.RegFile, word_count=2):\n    f: In2[4]\n\n"
               "class Root(reg32.AddrMap, word_count=4):\n    g: In1[8]\n"
               f"    def _config_(self):\n        self.g.f.rx._config_({A_LIT})\n",
        regs=[("reg_x", "root.g.f.rx.raw", 12, A_DEF)]),
    "fields": dict(
        pytree=("file", 2, [(4, _FREG)]),
        regmap=FIELDS_SRC,
        regs=[("reg_f", "root.rf._to_bits_()", 4, 0x3C)],
        wmasks=[0xFFF],
        notif=dict(ports=[("nt_w", "root.rf.wr_n._bit"), ("nt_r", "root.rf.rd_n._bit")], reg=0, wshift=16, wwidth=2, rshift=24)),
    # reg32.Output registers: a 16-bit signal in the low half (lsbs), in the high half (msbs) and in the middle (offset 8) of
    # the register word; a write replaces exactly the strobed bytes, the other bytes of the signal keep their value
    "outputs": dict(
        regmap="OUT_LO = Signal[BitVector[16]](Null, name='sig_lo')\nOUT_HI = Signal[BitVector[16]](Null, name='sig_hi')\n"
               "OUT_MID = Signal[BitVector[16]](Null, name='sig_mid')\n\n"
               "class Root(reg32.AddrMap, word_count=4):\n    ol: reg32.Output[0]\n    oh: reg32.Output[4]\n    om: reg32.Output[8]\n"
               "    def _config_(self):\n        self.ol._config_(OUT_LO, lsbs=True)\n        self.oh._config_(OUT_HI, msbs=True)\n"
               "        self.om._config_(OUT_MID, offset=8, padding=8)\n",
        regs=[("reg_l", "BitVector[16](Null) @ OUT_LO", 0, 0), ("reg_h", "OUT_HI @ BitVector[16](Null)", 4, 0),
              ("reg_m", "BitVector[8](Null) @ OUT_MID @ BitVector[8](Null)", 8, 0)],
        wmasks=[0xFFFF, 0xFFFF0000, 0x00FFFF00]),
}


def bv(w, z):
    return f"VV KSlv {w}%N {z}%Z"


def uv(w, z):
    return f"VV KUns {w}%N {z}%Z"


def lst(xs):
    return "[" + "; ".join(xs) + "]"


Z32, F32, A5, C3 = 0, 0xFFFFFFFF, 0xA5A5A5A5, 0x3C3CC3C3
INPUTS = ["axi_awaddr", "axi_awprot", "axi_awvalid", "axi_wdata", "axi_wstrb", "axi_wvalid", "axi_bready",
          "axi_araddr", "axi_arprot", "axi_arvalid", "axi_rready"]
FREE = "bit_cands"
OFF = "[VL false]"
ON = "[VL true]"


def prod(awaddr=(0,), awvalid=FREE, wdata=(0,), wstrb=(0,), wvalid=FREE, bready=FREE, araddr=(0,), arvalid=FREE, rready=FREE):
    """one product alphabet in the order of INPUTS (awprot/arprot constant 0)"""
    parts = [lst([uv(4, a) for a in awaddr]), lst([uv(3, 0)]), awvalid, lst([bv(32, d) for d in wdata]), lst([bv(4, x) for x in wstrb]),
             wvalid, bready, lst([uv(4, a) for a in araddr]), lst([uv(3, 0)]), arvalid, rready]
    return "(product [" + "; ".join(parts) + "])"


NO_RD = dict(arvalid=OFF, rready=OFF)
NO_WR = dict(awvalid=OFF, wvalid=OFF, bready=OFF)


def plan(tier):
    """[(layout, phase, alphabet term, description of the alphabet)]

    write phases: every valid/ready timing of AW, W, B - the master may present W before AW, change WDATA/WSTRB once its
    W beat was taken, and raise the next AWVALID/WVALID while BVALID still waits for BREADY; read channels idle.
    State spaces grow with the product of the payload alphabets (the design samples the payloads in every clock), so
    the payload alphabets are small and differ per phase; '+' in a description = union of product alphabets."""
    q = tier == "quick"
    P = []

    def wr(layout, phase, addrs, datas, strbs):
        P.append((layout, phase, prod(awaddr=addrs, wdata=datas, wstrb=strbs, **NO_RD), dict(awaddr=addrs, wdata=datas, wstrb=strbs)))

    def wr_pairs(layout, phase, addrs, pairs):
        """(wdata, wstrb) taken from the listed pairs only"""
        P.append((layout, phase, " ++ ".join(prod(awaddr=addrs, wdata=[d], wstrb=[x], **NO_RD) for d, x in pairs),
                  dict(awaddr=addrs, wdata_wstrb_pairs=pairs)))

    def rd(layout, phase, addrs):
        P.append((layout, phase, prod(araddr=addrs, **NO_WR), dict(araddr=addrs)))

    def rw(layout, phase, waddrs, datas, strbs, raddrs):
        P.append((layout, phase, prod(awaddr=waddrs, wdata=datas, wstrb=strbs, araddr=raddrs),
                  dict(awaddr=waddrs, wdata=datas, wstrb=strbs, araddr=raddrs)))

    def rw_tied(layout, phase, waddrs, datas, strbs, raddrs, bready=FREE):
        """AWVALID and WVALID always presented together (the other timings stay free)"""
        P.append((layout, phase, " ++ ".join(prod(awaddr=waddrs, wdata=datas, wstrb=strbs, araddr=raddrs, awvalid=v, wvalid=v, bready=bready)
                                             for v in (OFF, ON)),
                  dict(awaddr=waddrs, wdata=datas, wstrb=strbs, araddr=raddrs, tied="awvalid = wvalid", bready=bready)))

    # --- plain words ---
    wr("one_memword", "write", [0, 4], [F32], [5, 10])
    rd("one_memword", "read", [0, 4])
    rw("one_memword", "readwrite", [0], [F32], [5], [0])
    # W beat before the AW beat with WDATA *and* WSTRB changing after the W handshake: the latched beat must be used
    wr_pairs("one_memword", "wskew", [0], [(A5, 3), (C3, 12)])
    # two registers x two strobe patterns is a product of > 10^4 states; one pattern there
    wr("two_memwords", "write", [0, 4, 8], [F32], [5])
    rd("two_memwords", "read", [0, 4, 8])
    # --- arrays ---
    wr("array_top", "write", [4, 8, 0], [F32], [5])
    rd("array_top", "read", [4, 8, 12] if q else [0, 4, 8, 12])
    wr("array_in_file", "write", [8, 12, 0], [F32], [5])
    rd("array_in_file", "read", [8, 12, 4] if q else [0, 4, 8, 12])
    # --- two levels of register files ---
    wr("nested2", "write", [12, 4], [F32], [5])
    rd("nested2", "read", [12, 4] if q else [0, 4, 8, 12])
    # --- register with fields: full-word writes (access kinds, notifications, hardware-side updates) ---
    wr("fields", "write", [4, 0], [F32], [15])
    wr("fields", "write_data", [4], [F32, Z32], [15])
    rd("fields", "read", [4, 0] if q else [0, 4, 8])
    rw_tied("fields", "readwrite_tied", [4], [F32], [15], [4], bready=ON if q else FREE)
    # partial strobes on a register with fields (byte 0 = m, byte 1 = mu, byte 2 = cnt (hardware), byte 3 = tog (hardware))
    wr("fields", "write_strobe", [4], [F32], [1, 2])
    # Output registers: partial strobes that leave one byte of the signal unstrobed
    wr("outputs", "write_strobe", [0, 4] if q else [0, 4, 8], [F32], [1, 4] if q else [1, 2, 4, 8])
    wr("outputs", "write_mid", [8], [F32], [2, 6])
    if not q:
        # wider payload alphabets, one aspect per case
        for i, pair in enumerate([[0, 15], [1, 4], [12, 3], [6, 9]]):
            wr("one_memword", f"write_strb{i}", [0], [F32, Z32], pair)
        wr("one_memword", "write_data3", [0, 4], [Z32, F32, A5], [15])
        rw("one_memword", "readwrite2", [0], [F32], [5], [0, 4])
        rw("one_memword", "readwrite3", [0], [Z32, F32], [5], [0])
        wr_pairs("one_memword", "wskew2", [0, 4], [(A5, 1), (C3, 6), (F32, 8)])
        wr("two_memwords", "write2", [0, 4, 8], [F32, Z32], [12])
        rw("two_memwords", "readwrite", [4], [F32], [5], [0, 4])
        wr("nested_file", "write", [0, 12, 4], [F32], [5])
        rd("nested_file", "read", [0, 12, 4, 8])
        rw("nested_file", "readwrite", [12], [F32], [5], [0, 12])
        wr("array_top", "write2", [4, 8, 12], [F32, Z32], [10])
        rw("array_top", "readwrite", [8], [F32], [5], [4, 8])
        wr("array_in_file", "write2", [8, 12, 4], [F32, Z32], [10])
        wr("nested2", "write2", [12, 4, 8, 0], [F32, Z32], [9])
        rw("nested2", "readwrite", [12], [F32], [5], [12, 4])
        wr("fields", "write_data3", [4], [Z32, F32, A5], [15])
        rw("fields", "readwrite", [4], [F32], [15], [4])
        wr("fields", "write_strobe2", [4], [F32, Z32], [0, 3])
    return P


# thorough-tier cases above 3*10^5 transitions: (product states, transitions) as measured once with the counting run
BIG = {"axi_one_memword_readwrite3": (8487, 543168), "axi_one_memword_wskew2": (9445, 453360), "axi_two_memwords_write2": (6623, 317904), "axi_array_top_write2": (6623, 317904),
       "axi_array_in_file_write2": None,   # alarms on the unfixed tree; not measured
       "axi_nested2_write2": (6405, 409920), "axi_fields_readwrite": (17129, 548128)}


def run(ck: common.Check, replay=None):
    ck.check_props("C20_Properties.v")
    todo = plan(ck.tier)
    only = [s for s in os.environ.get("C20_ONLY", "").split(",") if s]
    if only:   # development aid: C20_ONLY=fields_write,nested2 runs the cases whose name contains one of the words
        todo = [t for t in todo if any(s in f"{t[0]}_{t[1]}" for s in only)]
        ck.cov["restricted_to"] = only
    layouts = []
    for t in todo:
        if t[0] not in layouts:
            layouts.append(t[0])
    designs = []
    for name in layouts:
        L = LAYOUTS[name]
        nports = (L.get("notif") or {}).get("ports", [])
        ports = "\n".join([f"    {p} = Port.output(BitVector[32])" for p, _, _, _ in L["regs"]]
                          + [f"    {p} = Port.output(Bit)" for p, _ in nports])
        show = "\n".join([f"            self.{p} <<= {e}" for p, e, _, _ in L["regs"]] + [f"            self.{p} <<= {e}" for p, e in nports])
        designs.append({"name": "axi_" + name, "source": HEAD.format(regmap=L["regmap"], regports=ports, show=show), "entity": "W"})
    res = X.compile_designs(ck, designs)
    compiled = {}
    for name, dsg, r in zip(layouts, designs, res):
        if not r["ok"]:
            ck.obligation(False)
            ck.violation({"layout": name}, "wrapper around the real AXI register map no longer compiles: " + r["error"][:200],
                         {"source": dsg["source"], "error": r.get("trace", r["error"])}, no_input=True)
            continue
        compiled[name] = (dsg, r)
    cases = []
    for name, phase, alpha, desc in todo:
        if name not in compiled:
            continue
        dsg, r = compiled[name]
        L = LAYOUTS[name]
        regs = L["regs"]
        offsets = lst([f"{o}%Z" for _, _, o, _ in regs])
        defaults = lst([f"{d}%Z" for _, _, _, d in regs])
        wmasks = lst([f"{w}%Z" for w in L.get("wmasks", [])])
        nf = L.get("notif")
        nspec = ("(Some {| n_reg := %d%%nat; n_wshift := %d%%Z; n_wwidth := %d%%Z; n_rshift := %d%%Z |})"
                 % (nf["reg"], nf["wshift"], nf["wwidth"], nf["rshift"])) if nf else "None"
        cases.append(X.Case(f"axi_{name}_{phase}", r["vhdl"], step=f"axi_monitor_x 3%Z {offsets} {wmasks} {nspec}",
                            init=f"axi_m0 {defaults}", monitor=True, imports="From Cohdl Require Import Models.AxiSpec.",
                            alphabet=alpha, fuel=600000 if ck.tier == "quick" else 6000000,
                            meta={"layout": name, "phase": phase, "alphabet": desc,
                                  "registers": [{"port": p, "offset": o, "default": d} for p, _, o, d in regs],
                                  "inputs": "awaddr awprot awvalid wdata wstrb wvalid bready araddr arprot arvalid rready",
                                  "outputs": "awready wready bresp bvalid arready rdata rresp rvalid " + " ".join(p for p, _, _, _ in regs)
                                             + ("" if not nf else " " + " ".join(p for p, _ in nf["ports"])),
                                  "source": dsg["source"]}))
        ck.hist("phases", phase)
        ck.hist("layouts", name)
    # the reachability checker runs twice in a case whose state count is printed (once for the count, once inside the
    # proof); the largest cases are proved only (their measured sizes are listed in BIG)
    cases.sort(key=lambda c: c.name in BIG)
    n_counted = len([c for c in cases if c.name not in BIG])
    results = X.run_cases(ck, cases, "AXI4-Lite monitor flags on an input sequence (handshake, response count, decode, strobed/masked write, "
                           "read data, notification or hardware-side field update)",
                key_of=lambda c: {"layout": c.meta["layout"], "phase": c.meta["phase"], "group": c.meta["phase"].rstrip("0123456789")}, count_first=n_counted, timeout=3300)
    for c, status, info in results:
        # the alphabets are written in the order of INPUTS: the parsed design must list its inputs in that order
        if getattr(c, "design", None) is not None and list(c.design.inputs) != INPUTS:
            ck.obligation(False)
            ck.violation({"layout": c.meta["layout"], "phase": c.meta["phase"], "harness": "input order"},
                         "input ports of the compiled wrapper are not in the order the alphabet assumes",
                         {"inputs": list(c.design.inputs), "expected": INPUTS}, no_input=True)
    # all-layouts part: the monitor parameters against the layout model, and the model against the real code
    import c20_layout
    c20_layout.params_check(ck, LAYOUTS)
    c20_layout.run_extra(ck, LAYOUTS)
    ck.cov["cases"] = {c.name: ((dict(states=info["states"], transitions=info["transitions"]) if c.name not in BIG
                                 else dict(proved_only=True, measured=BIG[c.name])) if status == "ok" else status)
                       for c, status, info in results}
    ck.cov["rule"] = ("one theorem per (register-map layout, phase); each covers all sequences over the phase's alphabet: all valid/ready "
                      "timings of the channels in the phase, the listed addresses (mapped and unmapped), data patterns and strobes")
    ck.trusted += ["fail-closed VHDL reader", "Vhdl.Sem", "axi_monitor_x (Models/AxiSpec.v) as the rendering of the AXI4-Lite slave obligations, "
                   "of the reference data model (ref_write / ref_read / merge_masked) and of the wrapper's hardware process (hw_tick)"]
    ck.assumptions += ["data alphabet = one or two (thorough: three) 32-bit patterns, strobe alphabet = listed values: the theorem is over that "
                       "alphabet; independence of the data path from the other data values is an argument, not a theorem",
                       "the master obeys 'valid and payload stay until ready' (otherwise the monitor stops judging)",
                       "write and read channels are explored separately plus one combined phase with a small alphabet",
                       "register with fields: the hardware side is the wrapper's own process (write-notification counter, read-notification "
                       "toggle); FlagField / FlagOnNotify are not covered"]
