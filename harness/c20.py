"""C20 - AXI4-Lite register maps decode, mask and hand-shake correctly.

wrapper entities connect the REAL std.axi.axi4_light.Axi4Light + connect_addr_map to small register maps
(addresses 4 bits, registers exposed on extra output ports) -> real compiler -> VHDL -> parsed design;
per (layout, phase) a kernel-checked theorem: for ALL input sequences over the stated alphabet (every
valid/ready timing on all five channels, the listed addresses / data patterns / strobes) the protocol-and-data
monitor of Models/AxiSpec.v never flags."""
from __future__ import annotations
import common
import explore as X

HEAD = """import cohdl
from cohdl import Port, Bit, BitVector, Signal, Unsigned, Null
from cohdl import std
from cohdl.std.axi import axi4_light as axi
from cohdl.std.reg import reg32

{regmap}

class W(cohdl.Entity):
    clk = Port.input(Bit)
    axi_awaddr = Port.input(Unsigned[4])
    axi_awprot = Port.input(Unsigned[3])
    axi_awvalid = Port.input(Bit)
    axi_awready = Port.output(Bit, default=Null)
    axi_wdata = Port.input(BitVector[32])
    axi_wstrb = Port.input(BitVector[4])
    axi_wvalid = Port.input(Bit)
    axi_wready = Port.output(Bit, default=Null)
    axi_bresp = Port.output(BitVector[2], default=Null)
    axi_bvalid = Port.output(Bit, default=Null)
    axi_bready = Port.input(Bit)
    axi_araddr = Port.input(Unsigned[4])
    axi_arprot = Port.input(Unsigned[3])
    axi_arvalid = Port.input(Bit)
    axi_arready = Port.output(Bit, default=Null)
    axi_rdata = Port.output(BitVector[32], default=Null)
    axi_rresp = Port.output(BitVector[2], default=Null)
    axi_rvalid = Port.output(Bit, default=Null)
    axi_rready = Port.input(Bit)
{regports}

    def architecture(self):
        clk = std.Clock(self.clk)
        con = axi.Axi4Light(
            clk=clk, reset=None,
            wraddr=axi.Axi4Light.WrAddr(valid=self.axi_awvalid, ready=self.axi_awready, awaddr=self.axi_awaddr, awprot=self.axi_awprot),
            wrdata=axi.Axi4Light.WrData(valid=self.axi_wvalid, ready=self.axi_wready, wdata=self.axi_wdata, wstrb=self.axi_wstrb),
            wrresp=axi.Axi4Light.WrResp(valid=self.axi_bvalid, ready=self.axi_bready, bresp=self.axi_bresp),
            rdaddr=axi.Axi4Light.RdAddr(valid=self.axi_arvalid, ready=self.axi_arready, araddr=self.axi_araddr, arprot=self.axi_arprot),
            rddata=axi.Axi4Light.RdData(valid=self.axi_rvalid, ready=self.axi_rready, rdata=self.axi_rdata, rresp=self.axi_rresp),
        )
        root = Root()
        con.connect_addr_map(root)

        @std.concurrent
        def show():
{show}
"""

LAYOUTS = {
    # name: (register map source, [(port name, expression, byte offset, default)])
    "one_memword": (
        "class Root(reg32.AddrMap, word_count=2):\n    ra: reg32.MemWord[0]\n"
        "    def _config_(self):\n        self.ra._config_(BitVector[32]('00000000111111110000000010101010'))\n",
        [("reg_a", "root.ra.raw", 0, 0x00FF00AA)]),
    "two_memwords": (
        "class Root(reg32.AddrMap, word_count=4):\n    ra: reg32.MemWord[0]\n    rb: reg32.MemUWord[4]\n"
        "    def _config_(self):\n        self.ra._config_(BitVector[32]('00000000111111110000000010101010'))\n"
        "        self.rb._config_(Null)\n",
        [("reg_a", "root.ra.raw", 0, 0x00FF00AA), ("reg_b", "root.rb.raw.bitvector", 4, 0)]),
    "nested_file": (
        "class Inner(reg32.RegFile, word_count=2):\n    rx: reg32.MemWord[4]\n\n"
        "class Root(reg32.AddrMap, word_count=4):\n    ra: reg32.MemWord[0]\n    sub: Inner[8]\n",
        [("reg_a", "root.ra.raw", 0, 0), ("reg_x", "root.sub.rx.raw", 12, 0)]),
}


def bv(w, z):
    return f"VV KSlv {w}%N {z}%Z"


def uv(w, z):
    return f"VV KUns {w}%N {z}%Z"


def lst(xs):
    return "[" + "; ".join(xs) + "]"


def phases(tier, addrs, nregs=1):
    z32, f32, a5 = 0, 0xFFFFFFFF, 0xA5A5A5A5
    idle = {"axi_awprot": lst([uv(3, 0)]), "axi_arprot": lst([uv(3, 0)])}
    wr_off = {"axi_awaddr": lst([uv(4, 0)]), "axi_awvalid": "[VL false]", "axi_wdata": lst([bv(32, 0)]),
              "axi_wstrb": lst([bv(4, 0)]), "axi_wvalid": "[VL false]", "axi_bready": "[VL false]"}
    rd_off = {"axi_araddr": lst([uv(4, 0)]), "axi_arvalid": "[VL false]", "axi_rready": "[VL false]"}
    ph = {}
    datas = [f32] if tier == "quick" else [z32, f32, a5]
    # quick: two registers x two strobe patterns is a product of > 10^4 states; one pattern there (the one-register
    # layout keeps both)
    strbs = ([5, 10] if nregs == 1 else [5]) if tier == "quick" else [0, 1, 4, 12, 15]
    ph["write"] = dict(idle, **rd_off, axi_awaddr=lst([uv(4, a) for a in addrs]),
                       axi_wdata=lst([bv(32, d) for d in datas]), axi_wstrb=lst([bv(4, s) for s in strbs]))
    ph["read"] = dict(idle, **wr_off, axi_araddr=lst([uv(4, a) for a in addrs]))
    ph["readwrite"] = dict(idle, axi_awaddr=lst([uv(4, addrs[0])]), axi_wdata=lst([bv(32, f32)] if tier == "quick" else [bv(32, z32), bv(32, f32)]),
                           axi_wstrb=lst([bv(4, 5)]), axi_araddr=lst([uv(4, addrs[0])] if tier == "quick" else [uv(4, a) for a in addrs[:2]]))
    return ph


def run(ck: common.Check, replay=None):
    ck.check_props("C20_Properties.v")
    layouts = ["one_memword", "two_memwords"] if ck.tier == "quick" else list(LAYOUTS)
    designs = []
    for name in layouts:
        regmap, regs = LAYOUTS[name]
        ports = "\n".join(f"    {p} = Port.output(BitVector[32])" for p, _, _, _ in regs)
        show = "\n".join(f"            self.{p} <<= {e}" for p, e, _, _ in regs)
        designs.append({"name": "axi_" + name, "source": HEAD.format(regmap=regmap, regports=ports, show=show), "entity": "W"})
    res = X.compile_designs(ck, designs)
    cases = []
    for name, dsg, r in zip(layouts, designs, res):
        if not r["ok"]:
            ck.obligation(False)
            ck.violation({"layout": name}, "wrapper around the real AXI register map no longer compiles: " + r["error"][:200],
                         {"source": dsg["source"], "error": r.get("trace", r["error"])}, no_input=True)
            continue
        regs = LAYOUTS[name][1]
        offsets = lst([f"{o}%Z" for _, _, o, _ in regs])
        defaults = lst([f"{d}%Z" for _, _, _, d in regs])
        mapped = [o for _, _, o, _ in regs]
        unmapped = [a for a in (0, 4, 8, 12) if a not in mapped]
        addrs = (mapped[:1] if ck.tier == "quick" and len(mapped) > 1 else mapped) + unmapped[:1]
        if ck.tier == "quick" and len(mapped) > 1:
            addrs = mapped[:2] + unmapped[:1]
        for phase, alpha in phases(ck.tier, addrs, len(mapped)).items():
            if phase == "readwrite" and ck.tier == "quick" and name != "one_memword":
                continue
            cases.append(X.Case(f"axi_{name}_{phase}", r["vhdl"], step=f"axi_monitor 3%Z {offsets}", init=f"axi_m0 {defaults}",
                                monitor=True, imports="From Cohdl Require Import Models.AxiSpec.",
                                alphabet_overrides=alpha, fuel=600000 if ck.tier == "quick" else 6000000,
                                meta={"layout": name, "phase": phase, "addresses": addrs, "source": dsg["source"]}))
            ck.hist("phases", phase)
    X.run_cases(ck, cases, "AXI4-Lite monitor flags on an input sequence (handshake, response count, strobed write or read data)",
                key_of=lambda c: {"layout": c.meta["layout"], "phase": c.meta["phase"]}, count_first=4, timeout=3300)
    ck.cov["rule"] = ("one theorem per (register-map layout, phase); each covers all sequences over the phase's alphabet: all valid/ready "
                      "timings of the channels in the phase, the listed addresses (mapped and unmapped), data patterns and strobes")
    ck.trusted += ["fail-closed VHDL reader", "Vhdl.Sem", "axi_monitor (Models/AxiSpec.v) as the rendering of the AXI4-Lite slave obligations"]
    ck.assumptions += ["data alphabet = two (thorough: three) 32-bit patterns, strobe alphabet = listed values: the theorem is over that alphabet; "
                       "independence of the data path from the other data values is an argument, not a theorem",
                       "the master obeys 'valid and payload stay until ready' (otherwise the monitor stops judging)",
                       "write and read channels are explored separately plus one combined phase with a small alphabet"]
