"""C19 worker - runs the REAL cohdl.std SFixed/UFixed on compile-time constants.

stdin : {"cases": [case, ...]}
stdout: {"results": [result, ...]}   (one JSON line)

case (lists, first element = op):
  ["resize", kind, sl, sr, raw, l, r, round, ovf]        round in TRUNCATE|ROUND, ovf in WRAP|SATURATE
  ["add"|"sub"|"mul", kind, l1, r1, raw1, l2, r2, raw2]
  ["eq", kind, l1, r1, raw1, l2, r2, raw2]
  ["eqnum", kind, l, r, raw, m, e, "int"|"float"]        compares with the python number m*2**e
  ["ctor_num", kind, l, r, m, e, "int"|"float"]
  ["ctor_vec", kind, l, r, "Signed"|"Unsigned", w, val]
  ["ctor_fix", kind, l, r, sl, sr, raw]
kind in SFixed|UFixed; raw = integer value of the underlying Signed/Unsigned vector.

result:
  ["ok", left, right, raw]   a fixed point object (format taken from the object's TYPE, raw from its vector)
  ["bool", 0|1]
  ["err", errclass, message[:80]]   errclass = small enum, see classify()
"""
import json
import sys

from cohdl import Signed, Unsigned
from cohdl.std import SFixed, UFixed, FixedRoundStyle, FixedOverflowStyle

KIND = {"SFixed": SFixed, "UFixed": UFixed}
RND = {"TRUNCATE": FixedRoundStyle.TRUNCATE, "ROUND": FixedRoundStyle.ROUND}
OVF = {"WRAP": FixedOverflowStyle.WRAP, "SATURATE": FixedOverflowStyle.SATURATE}


def classify(e):
    """canonical error enum (never compare messages in the check, only this)"""
    msg = str(e)
    if isinstance(e, AssertionError):
        if "index exceeds vector width" in msg:
            return "index"
        if "invalid subvector width" in msg:
            return "subvector"
        if "cannot initialize" in msg and "wider" in msg:
            return "wider"
        if "outside valid range of fixed point" in msg:
            return "range"
        if "vector width must be positive" in msg:
            return "width0"
        if "exceeds target width" in msg:
            return "resize"
        return "assert"
    return "exc:" + type(e).__name__


def mk(kind, l, r, raw):
    T = KIND[kind][l:r]
    w = l - r + 1
    V = Signed[w] if kind == "SFixed" else Unsigned[w]
    return T(raw=V(raw))


def out(x):
    if isinstance(x, bool):
        return ["bool", int(x)]
    if isinstance(x, (SFixed, UFixed)):
        T = type(x)
        kind_ok = (isinstance(x, SFixed) and isinstance(x._val, Signed)) or (
            isinstance(x, UFixed) and isinstance(x._val, Unsigned))
        if not kind_ok or x._val.width != T._width:
            return ["err", "badobj", repr(x)[:80]]
        return ["ok", T.left(), T.right(), x._val.to_int()]
    return ["err", "badresult", repr(x)[:80]]


def number(m, e, how):
    if how == "int":
        assert e >= 0
        return m * 2 ** e
    return float(m) * 2.0 ** e


def run_case(c):
    op = c[0]
    if op == "resize":
        _, kind, sl, sr, raw, l, r, rnd, ovf = c
        x = mk(kind, sl, sr, raw)
        return out(x.resize(l, r, RND[rnd], OVF[ovf]))
    if op in ("add", "sub", "mul", "eq"):
        _, kind, l1, r1, raw1, l2, r2, raw2 = c
        a = mk(kind, l1, r1, raw1)
        b = mk(kind, l2, r2, raw2)
        if op == "add":
            return out(a + b)
        if op == "sub":
            return out(a - b)
        if op == "mul":
            return out(a * b)
        return out(a == b)
    if op == "eqnum":
        _, kind, l, r, raw, m, e, how = c
        return out(mk(kind, l, r, raw) == number(m, e, how))
    if op == "ctor_num":
        _, kind, l, r, m, e, how = c
        return out(KIND[kind][l:r](number(m, e, how)))
    if op == "ctor_vec":
        _, kind, l, r, vk, w, val = c
        v = Signed[w](val) if vk == "Signed" else Unsigned[w](val)
        return out(KIND[kind][l:r](v))
    if op == "ctor_fix":
        _, kind, l, r, sl, sr, raw = c
        return out(KIND[kind][l:r](mk(kind, sl, sr, raw)))
    raise ValueError("unknown op " + str(op))


def main():
    payload = json.load(sys.stdin)
    res = []
    for c in payload["cases"]:
        try:
            res.append(run_case(c))
        except ValueError:
            raise
        except Exception as e:  # noqa: BLE001 - every rejection of the real code is data here
            res.append(["err", classify(e), str(e)[:80]])
    sys.stdout.write(json.dumps({"results": res}) + "\n")


if __name__ == "__main__":
    main()
