"""C10 - the compile-time Python subset evaluates exactly like CPython.

(a) argument binding: random signatures x call shapes
      Bind.cpython_bind (Coq)  vs  CPython itself (real call + inspect.signature.bind)   [validates the spec model]
      Bind.tracer_bind  (Coq)  vs  the REAL FunctionDefinition.bind_args                 [ties the model to the code]
      spec on the real results: real binding == CPython binding or real rejects; CPython rejects => real rejects
(b) end-to-end: generated entities call generated functions with constant arguments in a concurrent
    context; a digest of the bound values is driven on Unsigned[16] ports; literal in the VHDL == CPython
    (+ operator dispatch over generated class tables, + and/or/not)
(c) DIFFERENTIAL TESTING ONLY (coverage "differential", never an obligation): grammar-generated constant
    programs, CPython vs tracer.
"""
from __future__ import annotations
import json
import os
import re
import shutil

import common

SELF = 999
DMOD = 65521
MODELS = ["Bind.v", "BindProofs.v"]
PREAMBLE = ("From Coq Require Import NArith List Bool.\nImport ListNotations.\n"
            "From Cohdl Require Import Models.Bind.\n")


# ----------------------------------------------------------------------------
# building the model files (they are not part of _CoqProject; compile when stale)
# ----------------------------------------------------------------------------

def build_models(ck):
    d = os.path.join(common.COQ_DIR, "theories", "Models")
    for f in MODELS:
        src = os.path.join(d, f)
        vo = src[:-2] + ".vo"
        deps = [os.path.join(d, g) for g in MODELS[:MODELS.index(f) + 1]]
        if os.path.exists(vo) and all(os.path.getmtime(vo) >= os.path.getmtime(x) for x in deps):
            continue
        rc, out, err = common.coqc(src, timeout=900)
        if rc != 0:
            ck.obligation(False)
            ck.violation({"model_file": f}, "model file no longer compiles",
                         {"file": f, "log": (out + err)[-3000:], "broken": "theories/Models/" + f}, no_input=True)
            return False
    return True


# ----------------------------------------------------------------------------
# signatures and calls
# ----------------------------------------------------------------------------

def pname(i):
    return "p%d" % i


class Sig:
    """posonly/args/kwonly: lists of (id, default|None); vararg/kwarg: id|None; method: bool"""

    def __init__(self, posonly, args, vararg, kwonly, kwarg, method=False):
        self.posonly, self.args, self.vararg, self.kwonly, self.kwarg, self.method = \
            posonly, args, vararg, kwonly, kwarg, method

    def varnames(self):
        """co_varnames order"""
        out = [p for p, _ in self.posonly] + [p for p, _ in self.args] + [p for p, _ in self.kwonly]
        if self.vararg is not None:
            out.append(self.vararg)
        if self.kwarg is not None:
            out.append(self.kwarg)
        return out

    def params_src(self):
        def one(p, d):
            return pname(p) if d is None else "%s=%d" % (pname(p), d)
        parts = [one(p, d) for p, d in self.posonly]
        if self.posonly:
            parts.append("/")
        parts += [one(p, d) for p, d in self.args]
        if self.vararg is not None:
            parts.append("*" + pname(self.vararg))
        elif self.kwonly:
            parts.append("*")
        parts += [one(p, d) for p, d in self.kwonly]
        if self.kwarg is not None:
            parts.append("**" + pname(self.kwarg))
        return ", ".join(parts)

    def coq(self):
        def pl(ps):
            return "[" + "; ".join("(%d%%N, %s)" % (p, "None" if d is None else "Some %d%%N" % d) for p, d in ps) + "]"

        def on(x):
            return "None" if x is None else "(Some %d%%N)" % x
        return "(mkSig %s %s %s %s %s %s)" % (pl(self.posonly), pl(self.args), on(self.vararg), pl(self.kwonly),
                                             on(self.kwarg), on(SELF if self.method else None))

    def key(self):
        return json.dumps([self.posonly, self.args, self.vararg, self.kwonly, self.kwarg, self.method])

    def shape(self):
        return "po%d a%d %s ko%d %s%s" % (len(self.posonly), len(self.args), "*" if self.vararg is not None else "-",
                                          len(self.kwonly), "**" if self.kwarg is not None else "-",
                                          " m" if self.method else "")

    def to_json(self):
        return {"posonly": self.posonly, "args": self.args, "vararg": self.vararg, "kwonly": self.kwonly,
                "kwarg": self.kwarg, "method": self.method}

    @staticmethod
    def from_json(j):
        f = lambda l: [tuple(x) for x in l]  # noqa
        return Sig(f(j["posonly"]), f(j["args"]), j["vararg"], f(j["kwonly"]), j["kwarg"], j["method"])


class Call:
    """pos: values; kws: (id, value) in order; src: the argument list text `(...)`"""

    def __init__(self, pos, kws, src):
        self.pos, self.kws, self.src = pos, kws, src

    def coq(self):
        return "(mkCall [%s] [%s])" % ("; ".join("%d%%N" % v for v in self.pos),
                                       "; ".join("(%d%%N, %d%%N)" % (k, v) for k, v in self.kws))

    def has_dup(self):
        ks = [k for k, _ in self.kws]
        return len(set(ks)) != len(ks)


EXTRA_NAMES = [20, 21]


def gen_sig(rng):
    r = rng.random()
    big = r < 0.25
    n_po = rng.choice([0, 0, 0, 1, 1, 2]) if not big else rng.randint(0, 2)
    n_ar = rng.choice([0, 1, 1, 2, 2, 3])
    n_ko = rng.choice([0, 0, 1, 1, 2])
    has_va = rng.random() < 0.35
    has_kw = rng.random() < 0.4
    ids = list(range(n_po + n_ar + n_ko + 2))
    rng.shuffle(ids)                       # names are not in declaration order
    it = iter(ids)
    n_def = rng.randint(0, n_po + n_ar) if rng.random() < 0.7 else 0
    pos_params = []
    for i in range(n_po + n_ar):
        d = (70 + i) if i >= n_po + n_ar - n_def else None
        pos_params.append((next(it), d))
    posonly, args = pos_params[:n_po], pos_params[n_po:]
    kwonly = [(next(it), (80 + i) if rng.random() < 0.5 else None) for i in range(n_ko)]
    vararg = next(it) if has_va else None
    kwarg = next(it) if has_kw else None
    method = rng.random() < 0.15
    return Sig(posonly, args, vararg, kwonly, kwarg, method)


def call_src(rng, pos, kws):
    parts = []
    i = 0
    while i < len(pos):
        if rng.random() < 0.3:
            n = rng.randint(0, min(3, len(pos) - i))
            parts.append("*[" + ", ".join(str(v) for v in pos[i:i + n]) + "]")
            i += n
        else:
            parts.append(str(pos[i]))
            i += 1
    direct = set()
    all_keys = [k for k, _ in kws]
    group = None
    for k, v in kws:
        # a name may be written directly (`k=v`) once only - a second one is a SyntaxError, not a TypeError
        p_direct = 0.6 if all_keys.count(k) == 1 else 0.35
        if k not in direct and rng.random() < p_direct:
            direct.add(k)
            parts.append("%s=%d" % (pname(k), v))
            group = None
        elif group is not None and k not in group and rng.random() < 0.6:
            group[k] = v
        else:
            group = {k: v}
            parts.append(group)
    out = []
    for p in parts:
        if isinstance(p, dict):
            out.append("**{" + ", ".join("'%s': %d" % (pname(k), v) for k, v in p.items()) + "}")
        else:
            out.append(p)
    return "(" + ", ".join(out) + ")"


def gen_call(rng, sig: Sig):
    n_slots = len(sig.posonly) + len(sig.args) - (1 if sig.method else 0)
    r = rng.random()
    if r < 0.55:
        npos = rng.randint(0, max(0, n_slots))
    elif r < 0.8:
        npos = max(0, n_slots)
    else:
        npos = rng.randint(0, max(0, n_slots) + 2)
    pos = [10 + i for i in range(npos)]
    # keyword names: parameters not covered positionally (likely valid) + some others
    names = sig.varnames()
    po_ar = [p for p, _ in sig.posonly] + [p for p, _ in sig.args]
    covered = set(po_ar[:npos + (1 if sig.method else 0)])
    kws = []
    for p, d in sig.args + sig.kwonly:
        if p in covered:
            continue
        need = d is None
        if rng.random() < (0.85 if need else 0.4):
            kws.append(p)
    rr = rng.random()
    if rr < 0.25:
        cand = [n for n in names + EXTRA_NAMES if n not in kws]
        for _ in range(rng.randint(1, 2)):
            if cand:
                kws.append(cand.pop(rng.randrange(len(cand))))
    elif rr < 0.35 and sig.kwarg is not None:
        kws.append(rng.choice([n for n in EXTRA_NAMES if n not in kws] or [22]))
    rng.shuffle(kws)
    if rng.random() < 0.06 and kws:
        kws.insert(rng.randint(0, len(kws)), rng.choice(kws))     # duplicate keyword
    kws = [(k, 40 + i) for i, k in enumerate(kws)]
    return Call(pos, kws, call_src(rng, pos, kws))


# hand-written corpus: the shapes of tests/reference_builds/general/test_call_01/02 + every TypeError class
def _corpus():
    S, C = Sig, Call
    out = []

    def add(sig, calls):
        out.append((sig, [C(p, k, None) for p, k in calls]))
    add(S([], [], None, [], None), [([], []), ([10], []), ([], [(20, 40)])])
    add(S([], [(0, None)], None, [], None), [([10], []), ([], [(0, 40)]), ([], []), ([10], [(0, 40)]), ([10, 11], [])])
    add(S([], [(0, None), (1, 71)], None, [], None),
        [([10], []), ([10], [(1, 40)]), ([], [(1, 40), (0, 41)]), ([], [(0, 40), (0, 41)]), ([10], [(1, 40), (1, 41)]),
         ([10, 11], [(1, 40)]), ([], [(1, 40)])])
    add(S([(0, None)], [(1, 71)], None, [(2, None)], None),
        [([10], [(2, 40)]), ([10], [(2, 40), (1, 41)]), ([], [(0, 40), (2, 41)]), ([10, 11, 12], [(2, 40)]), ([10], [])])
    add(S([(0, 70)], [], 1, [(2, 80)], None),
        [([], []), ([10, 11, 12], []), ([10], [(2, 40)]), ([], [(0, 40)]), ([], [(1, 40)])])
    add(S([(0, 70)], [], 1, [(2, None)], 3),
        [([10, 11, 12], [(2, 40)]), ([10, 11], [(2, 40), (0, 41)]), ([10], [(2, 40), (20, 41)]),
         ([10], [(2, 40), (1, 41), (0, 42)]), ([], [(3, 40), (2, 41)]), ([10], [(20, 40), (2, 41), (20, 42)]), ([10], [])])
    add(S([], [(0, None)], None, [], 1), [([10], [(0, 40)]), ([], [(1, 40), (0, 41)]), ([10], [(1, 40)])])
    add(S([], [(0, None), (1, None)], None, [], None, True), [([10], []), ([], [(1, 40)]), ([], [(0, 40), (1, 41)]), ([10, 11], [])])
    add(S([], [], 0, [], None, True), [([], []), ([10, 11], [])])
    add(S([], [], None, [(0, None)], None, True), [([], [(0, 40)]), ([], [])])
    add(S([], [], None, [], 0, True), [([], []), ([], [(20, 40)])])
    add(S([], [], None, [(0, None), (1, 81)], None), [([], [(0, 40)]), ([], [(1, 40)]), ([10], [(0, 40)]), ([], [(1, 40), (0, 41)])])
    return out


def fix_src(rng, sig, calls):
    for c in calls:
        if c.src is None:
            c.src = call_src(rng, c.pos, c.kws)


# ----------------------------------------------------------------------------
# (a) bind: module source, worker, Coq comparison
# ----------------------------------------------------------------------------

def bind_module(cases):
    lines = ["# generated by harness/c10.py", ""]
    for i, (sig, _calls) in enumerate(cases):
        ret = "{" + ", ".join("'%s': %s" % (pname(p), pname(p)) for p in sig.varnames()) + "}"
        if sig.method:
            lines += ["class K_%d:" % i, "    _c10_self = True",
                      "    def m(%s):" % sig.params_src(), "        return " + ret, "", "o_%d = K_%d()" % (i, i), ""]
        else:
            lines += ["def f_%d(%s):" % (i, sig.params_src()), "    return " + ret, ""]
    return "\n".join(lines) + "\n"


def id_of(n):
    assert n.startswith("p"), n
    return int(n[1:])


def bval_coq(cv):
    kind, x = cv
    if kind == "v":
        return "BVal %d%%N" % x
    if kind == "t":
        return "BTuple [%s]" % "; ".join("%d%%N" % v for v in x)
    if kind == "d":
        return "BDict [%s]" % "; ".join("(%d%%N, %d%%N)" % (id_of(k), v) for k, v in x)
    raise ValueError(cv)


def binding_coq(b):
    if b is None:
        return "None"
    return "(Some [%s])" % "; ".join("(%d%%N, %s)" % (id_of(n), bval_coq(cv)) for n, cv in b)


def obval_coq(cv):
    return "None" if cv is None else "(Some (%s))" % bval_coq(cv)


class Reporter:
    """one VIOLATION line per failing-input class, the rest is counted"""

    def __init__(self, ck):
        self.ck = ck
        self.seen = {}

    def __call__(self, key, what, replay, no_input=False):
        k = json.dumps(key, sort_keys=True)
        self.seen[k] = self.seen.get(k, 0) + 1
        self.ck.hist("violation_classes", key.get("class", k))
        if self.seen[k] == 1:
            self.ck.violation(key, what, replay, no_input=no_input)


def bind_oneliner(sig, call):
    callee = "K().m" if sig.method else "f"
    if sig.method:
        d = "class K:\n def m(%s): return locals()\n" % sig.params_src()
    else:
        d = "def f(%s): return locals()\n" % sig.params_src()
    kw = "{" + ", ".join("'%s': %d" % (pname(k), v) for k, v in dict(call.kws).items()) + "}"
    return (d + "from cohdl._core._collect_ast_and_scope import FunctionDefinition as FD\n"
            "print('tracer :', FD.from_callable(%s).bind_args(%r, %s).scope())\n"
            "print('cpython:', %s%s)   # save as a file (inspect.getsource), PYTHONPATH=/repo\n" % (callee, call.pos, kw, callee, call.src))


def run_bind(ck, report, replay=None):
    rng = ck.rng
    cases = []
    if replay is not None:
        sig = Sig.from_json(replay["sig"])
        cases = [(sig, [Call(replay["call"]["pos"], [tuple(x) for x in replay["call"]["kws"]], replay["call"]["src"])])]
    else:
        for sig, calls in _corpus():
            fix_src(rng, sig, calls)
            cases.append((sig, calls))
        n_sig = 400 if ck.tier == "quick" else 6000
        n_calls = 5 if ck.tier == "quick" else 6
        for _ in range(n_sig):
            sig = gen_sig(rng)
            cases.append((sig, [gen_call(rng, sig) for _ in range(n_calls)]))
    payload = {"mode": "bind", "dir": os.path.join(ck.gen, "bind"), "module": bind_module(cases), "cases": []}
    for i, (sig, calls) in enumerate(cases):
        payload["cases"].append({"fn": "f_%d" % i, "obj": ("o_%d" % i) if sig.method else None,
                                 "params": [pname(p) for p in sig.varnames()],
                                 "calls": [{"src": c.src, "pos": c.pos, "kws": [[pname(k), v] for k, v in c.kws]} for c in calls]})
    res = common.run_worker("c10_worker.py", payload, timeout=1800)["results"]

    flat = []
    for (sig, calls), rs in zip(cases, res):
        for c, r in zip(calls, rs):
            flat.append((sig, c, r))
    terms = []
    for sig, c, r in flat:
        terms.append("(%s, %s, %s, %s, %s)" % (sig.coq(), c.coq(), binding_coq(r["cpy"]), binding_coq(r["real"]),
                                              obval_coq(r.get("real_super"))))
    ctype = "sig * call * option binding * option binding * option bval"
    pred_cpy = "fun '(s, c, cpy, real, rs) => obinding_eqb (cpython_bind s c) cpy"
    # bind_args receives a dict (repeated keywords cannot reach it; the ast.Call handler rejects them before - that half
    # is tied end-to-end); the direct tie compares Bind.bind_args on the calls without repeated keyword
    pred_real = ("fun '(s, c, cpy, real, rs) => if has_dup (map fst (c_kws c)) then true else "
                 "obinding_eqb (bind_args s (c_pos c) (c_kws c)) real && "
                 "match real with Some b => obval_eqb (tracer_super_arg s b) rs | None => true end")
    bad_cpy = set(common.coq_bad_indices(ck, "bind_cpy", PREAMBLE, ctype, terms, pred_cpy))
    bad_real = set(common.coq_bad_indices(ck, "bind_real", PREAMBLE, ctype, terms, pred_real))

    for i, (sig, c, r) in enumerate(flat):
        ck.evaluations += 2
        ck.hist("sig_shapes", sig.shape())
        ck.hist("call_npos", len(c.pos))
        ck.hist("call_nkw", len(c.kws))
        outcome = "accepted" if r["cpy"] is not None else ("dup-keyword" if c.has_dup() else re.sub(r"[^a-z ]", "", (r.get("cpy_err") or "")
                                                          .split("()")[-1].strip())[:34])
        ck.hist("cpython_outcome", outcome)
        key = sig.key() + "|" + json.dumps([len(c.pos), [k for k, _ in c.kws]])
        if len(c.pos) + len(c.kws) > 0:
            ck.nontrivial(key)
        rep = {"sig": sig.to_json(), "call": {"pos": c.pos, "kws": c.kws, "src": c.src}, "def": "def f(%s)" % sig.params_src(),
               "cpython": r["cpy"], "cpython_error": r.get("cpy_err"), "real": r["real"], "real_error": r.get("real_err"),
               "python": bind_oneliner(sig, c)}
        # (1) spec model vs CPython itself (real call and inspect.signature.bind must agree with each other, too)
        ok_cpy = i not in bad_cpy
        # inspect.signature.bind of CPython 3.12 wrongly rejects a positional-only NAME used as keyword when the
        # function has **kwargs (the real call accepts it and puts it in the dict) - the real call is the reference
        po_kw = sig.kwarg is not None and any(k in [p for p, _ in sig.posonly] for k, _ in c.kws)
        if r["sigb"] != "dup" and not po_kw:
            if (r["sigb"] is None) != (r["cpy"] is None) or (r["sigb"] is not None and r["sigb"] != r["cpy"]):
                ok_cpy = False
                rep["signature_bind"] = r["sigb"]
        ck.obligation(ok_cpy)
        if not ok_cpy:
            report({"class": "spec-model-vs-cpython"},
                   "Bind.cpython_bind (the specification model) differs from CPython itself - the check's spec is wrong",
                   rep, no_input=True)
        # (2) the property itself on the real result (spec = CPython's own answer)
        spec_ok = True
        if c.has_dup():
            # cannot reach bind_args (a dict); the compiler's answer is checked end-to-end in run_bind_e2e
            ck.count("direct_tie_repeated_keyword_skipped")
        elif r["cpy"] is None and r["real"] is not None:
            spec_ok = False
            report({"class": "cpython-rejected-call-accepted"},
                   "FunctionDefinition.bind_args accepts a call that CPython rejects (%s)" % r.get("cpy_err"), rep)
        elif r["cpy"] is not None and r["real"] is not None and r["cpy"] != r["real"]:
            spec_ok = False
            report({"class": "binds-differently"}, "bind_args binds the arguments differently from CPython", rep)
        elif r["cpy"] is not None and r["real"] is None:
            ck.count("real_rejects_valid_call")
        # (3) model vs real code
        ok_real = i not in bad_real
        ck.obligation(ok_real and spec_ok)
        if not ok_real and spec_ok:
            report({"class": "bind-model-vs-code"},
                   "Bind.bind_args no longer describes FunctionDefinition.bind_args (the real result still satisfies the "
                   "property on this input)", rep, no_input=True)
        if i % 977 == 3:
            ck.sample({"def": "def f(%s)" % sig.params_src(), "call": "f" + c.src, "cpython": r["cpy"], "real": r["real"]})
    ck.cov["bind_cases"] = len(flat)
    ck.cov["bind_signatures"] = len(cases)


# ----------------------------------------------------------------------------
# end-to-end machinery: probe programs compiled with the real compiler, digests on ports
# ----------------------------------------------------------------------------

HEADER = """import cohdl
from cohdl import Port, Unsigned
from cohdl import std

M = 65521


def _d(x):
    if getattr(x, '_c10_self', False):
        return 999
    if x is None:
        return 3
    if x is True:
        return 5
    if x is False:
        return 6
    if isinstance(x, int):
        return (x * 7 + 11) % M
    if isinstance(x, str):
        h = 13
        for ch in x:
            h = (h * 31 + ord(ch)) % M
        return h
    if isinstance(x, (tuple, list)):
        h = 17 if isinstance(x, tuple) else 19
        for e in x:
            h = (h * 131 + _d(e)) % M
        return h
    if isinstance(x, dict):
        h = 23
        for k, e in x.items():
            h = (h * 137 + _d(k) * 3 + _d(e)) % M
        return h
    if hasattr(x, 'v') and hasattr(x, '_c10_tag'):
        return _d((x._c10_tag, x.v))
    raise TypeError('undigestable ' + type(x).__name__)


@cohdl.pyeval
def dig(x):
    # generic digest of a constant python value (runs natively inside the compiler)
    return _d(x)


@cohdl.pyeval
def digb(*vals):
    # Bind.digest of Models/Bind.v
    def sv(v):
        return 999 if getattr(v, '_c10_self', False) else v
    a = 1
    for x in vals:
        if isinstance(x, tuple):
            d = 7
            for v in x:
                d = (d * 31 + sv(v) + 2) % M
        elif isinstance(x, dict):
            d = 11
            for v in x.values():
                d = (d * 37 + sv(v) + 3) % M
        else:
            d = (sv(x) + 1) % M
        a = (a * 131 + d) % M
    return a


@cohdl.pyeval
def dig3(x):
    # 1 / 0 for the bool objects, 2 for anything else
    return 1 if x is True else (0 if x is False else 2)

"""


class Probe:
    """one traced function `def t_k():` (body lines) + optional different reference body"""

    def __init__(self, body, ref_body=None, meta=None):
        self.body, self.ref_body, self.meta = body, ref_body, meta or {}
        self.cpy = None        # ("ok", int) | ("err", type, msg)
        self.tr = None         # ("ok", int) | ("err", type, msg) | ("unparsed", text)


class Program:
    def __init__(self, name, defs, probes):
        self.name, self.defs, self.probes = name, defs, probes

    def source(self, idxs, with_entity=True):
        lines = [HEADER, self.defs, ""]
        for k in idxs:
            pr = self.probes[k]
            lines.append("def t_%d():" % k)
            lines += ["    " + l for l in pr.body]
            lines.append("")
            if pr.ref_body is not None:
                lines.append("def r_%d():" % k)
                lines += ["    " + l for l in pr.ref_body]
                lines.append("")
        if with_entity:
            lines.append("class E(cohdl.Entity):")
            for k in idxs:
                lines.append("    o%d = Port.output(Unsigned[16])" % k)
            lines += ["    def architecture(self):", "        @std.concurrent", "        def logic():"]
            for k in idxs:
                lines.append("            self.o%d <<= t_%d()" % (k, k))
            if not idxs:
                lines.append("            pass")
            lines.append("")
        lines.append("def reference():")
        lines.append("    out = []")
        for k in idxs:
            fn = "r_%d" % k if self.probes[k].ref_body is not None else "t_%d" % k
            lines += ["    try:", "        out.append(['ok', int(%s())])" % fn, "    except Exception as e:",
                      "        out.append(['err', type(e).__name__, str(e)[:200]])"]
        lines.append("    return out")
        return "\n".join(lines) + "\n"


LIT = re.compile(r"^\s*(?:buffer_)?o(\d+) <= unsigned'\(\"([01]+)\"\);", re.M)


def run_programs(ck, tag, programs, max_rejected_per_program=2):
    """fills probe.cpy / probe.tr for every probe (tr stays None for CPython-rejected probes that were not sampled)"""
    gdir = os.path.join(ck.gen, tag)
    shutil.rmtree(gdir, ignore_errors=True)
    # 1. CPython, every probe on its own (a probe that raises must not hide the others)
    refs = [{"name": P.name, "source": P.source(list(range(len(P.probes))), with_entity=False)} for P in programs]
    rr = common.run_worker("c10_worker.py", {"mode": "pyref", "dir": os.path.join(gdir, "ref"), "programs": refs,
                                             "jobs": common.NCPU}, timeout=3000)["results"]
    for P, r in zip(programs, rr):
        if not r["ok"]:
            raise RuntimeError("reference run of generated program failed: %s\n%s" % (r.get("error"), r.get("trace")))
        for pr, v in zip(P.probes, r["values"]):
            pr.cpy = tuple(v)
    # 2. the real compiler: accepted probes of a program together, CPython-rejected ones alone
    rounds = 0
    todo = []
    for P in programs:
        acc = [k for k, pr in enumerate(P.probes) if pr.cpy[0] == "ok" and not pr.meta.get("expect_reject")]
        exp = [k for k, pr in enumerate(P.probes) if pr.cpy[0] == "ok" and pr.meta.get("expect_reject")]
        rej = [k for k, pr in enumerate(P.probes) if pr.cpy[0] != "ok"]
        for j in range(0, len(acc), 10):          # small designs: better parallelism, cheaper splitting
            todo.append((P, acc[j:j + 10]))
        ck.rng.shuffle(rej)
        ck.rng.shuffle(exp)
        for k in rej[:max_rejected_per_program] + exp[:max_rejected_per_program]:
            todo.append((P, [k]))
    n_designs = 0
    while todo and rounds < 4:
        rounds += 1
        designs = [{"name": "%s_r%d_%d" % (P.name, rounds, j), "source": P.source(idxs), "entity": "E"}
                   for j, (P, idxs) in enumerate(todo)]
        n_designs += len(designs)
        res = common.run_worker("compile_worker.py", {"dir": os.path.join(gdir, "src"), "designs": designs,
                                                      "jobs": common.NCPU}, timeout=3000)["results"]
        nxt = []
        for (P, idxs), r in zip(todo, res):
            if r["ok"]:
                lits = {int(a): int(b, 2) for a, b in LIT.findall(r["vhdl"])}
                for k in idxs:
                    P.probes[k].tr = ("ok", lits[k]) if k in lits else ("unparsed", r["vhdl"][-1500:])
            elif len(idxs) == 1:
                P.probes[idxs[0]].tr = ("err", r.get("error_type", "?"), r.get("error", "")[-300:])
            else:
                # some probe of the group is rejected: split (halves, then singles)
                if len(idxs) > 4 and rounds < 2:
                    h = len(idxs) // 2
                    nxt += [(P, idxs[:h]), (P, idxs[h:])]
                else:
                    nxt += [(P, [k]) for k in idxs]
        todo = nxt
    ck.count("e2e_designs_compiled", n_designs)


# ----------------------------------------------------------------------------
# (b1) end-to-end argument binding
# ----------------------------------------------------------------------------

VARIANTS = ["global", "local", "lambda", "method"]


def bind_program(name, sig: Sig, variant, calls):
    args = ", ".join(pname(p) for p in sig.varnames())
    body_expr = "digb(%s)" % args
    defs = []
    probes = []
    if variant == "global":
        defs = ["def f(%s):" % sig.params_src(), "    return " + body_expr]
        callee = "f"
    elif variant == "method":
        defs = ["class K:", "    _c10_self = True", "    def m(%s):" % sig.params_src(), "        return " + body_expr, "",
                "k_obj = K()"]
        callee = "k_obj.m"
    for c in calls:
        if variant == "local":
            body = ["def f(%s):" % sig.params_src(), "    return " + body_expr, "return f" + c.src]
        elif variant == "lambda":
            body = ["f = lambda %s: %s" % (sig.params_src(), body_expr), "return f" + c.src]
        else:
            body = ["return %s%s" % (callee, c.src)]
        probes.append(Probe(body, meta={"sig": sig, "call": c, "variant": variant}))
    return Program(name, "\n".join(defs), probes)


def uses_default(sig: Sig, c: Call):
    npos = len(c.pos) + (1 if sig.method else 0)
    kw = {k for k, _ in c.kws}
    po_ar = sig.posonly + sig.args
    for i, (p, d) in enumerate(po_ar):
        if i >= npos and p not in kw and d is not None:
            return True
    return any(p not in kw and d is not None for p, d in sig.kwonly)


def run_bind_e2e(ck, report):
    rng = ck.rng
    n_sig = 36 if ck.tier == "quick" else 300
    programs = []
    # regression corpus: the failing inputs of the defects fixed by bf02a0d / bf64bc4 / 571f6ca + upstream fn_j
    corpus = [
        (Sig([], [(0, None), (1, 71)], None, [], None), "global", [Call([], [(0, 40), (0, 41)], "(**{'p0': 40}, **{'p0': 41})"),
                                                                   Call([10], [(1, 40)], "(10, p1=40)")]),
        (Sig([], [(0, None), (1, 71)], None, [], None), "local", [Call([10], [], "(10)"), Call([10], [(1, 40)], "(10, p1=40)")]),
        (Sig([(0, 70)], [], 1, [(2, 80)], 3), "global", [Call([10, 11, 12], [(2, 13), (0, 14)], "(10, 11, 12, p2=13, p0=14)")]),
        (Sig([], [(0, None), (1, 71)], None, [], None), "lambda", [Call([10], [], "(10)"), Call([], [(0, 40), (0, 41)], "(p0=40, **{'p0': 41})")]),
        (Sig([], [], None, [(1, None), (0, 81)], 2), "local", [Call([], [(0, 40), (21, 41), (1, 42)], "(**{'p0': 40}, p21=41, **{'p1': 42})"),
                                                               Call([], [], "()")]),
        (Sig([(0, 70)], [(3, 71)], None, [(1, None)], 4), "lambda", [Call([10, 11], [(1, 40), (0, 41)], "(10, 11, p1=40, **{'p0': 41})")]),
    ]
    for i, (sig, variant, calls) in enumerate(corpus):
        sig.method = variant == "method"
        programs.append(bind_program("bc%02d" % i, sig, variant, calls))
    for i in range(n_sig):
        sig = gen_sig(rng)
        variant = "method" if sig.method else rng.choice(["global", "global", "local", "lambda"])
        calls = [gen_call(rng, sig) for _ in range(6)]
        programs.append(bind_program("b%03d" % i, sig, variant, calls))
    run_programs(ck, "bind_e2e", programs, max_rejected_per_program=2)
    flat = [(P, pr) for P in programs for pr in P.probes if pr.tr is not None]
    terms = []
    for P, pr in flat:
        sig, c = pr.meta["sig"], pr.meta["call"]
        obs = "(Some %d%%N)" % pr.tr[1] if pr.tr[0] == "ok" else "None"
        terms.append("(%s, %s, %s)" % (sig.coq(), c.coq(), obs))
    pred = ("fun '(s, c, obs) => match tracer_bind s c, obs with Some b, Some d => N.eqb (digest b) d "
            "| None, None => true | _, _ => false end")
    bad = set(common.coq_bad_indices(ck, "bind_e2e", PREAMBLE, "sig * call * option N", terms, pred)) if terms else set()
    for i, (P, pr) in enumerate(flat):
        sig, c, variant = pr.meta["sig"], pr.meta["call"], pr.meta["variant"]
        ck.evaluations += 1
        ck.hist("e2e_bind_variant", variant)
        ck.hist("e2e_bind_outcome", "%s/%s" % (pr.cpy[0], pr.tr[0]))
        rep = {"def": "def f(%s)" % sig.params_src(), "variant": variant, "call": "f" + c.src, "cpython": pr.cpy, "tracer": pr.tr,
               "program": P.source([P.probes.index(pr)]),
               "python": "save `program` as m.py; PYTHONPATH=/repo python -c \"import m; from cohdl import std; "
                         "print(m.reference()); print(std.VhdlCompiler.to_string(m.E))\""}
        if pr.tr[0] == "unparsed":
            ck.obligation(False)
            report({"class": "e2e-literal-not-found"}, "no literal for the probe port in the emitted VHDL", rep, no_input=True)
            continue
        spec_ok = True
        if pr.cpy[0] == "ok" and pr.tr[0] == "ok" and pr.cpy[1] != pr.tr[1]:
            spec_ok = False
            report({"class": "e2e-binds-differently", "variant": variant},
                   "the traced call binds its arguments differently from CPython (digest on the port differs)", rep)
        elif pr.cpy[0] != "ok" and pr.tr[0] == "ok":
            spec_ok = False
            cls = "duplicate-keyword-accepted" if c.has_dup() else "cpython-rejected-call-accepted"
            report({"class": cls, "level": "compiler"}, "the compiler accepts a call that CPython rejects (%s)" % (pr.cpy[2][:80],), rep)
        model_ok = i not in bad
        ck.obligation(model_ok and spec_ok)
        if not model_ok and spec_ok:
            report({"class": "bind-model-vs-compiler", "variant": variant},
                   "Bind.tracer_bind no longer describes what the compiler does with this call "
                   "(the result still satisfies the property)", rep, no_input=True)
        if pr.tr[0] == "ok":
            ck.nontrivial("e2e|" + sig.key() + c.src + variant)
    ck.cov["e2e_bind_probes"] = len(flat)


# ----------------------------------------------------------------------------
# (b2) operator dispatch over generated class tables, (b3) and/or/not
# ----------------------------------------------------------------------------

METH = {0: "__add__", 1: "__radd__", 2: "__sub__", 3: "__rsub__", 4: "__lt__", 5: "__gt__", 6: "__eq__"}
OPS = [("+", 0, 1, 0, False), ("-", 2, 3, 0, False), ("<", 4, 5, 1, False), (">", 5, 4, 1, False), ("==", 6, 6, 1, True)]


def gen_table(rng):
    n = rng.randint(2, 4)
    T = []
    for ci in range(n):
        parent = rng.randrange(ci) if ci > 0 and rng.random() < 0.65 else None
        meths = {}
        for m in METH:
            if rng.random() < 0.42:
                ni = [o for o in range(n) if rng.random() < 0.3]
                meths[m] = ni
        T.append((parent, meths))
    return T


def table_src(T, bits):
    lines = []
    for ci, (parent, meths) in enumerate(T):
        lines.append("class C%d%s:" % (ci, "(C%d)" % parent if parent is not None else ""))
        lines.append("    _c10_cls = %d" % ci)
        for m, ni in sorted(meths.items()):
            lines.append("    def %s(self, other):" % METH[m])
            if ni:
                lines.append("        if %s:" % " or ".join("type(other) is C%d" % o for o in ni))
                lines.append("            return NotImplemented")
            if m >= 4:
                lines.append("        return %s" % ("True" if bits[(ci, m)] else "False"))
            else:
                lines.append("        return %d" % (ci * 16 + m + 1))
        lines.append("")
    for ci in range(len(T)):
        lines.append("a%d = C%d()" % (ci, ci))
        lines.append("b%d = C%d()" % (ci, ci))
    return "\n".join(lines)


def table_coq(T):
    return "[" + "; ".join("mkC %s [%s]" % ("None" if p is None else "(Some %d%%N)" % p,
                                            "; ".join("mkM %d%%N [%s]" % (m, "; ".join("%d%%N" % o for o in ni))
                                                      for m, ni in sorted(ms.items())))
                           for p, ms in T) + "]"


DISP_PRE = PREAMBLE + """
Definition enc_bin (d : dres) : N := match d with DCall c m => (c * 16 + m + 1)%N | _ => 0%N end.
Fixpoint bit_of (bits : list (N * N * bool)) (c m : N) : bool :=
  match bits with [] => false | (c', m', b) :: r => if N.eqb c c' && N.eqb m m' then b else bit_of r c m end.
Definition enc_cmp bits (d : dres) : N :=
  match d with DCall c m => if bit_of bits c m then 1%N else 0%N | DDefault => 0%N | DReject => 2%N end.
Definition disp_case := (ctable * list (N * N * bool) * (N * N * N * N) * (bool * bool) * (N * N))%type.
Definition disp_ok (x : disp_case) : bool :=
  let '(T, bits, (l, r, op, rop), (is_cmp, is_eq), (cpy, tr)) := x in
  if is_cmp then N.eqb (enc_cmp bits (cpython_compare T l r op rop is_eq)) cpy
                 && N.eqb (enc_cmp bits (tracer_compare T l r op rop is_eq)) tr
  else N.eqb (enc_bin (cpython_binop T l r op rop)) cpy && N.eqb (enc_bin (tracer_binop T l r op rop)) tr.
Definition disp_cpy_ok (x : disp_case) : bool :=
  let '(T, bits, (l, r, op, rop), (is_cmp, is_eq), (cpy, tr)) := x in
  if is_cmp then N.eqb (enc_cmp bits (cpython_compare T l r op rop is_eq)) cpy
  else N.eqb (enc_bin (cpython_binop T l r op rop)) cpy.
"""


def _lookup(T, c, m):
    while c is not None:
        parent, meths = T[c]
        if m in meths:
            return c, meths[m]
        c = parent
    return None


def _is_sub(T, c, d):
    while c is not None:
        if c == d:
            return True
        c = T[c][0]
    return False


def predict_dispatch_reject(T, l, r, op, rop, is_cmp, is_eq):
    """python mirror of Disp.tracer_binop / tracer_compare - used ONLY to schedule probes that are expected to be
    rejected into designs of their own (a wrong prediction costs a recompilation round, nothing else)"""
    def tc(c, m, other):
        lk = _lookup(T, c, m)
        return lk is not None and other not in lk[1]
    if not is_cmp:
        if l == r:
            return not tc(l, op, r)
        return not (tc(l, op, r) or tc(r, rop, l))
    att = [(l, op, r), (r, rop, l)]
    if l != r and _is_sub(T, r, l):
        att.reverse()
    for c, m, o in att:
        lk = _lookup(T, c, m)
        if lk is None:
            if not is_eq:
                return True
        elif o not in lk[1]:
            return False
    return True


def run_dispatch_e2e(ck, report):
    rng = ck.rng
    n_tab = 10 if ck.tier == "quick" else 100
    programs = []
    fixed = [
        [(None, {0: []}), (0, {1: []})],                       # regression: subclass overrides the reflected method
        [(None, {1: []})],                                     # regression: same type, only the reflected method
        [(None, {4: []}), (0, {5: []})],                       # regression: comparison, subclass on the right
        [(None, {0: [1]}), (None, {1: []})],                   # reflected fallback
        [(None, {0: [], 1: []}), (0, {})],                     # subclass without override: no priority
    ]
    tables = fixed + [gen_table(rng) for _ in range(n_tab)]
    for ti, T in enumerate(tables):
        if ti < len(fixed):
            bits = {(ci, m): ci % 2 == 0 for ci, (_, ms) in enumerate(T) for m in ms if m >= 4}   # definers distinguishable
        else:
            bits = {(ci, m): rng.random() < 0.5 for ci, (_, ms) in enumerate(T) for m in ms if m >= 4}
        probes = []
        pairs = [(l, r) for l in range(len(T)) for r in range(len(T))]
        for l, r in pairs:
            for sym, op, rop, is_cmp, is_eq in OPS:
                if ti >= len(fixed) and rng.random() < 0.5:
                    continue
                if is_cmp:
                    body = ["return dig3(a%d %s b%d)" % (l, sym, r)]
                else:
                    body = ["return a%d %s b%d" % (l, sym, r)]
                probes.append(Probe(body, meta={"T": T, "bits": bits, "l": l, "r": r, "op": op, "rop": rop, "is_cmp": is_cmp,
                                                "is_eq": is_eq, "expr": "C%d() %s C%d()" % (l, sym, r),
                                                "expect_reject": predict_dispatch_reject(T, l, r, op, rop, is_cmp, is_eq)}))
        programs.append(Program("d%03d" % ti, table_src(T, bits), probes))
    run_programs(ck, "disp_e2e", programs, max_rejected_per_program=3)
    flat = [(P, pr) for P in programs for pr in P.probes if pr.tr is not None]

    def enc(pr, side):
        x = pr.cpy if side == "cpy" else pr.tr
        if x[0] == "ok":
            return x[1]
        return 2 if pr.meta["is_cmp"] else 0
    terms = []
    for P, pr in flat:
        m = pr.meta
        bits = "[" + "; ".join("(%d%%N, %d%%N, %s)" % (c, mm, "true" if b else "false") for (c, mm), b in sorted(m["bits"].items())) + "]"
        terms.append("(%s, %s, (%d%%N, %d%%N, %d%%N, %d%%N), (%s, %s), (%d%%N, %d%%N))" % (
            table_coq(m["T"]), bits, m["l"], m["r"], m["op"], m["rop"], "true" if m["is_cmp"] else "false",
            "true" if m["is_eq"] else "false", enc(pr, "cpy"), enc(pr, "tr")))
    bad = set(common.coq_bad_indices(ck, "disp", DISP_PRE, "disp_case", terms, "disp_ok")) if terms else set()
    bad_cpy = set(common.coq_bad_indices(ck, "disp_cpy", DISP_PRE, "disp_case", [terms[i] for i in sorted(bad)], "disp_cpy_ok")) if bad else set()
    bad_cpy = {sorted(bad)[j] for j in bad_cpy}
    for i, (P, pr) in enumerate(flat):
        m = pr.meta
        ck.evaluations += 1
        ck.hist("e2e_dispatch_outcome", "%s %s/%s" % ("cmp" if m["is_cmp"] else "bin", pr.cpy[0], pr.tr[0]))
        rep = {"expr": m["expr"], "classes": P.defs, "cpython": pr.cpy, "tracer": pr.tr, "program": P.source([P.probes.index(pr)])}
        if pr.tr[0] == "unparsed":
            ck.obligation(False)
            report({"class": "e2e-literal-not-found"}, "no literal for the probe port in the emitted VHDL", rep, no_input=True)
            continue
        spec_ok = True
        if pr.cpy[0] == "ok" and pr.tr[0] == "ok" and pr.cpy[1] != pr.tr[1]:
            spec_ok = False
            report({"class": "compare-dispatch-differs" if m["is_cmp"] else "binop-dispatch-differs"},
                   "operator dispatch of the tracer selects a different method than CPython: different constant", rep)
        elif pr.cpy[0] != "ok" and pr.tr[0] == "ok":
            # CPython raises TypeError, the tracer produces a value: C10_dispatch_agrees says this cannot happen
            # for the modelled code, so it shows up as a model mismatch below; recorded
            ck.count("dispatch_cpython_rejects_tracer_accepts")
        model_ok = i not in bad
        ck.obligation(model_ok and spec_ok)
        if not model_ok:
            which = "Disp.cpython_* (specification model) differs from CPython" if i in bad_cpy else \
                "Disp.tracer_* no longer describes the tracer's overloaded_operator / single_compare"
            if spec_ok:
                report({"class": "dispatch-model", "spec_side": i in bad_cpy}, which, rep, no_input=True)
        if pr.tr[0] == "ok":
            ck.nontrivial("disp|%s|%d|%d|%d" % (json.dumps(m["T"], sort_keys=True), m["l"], m["r"], m["op"]))
    ck.cov["e2e_dispatch_probes"] = len(flat)


BOOL_VALS = [("0", False), ("3", True), ("True", True), ("False", False), ("None", False), ("tb", True), ("fb", False), ("-1", True)]
BOOL_DEFS = """class TB:
    def __bool__(self):
        return True


class FB:
    def __bool__(self):
        return False


tb = TB()
fb = FB()
"""


def run_boolop_e2e(ck, report):
    rng = ck.rng
    n = 40 if ck.tier == "quick" else 600
    probes = []
    cases = [("and", [1, 3]), ("and", [1, 0, 2]), ("or", [0, 4, 1]), ("or", [0, 3]), ("not", [0]), ("not", [5]), ("and", [5, 6]), ("or", [6, 5])]
    for _ in range(n):
        op = rng.choice(["and", "or", "and", "or", "not"])
        k = 1 if op == "not" else rng.randint(2, 4)
        cases.append((op, [rng.randrange(len(BOOL_VALS)) for _ in range(k)]))
    seen = set()
    for op, idx in cases:
        if (op, tuple(idx)) in seen:
            continue
        seen.add((op, tuple(idx)))
        if op == "not":
            e = "not %s" % BOOL_VALS[idx[0]][0]
        else:
            e = (" %s " % op).join(BOOL_VALS[i][0] for i in idx)
        probes.append(Probe(["return dig3(%s)" % e], ["return dig3(bool(%s))" % e], meta={"op": op, "idx": idx, "expr": e}))
    programs = [Program("bo%02d" % j, BOOL_DEFS, probes[j:j + 12]) for j in range(0, len(probes), 12)]
    run_programs(ck, "bool_e2e", programs)
    flat = [(P, pr) for P in programs for pr in P.probes if pr.tr is not None]
    terms = []
    for P, pr in flat:
        m = pr.meta
        vs = ["(mkPv %d%%N %s)" % (j, "true" if BOOL_VALS[i][1] else "false") for j, i in enumerate(m["idx"])]
        obs = pr.tr[1] if pr.tr[0] == "ok" else 3
        terms.append("(%d%%N, %s, [%s], %d%%N)" % ({"and": 0, "or": 1, "not": 2}[m["op"]], vs[0], "; ".join(vs[1:]), obs))
    pred = ("fun '(op, x, r, obs) => N.eqb obs (if (match op with 0%N => tracer_and x r | 1%N => tracer_or x r "
            "| _ => tracer_not x end) then 1%N else 0%N)")
    bad = set(common.coq_bad_indices(ck, "boolop", PREAMBLE, "N * pv * list pv * N", terms, pred)) if terms else set()
    for i, (P, pr) in enumerate(flat):
        ck.evaluations += 1
        rep = {"expr": pr.meta["expr"], "cpython_truth_value": pr.cpy, "tracer": pr.tr, "program": P.source([P.probes.index(pr)])}
        spec_ok = not (pr.cpy[0] == "ok" and pr.tr[0] == "ok" and pr.cpy[1] != pr.tr[1])
        if not spec_ok:
            report({"class": "boolop-truth-value"}, "and/or/not does not yield the truth value of CPython's result", rep)
        ck.obligation(spec_ok and i not in bad)
        if spec_ok and i in bad:
            report({"class": "boolop-model"}, "BoolOp model no longer describes the tracer", rep, no_input=True)
        ck.nontrivial("bool|" + pr.meta["expr"])
        ck.hist("e2e_boolop", pr.meta["op"])
    ck.cov["e2e_boolop_probes"] = len(flat)


# ----------------------------------------------------------------------------
# (c) DIFFERENTIAL TESTING (never an obligation): grammar-generated constant programs
# ----------------------------------------------------------------------------

DIFF_DEFS = """# module globals with the names of closure variables / parameters used below: a free variable of a closure
# resolves to the enclosing function's cell, never to these (CPython's LEGB order)
n = 1000 + %(k6)d
total = 5000
f = None
g = None
start = 31


class P:
    _c10_tag = 'P'

    def __init__(self, v, w=%(k0)d):
        self.v = v
        self.w = w

    def __add__(self, o):
        if isinstance(o, P):
            return P(self.v + o.v, self.w)
        if isinstance(o, int):
            return P(self.v + o, self.w)
        return NotImplemented

    def __radd__(self, o):
        return P(o + self.v + %(k1)d, self.w)

    def __sub__(self, o):
        if isinstance(o, P):
            return P(self.v - o.v)
        return NotImplemented

    def __rsub__(self, o):
        return P(o - self.v)

    def __mul__(self, o):
        if isinstance(o, int):
            return P(self.v * o)
        return NotImplemented

    def __neg__(self):
        return P(-self.v)

    def __eq__(self, o):
        return isinstance(o, P) and self.v == o.v

    def __lt__(self, o):
        if isinstance(o, P):
            return self.v < o.v
        return NotImplemented

    def __gt__(self, o):
        if isinstance(o, P):
            return self.v > o.v
        return NotImplemented

    def __bool__(self):
        return self.v != 0

    def __call__(self, x, *, s=%(k2)d):
        return self.v * x + s

    @property
    def dbl(self):
        return self.v * 2

    def get(self, d=%(k3)d, /, *r, k=%(k4)d, **kw):
        return self.v + d + len(r) * 3 + k * 5 + len(kw) * 7

    def twice(self):
        return self.get(self.v) + self.dbl


class Q(P):
    _c10_tag = 'Q'

    def __init__(self, v, z=%(k5)d):
        super().__init__(v, z + 1)
        self.z = z

    def __radd__(self, o):
        return Q(o + self.v + %(k6)d, self.z)

    def __gt__(self, o):
        if isinstance(o, P):
            return self.v + %(k7)d > o.v
        return NotImplemented

    def get(self, d=1, /, *r, k=2, **kw):
        return super().get(d, *r, k=k, **kw) + self.z

    @property
    def dbl(self):
        return super().dbl + 1


class R:
    _c10_tag = 'R'

    def __init__(self, v):
        self.v = v

    def __radd__(self, o):
        if isinstance(o, P):
            return R(o.v + self.v)
        if isinstance(o, int):
            return R(o * 2 + self.v)
        return NotImplemented

    def __rsub__(self, o):
        if isinstance(o, int):
            return R(o - self.v)
        return NotImplemented


def gadd(a, b=%(k0)d, *r, k=%(k1)d, **kw):
    return a + b * 2 + len(r) * 3 + k * 5 + len(kw) * 7


def gpos(a, b=%(k2)d, /, c=%(k3)d, *, d=%(k4)d):
    return a + b * 3 + c * 5 + d * 7


def mk_adder(n):
    def add(x, y=%(k5)d):
        return x + y + n
    return add


def mk_scaler(n):
    return lambda x, m=2: x * m + n


def mk_counter(start):
    total = start

    def bump(d):
        nonlocal total
        total = total + d
        return total
    return bump


def compose(f, g):
    def h(x):
        return f(g(x))
    return h


def apply2(f, x):
    return f(f(x))


def first_gt(seq, k):
    for x in seq:
        if x > k:
            return x
    return -1


def count_if(seq, k):
    return len([x for x in seq if x > k])


def clamp(x, lo, hi):
    if x < lo:
        return lo
    elif x > hi:
        return hi
    else:
        return x


def classify(x):
    if x is None:
        return 5
    if isinstance(x, bool):
        return 1
    if isinstance(x, int):
        return 2
    if isinstance(x, (list, tuple)):
        return 3
    if isinstance(x, Q):
        return 7
    if isinstance(x, P):
        return 4
    if isinstance(x, dict):
        return 8
    return 6


def fact(n):
    return 1 if n <= 1 else n * fact(n - 1)


def opt_none(y=None):
    return 1 if y is None else 2


# closures created by CPython BEFORE compilation (their free variables live in real closure cells; the names
# n / f / g also exist as module globals above)
pre_adder = mk_adder(%(k1)d + 2)
pre_scaler = mk_scaler(%(k2)d + 1)
pre_comp = compose(mk_adder(%(k3)d), mk_scaler(%(k4)d))
"""


class DiffGen:
    def __init__(self, rng):
        self.rng = rng
        self.tags = []
        self.ints, self.seqs, self.objs, self.dicts, self.funcs = [], [], [], [], []
        self.nvar = 0

    def tag(self, t):
        self.tags.append(t)

    def lit(self):
        return str(self.rng.choice([0, 1, 2, 3, 4, 5, 7, 9, 12, -1, -3]))

    def nz(self):
        return str(self.rng.choice([1, 2, 3, 5, 7]))

    def call_args(self, npos_max, kwnames, allow_extra_kw):
        rng = self.rng
        parts = []
        npos = rng.randint(0, npos_max)
        i = 0
        while i < npos:
            if rng.random() < 0.25:
                n = rng.randint(0, min(2, npos - i))
                parts.append("*[" + ", ".join(self.I(0) for _ in range(n)) + "]")
                self.tag("call-star")
                i += max(n, 1) if n else 1
            else:
                parts.append(self.I(0))
                i += 1
        kws = [k for k in kwnames if rng.random() < 0.35]
        if allow_extra_kw and rng.random() < 0.3:
            kws.append("zz")
        rng.shuffle(kws)
        for k in kws:
            if rng.random() < 0.3:
                parts.append("**{'%s': %s}" % (k, self.I(0)))
                self.tag("call-dstar")
            else:
                parts.append("%s=%s" % (k, self.I(0)))
                self.tag("call-kw")
        return ", ".join(parts)

    # -- int expressions -----------------------------------------------------
    def I(self, d):
        rng = self.rng
        if d <= 0 or rng.random() < 0.22:
            if self.ints and rng.random() < 0.45:
                return rng.choice(self.ints)
            return self.lit()
        c = rng.randrange(30)
        if c < 4:
            op = rng.choice(["+", "-", "*", "&", "|", "^"])
            self.tag("int-binop")
            return "(%s %s %s)" % (self.I(d - 1), op, self.I(d - 1))
        if c == 4:
            self.tag("int-divmod")
            return "(%s %s %s)" % (self.I(d - 1), rng.choice(["//", "%"]), self.nz())
        if c == 5:
            self.tag("ifexp")
            return "(%s if %s else %s)" % (self.I(d - 1), self.B(d - 1), self.I(d - 1))
        if c == 6:
            self.tag("call-global")
            return "gadd(%s)" % self.call_args(3, ["b", "k"], True)
        if c == 7:
            self.tag("call-posonly")
            return "gpos(%s)" % self.call_args(3, ["c", "d"], False)
        if c == 8:
            self.tag("closure")
            v = rng.random()
            if v < 0.3:
                self.tag("closure-made-before-compilation")
                return rng.choice(["pre_adder(%s)", "pre_scaler(%s)", "pre_comp(%s)", "pre_adder(%s, y=2)"]) % self.I(d - 1)
            if v < 0.5:
                self.tag("closure-local-default")
                return "mk_adder(%s)(%s)" % (self.I(d - 1), self.I(d - 1))
            if v < 0.7:
                return "mk_adder(%s)(%s, %s)" % (self.I(d - 1), self.I(d - 1), self.I(0))
            return "mk_adder(%s)(%s, y=%s)" % (self.I(d - 1), self.I(d - 1), self.I(0))
        if c == 9:
            self.tag("lambda")
            v = rng.random()
            if v < 0.3:
                return "apply2(lambda x: x * %s + %s, %s)" % (self.nz(), self.lit(), self.I(d - 1))
            if v < 0.5:
                self.tag("lambda-default")
                return "(lambda a, b=3: a - b)(%s)" % self.I(d - 1)
            if v < 0.65:
                return "(lambda a, b=3: a - b)(%s, %s)" % (self.I(d - 1), self.I(0))
            if v < 0.8:
                return "(lambda *a: len(a))(%s)" % ", ".join(self.I(0) for _ in range(rng.randint(0, 3)))
            self.tag("lambda-default")
            return "mk_scaler(%s)(%s)" % (self.I(0), self.I(d - 1))
        if c == 10:
            s, n = self.S(d - 1)
            if n:
                self.tag("subscript")
                return "%s[%d]" % (s, rng.randrange(-n, n))
            self.tag("len")
            return "len(%s)" % s
        if c == 11:
            self.tag("len")
            return "len(%s)" % self.S(d - 1)[0]
        if c == 12:
            dd, keys = self.D(d - 1)
            v = rng.random()
            if v < 0.5 and keys:
                self.tag("dict-subscript")
                return "%s['%s']" % (dd, rng.choice(keys))
            if v < 0.8:
                self.tag("dict-get")
                return "%s.get('%s', %s)" % (dd, rng.choice(keys + ["q"]), self.lit())
            return "len(%s)" % dd
        if c == 13:
            o = self.O(d - 1)
            v = rng.random()
            if v < 0.3:
                self.tag("attr")
                return "%s.%s" % (o, rng.choice(["v", "w", "v"]))
            if v < 0.55:
                self.tag("property")
                return "%s.dbl" % o
            if v < 0.8:
                self.tag("method")
                return "%s.get(%s)" % (o, self.call_args(3, ["k"], True))
            self.tag("method")
            return "%s.twice()" % o
        if c == 14:
            self.tag("dunder-call")
            o = self.O(d - 1)
            return "%s(%s)" % (o, self.I(d - 1)) if rng.random() < 0.6 else "%s(%s, s=%s)" % (o, self.I(d - 1), self.I(0))
        if c == 15:
            self.tag("operator-overload")
            return "%s.v" % self.O(d)
        if c == 16:
            self.tag("for-return")
            return "first_gt(%s, %s)" % (self.S(d - 1)[0], self.I(0))
        if c == 17:
            self.tag("if-stmt")
            return "clamp(%s, %s, %s)" % (self.I(d - 1), self.lit(), self.lit())
        if c == 18:
            self.tag("isinstance")
            k = rng.randrange(5)
            x = [self.I(0), self.B(0), self.S(0)[0], self.O(0), "None"][k]
            return "classify(%s)" % x
        if c == 19:
            self.tag("builtin")
            return "%s(%s, %s)" % (rng.choice(["max", "min"]), self.I(d - 1), self.I(d - 1))
        if c == 20:
            self.tag("builtin")
            return "abs(%s)" % self.I(d - 1)
        if c == 21:
            self.tag("nonlocal")
            return "mk_counter(%s)(%s)" % (self.I(0), self.I(d - 1))
        if c == 22:
            self.tag("closure")
            return "compose(mk_adder(%s), lambda t: t * 2)(%s)" % (self.lit(), self.I(d - 1))
        if c == 23:
            self.tag("comprehension")
            return "count_if(%s, %s)" % (self.S(d - 1)[0], self.lit())
        if c == 24:
            self.tag("recursion")
            return "fact(%d)" % rng.randint(0, 5)
        if c == 25 and self.funcs:
            self.tag("local-func-call")
            f, arity = rng.choice(self.funcs)
            return "%s(%s)" % (f, ", ".join(self.I(0) for _ in range(arity)))
        if c == 26:
            self.tag("unary")
            return "(-%s)" % self.I(d - 1)
        if c == 27:
            self.tag("default-none")
            return "opt_none()" if rng.random() < 0.5 else "opt_none(%s)" % self.I(0)
        return self.lit()

    # -- bool expressions ------------------------------------------------------
    def B(self, d):
        rng = self.rng
        c = rng.randrange(12)
        if d <= 0 or c < 3:
            self.tag("compare")
            return "(%s %s %s)" % (self.I(0), rng.choice(["<", "<=", ">", ">=", "==", "!="]), self.I(0))
        if c in (3, 11):
            self.tag("chained-compare")
            return "(%s %s %s %s %s)" % (self.I(d - 1), rng.choice(["<", "<="]), self.I(d - 1), rng.choice(["<", "<=", "==", "!=", ">"]),
                                         self.I(d - 1))
        if c == 4:
            self.tag("boolop")
            return "(%s %s %s)" % (self.B(d - 1), rng.choice(["and", "or"]), self.B(d - 1))
        if c == 5:
            self.tag("boolop")
            return "(not %s)" % self.B(d - 1)
        if c == 6:
            self.tag("isinstance")
            return "isinstance(%s, %s)" % (self.O(d - 1), rng.choice(["P", "Q", "int", "(Q, R)"]))
        if c == 7:
            self.tag("isinstance")
            return "isinstance(%s, %s)" % (self.I(d - 1), rng.choice(["int", "bool", "P"]))
        if c == 8:
            self.tag("type-is")
            return "(type(%s) is %s)" % (self.O(d - 1), rng.choice(["P", "Q"]))
        if c == 9:
            self.tag("object-compare")
            return "(%s %s %s)" % (self.O(d - 1), rng.choice(["==", "<", ">"]), self.O(d - 1))
        if c == 10:
            self.tag("truthiness")
            return "(True if %s else False)" % self.O(d - 1)
        self.tag("builtin-bool")
        return "bool(%s)" % self.I(d - 1)

    # -- sequences: returns (expr, known length | None) ---------------------------
    def S(self, d):
        rng = self.rng
        if self.seqs and rng.random() < 0.3:
            return rng.choice(self.seqs)
        c = rng.randrange(12)
        if d <= 0 or c < 3:
            n = rng.randint(1, 4)
            items = ", ".join(self.I(max(d - 1, 0)) for _ in range(n))
            if rng.random() < 0.5:
                self.tag("list")
                return "[%s]" % items, n
            self.tag("tuple")
            return "(%s,)" % items, n
        if c == 3:
            self.tag("starred-literal")
            a, na = self.S(d - 1)
            x = self.I(0)
            return ("[*%s, %s]" % (a, x), na + 1 if na is not None else None)
        if c == 4:
            self.tag("starred-literal")
            a, na = self.S(d - 1)
            b, nb = self.S(d - 1)
            return ("(*%s, *%s)" % (a, b), na + nb if na is not None and nb is not None else None)
        if c == 5:
            self.tag("comprehension")
            a, na = self.S(d - 1)
            return ("[q * %s + %s for q in %s]" % (self.nz(), self.lit(), a), na)
        if c == 6:
            self.tag("comprehension-if")
            a, na = self.S(d - 1)
            k = rng.randrange(4)
            if k == 0:
                return ("[q for q in %s if q > %s]" % (a, self.lit()), None)
            if k == 1:      # several trailing if clauses: ALL of them must hold
                return ("[q for q in %s if q > %s if q %% 2 == %d if q != %s]" % (a, self.lit(), rng.randrange(2), self.lit()), None)
            if k == 2:      # nested for clauses with a condition between them
                return ("[q + r_ for q in %s if q %% 2 == %d for r_ in range(%d) if r_ != q]" % (a, rng.randrange(2), rng.randint(1, 3)), None)
            return ("[v_ for v_ in {w_: w_ * %s for w_ in %s if w_ %% 2 == %d if w_ > %s}.values()]"
                    % (self.nz(), a, rng.randrange(2), self.lit()), None)
        if c == 7:
            self.tag("range")
            n = rng.randint(1, 4)
            return ("list(range(%d))" % n, n) if rng.random() < 0.5 else ("[i * i for i in range(%d)]" % n, n)
        if c == 8:
            self.tag("zip-enumerate")
            a, na = self.S(d - 1)
            if rng.random() < 0.5:
                return ("[i * q for i, q in enumerate(%s)]" % a, na)
            b, nb = self.S(d - 1)
            n = min(na, nb) if na is not None and nb is not None else None
            return ("[a_ + b_ for a_, b_ in zip(%s, %s)]" % (a, b), n)
        if c == 9:
            self.tag("slice")
            a, na = self.S(d - 1)
            return ("%s[1:]" % a, max(na - 1, 0) if na is not None else None)
        if c == 10:
            self.tag("list-ops")
            n = rng.randint(1, 3)
            return ("([%s] * %d)" % (self.I(0), n), n)
        self.tag("list-ops")
        k1, k2 = rng.randint(1, 2), rng.randint(1, 2)
        return ("([%s] + [%s])" % (", ".join(self.I(0) for _ in range(k1)), ", ".join(self.I(0) for _ in range(k2))), k1 + k2)

    # -- dicts: (expr, keys) -----------------------------------------------------------
    def D(self, d):
        rng = self.rng
        if self.dicts and rng.random() < 0.3:
            return rng.choice(self.dicts)
        c = rng.randrange(5)
        if d <= 0 or c < 2:
            self.tag("dict")
            keys = rng.sample(["a", "b", "c"], rng.randint(1, 3))
            return "{%s}" % ", ".join("'%s': %s" % (k, self.I(0)) for k in keys), keys
        if c == 2:
            self.tag("dict-starred")
            dd, keys = self.D(d - 1)
            return "{**%s, 'e': %s}" % (dd, self.I(0)), keys + ["e"]
        if c == 3:
            self.tag("dict-comprehension")
            s_, n = self.S(0)
            keys = ["a", "b", "c", "e"][:n] if n else []
            if rng.random() < 0.5:
                return "{k_: v_ * 2 for k_, v_ in zip(('a', 'b', 'c', 'e'), %s)}" % s_, keys
            # conditions that hold for every item (the key set stays known): two trailing if clauses
            return ("{k_: v_ * 2 for k_, v_ in zip(('a', 'b', 'c', 'e'), %s) if k_ != 'z' if v_ == v_}" % s_), keys
        self.tag("dict-call")
        return "dict(a=%s, b=%s)" % (self.I(0), self.I(0)), ["a", "b"]

    # -- objects ---------------------------------------------------------------------------
    def O(self, d):
        rng = self.rng
        if self.objs and rng.random() < 0.3:
            return rng.choice(self.objs)
        c = rng.randrange(12)
        if d <= 0 or c < 4:
            self.tag("constructor")
            k = rng.randrange(4)
            return ["P(%s)" % self.I(0), "P(%s, %s)" % (self.I(0), self.I(0)), "Q(%s)" % self.I(0),
                    "Q(%s, z=%s)" % (self.I(0), self.I(0))][k]
        if c == 4:
            self.tag("op-obj-obj")
            return "(%s %s %s)" % (self.O(d - 1), rng.choice(["+", "-"]), self.O(d - 1))
        if c == 5:
            self.tag("op-obj-int")
            return "(%s %s %s)" % (self.O(d - 1), rng.choice(["+", "*"]), self.I(0))
        if c == 6:
            self.tag("op-reflected-int")
            return "(%s %s %s)" % (self.I(0), rng.choice(["+", "-"]), self.O(d - 1))
        if c == 7:
            self.tag("op-reflected-class")
            return "(%s + R(%s))" % (self.O(d - 1), self.I(0))
        if c == 8:
            self.tag("op-reflected-int")
            return "(%s %s R(%s))" % (self.I(0), rng.choice(["+", "-"]), self.I(0))
        if c == 9:
            self.tag("unary-obj")
            return "(-%s)" % self.O(d - 1)
        self.tag("constructor")
        return "Q(%s)" % self.I(d - 1)

    # -- a probe -----------------------------------------------------------------------------
    def fresh(self, p):
        self.nvar += 1
        return "%s%d" % (p, self.nvar)

    def probe(self):
        rng = self.rng
        self.ints, self.seqs, self.objs, self.dicts, self.funcs = [], [], [], [], []
        self.nvar = 0
        pre = []          # (lines, tags, names defined)
        for _ in range(rng.randint(0, 4)):
            self.tags = []
            c = rng.randrange(11)
            if c < 2:
                v = self.fresh("v")
                lines = ["%s = %s" % (v, self.I(2))]
                new = ("i", v)
            elif c == 2:
                v = self.fresh("s")
                e, n = self.S(2)
                lines = ["%s = %s" % (v, e)]
                new = ("s", (v, n))
            elif c == 3:
                v = self.fresh("o")
                lines = ["%s = %s" % (v, self.O(2))]
                new = ("o", v)
            elif c == 4:
                v = self.fresh("d")
                e, keys = self.D(1)
                lines = ["%s = %s" % (v, e)]
                new = ("d", (v, keys))
            elif c == 5:
                self.tag("tuple-unpack")
                a, b = self.fresh("v"), self.fresh("v")
                lines = ["%s, %s = %s, %s" % (a, b, self.I(1), self.I(1))]
                new = ("ii", (a, b))
            elif c == 6:
                self.tag("starred-unpack")
                a, b = self.fresh("v"), self.fresh("s")
                e, n = self.S(1)
                if n is None or n < 1:
                    e, n = "[1, 2, 3]", 3
                if rng.random() < 0.5:
                    lines = ["%s, *%s = %s" % (a, b, e)]
                    new = ("is", (a, (b, n - 1)))
                else:
                    c_ = self.fresh("v")
                    if n < 2:
                        e, n = "(4, 5, 6)", 3
                    lines = ["%s, *%s, %s = %s" % (a, b, c_, e)]
                    new = ("isi", (a, (b, n - 2), c_))
            elif c == 7:
                self.tag("nested-unpack")
                a, b, c_ = self.fresh("v"), self.fresh("v"), self.fresh("v")
                lines = ["%s, (%s, %s) = %s, (%s, %s)" % (a, b, c_, self.I(1), self.I(0), self.I(0))]
                new = ("iii", (a, b, c_))
            elif c == 8:
                self.tag("local-def")
                f = self.fresh("f")
                cap = self.I(0)
                if rng.random() < 0.5:
                    lines = ["def %s(x, y):" % f, "    return x * 2 - y + %s" % cap]
                    new = ("f", (f, 2))
                else:
                    self.tag("local-def-default")
                    lines = ["def %s(x, y=%s):" % (f, self.lit()), "    return x * 3 + y + %s" % cap]
                    new = ("f", (f, rng.choice([1, 2])))
            elif c == 9:
                self.tag("local-lambda")
                f = self.fresh("f")
                lines = ["%s = lambda x: x * %s + %s" % (f, self.nz(), self.I(0))]
                new = ("f", (f, 1))
            else:
                self.tag("early-return")
                lines = ["if %s:" % self.B(1), "    return dig(%s)" % self.I(1)]
                new = None
            names = []
            if new is not None:
                kind, x = new
                if kind == "i":
                    self.ints.append(x); names = [x]
                elif kind == "s":
                    self.seqs.append(x); names = [x[0]]
                elif kind == "o":
                    self.objs.append(x); names = [x]
                elif kind == "d":
                    self.dicts.append(x); names = [x[0]]
                elif kind == "ii":
                    self.ints += list(x); names = list(x)
                elif kind == "is":
                    self.ints.append(x[0]); self.seqs.append(x[1]); names = [x[0], x[1][0]]
                elif kind == "isi":
                    self.ints += [x[0], x[2]]; self.seqs.append(x[1]); names = [x[0], x[1][0], x[2]]
                elif kind == "iii":
                    self.ints += list(x); names = list(x)
                elif kind == "f":
                    self.funcs.append(x); names = [x[0]]
            pre.append((lines, list(self.tags), names))
        elems = []
        for _ in range(rng.randint(2, 4)):
            self.tags = []
            k = rng.random()
            if k < 0.6:
                e = self.I(3)
            elif k < 0.75:
                e = self.B(2)
            elif k < 0.87:
                e = self.S(2)[0]
            elif k < 0.94:
                e = self.O(2)
            else:
                e = self.D(2)[0]
            elems.append((e, list(self.tags)))
        return pre, elems


def diff_body(pre, elems):
    body = []
    for lines, _, _ in pre:
        body += lines
    body.append("return dig((%s,))" % ", ".join(e for e, _ in elems))
    return body


def diff_tags(pre, elems):
    t = set()
    text = " ".join(e for e, _ in elems)
    for lines, tags, names in pre:
        if not names or any(re.search(r"\b%s\b" % n, text) for n in names):
            t |= set(tags)
    for _, tags in elems:
        t |= set(tags)
    return sorted(t)


BIND_MSG = re.compile(r"got multiple values|unexpected keyword|positional argument|missing \d+ required|keyword-only|positional-only")

DIFF_CORPUS = [
    # (body, what it pins) - the first nine are the failing inputs of the defects fixed by bf02a0d, bf64bc4, d02d2a3,
    # 693e83d, 571f6ca, b791a08 (regression corpus)
    (["def h(y=None):", "    return 1 if y is None else 2", "return dig((h(),))"], "local-def default tested with `is`"),
    (["return dig(((P(1) + Q(2)).v,))"], "subclass overrides reflected method"),
    (["return dig(((P(5) + Q(9)).v, (P(0) + Q(4)), ((P(2, -3) + 5) + Q(2, z=5)).w, ((-Q(4, z=1)) + Q(5)), (12 - (P(3, 3) + Q(4))).get(-1, 1, 12)))"],
     "subclass overrides reflected method (generated)"),
    (["v1, *s2, v3 = (1, 3, 1, 3,)", "a, *b = (4, 5, 6)", "return dig((s2, b, [*b, v1], (*s2, a)))"], "starred unpack (generated)"),
    (["def f(x, y=7):", "    return x * 3 + y", "g = lambda a, b=3: a - b", "return dig((f(1), f(1, 2), g(5), mk_adder(2)(3), mk_scaler(1)(4)))"],
     "defaults of local functions and lambdas"),
    (["return dig((P(3) < Q(1), Q(1) > P(3)))"], "comparison with subclass on the right"),
    (["a, *b = (1, 2, 3)", "return dig((a, b, isinstance(b, list)))"], "starred assignment target from a tuple is a list"),
    (["return dig((len([1 for q in (*(12, 0), 5)]), [q for q in (7, *(1, 2))]))"], "starred element in a tuple display"),
    (["def g(*, k):", "    return k + 1", "return dig((g(k=2), (lambda *, k: k)(k=3)))"], "local function with required keyword-only parameter"),
    (["return dig((gadd(1, **{'b': 2}, **{'b': 3}),))"], "repeated keyword"),
    (["return dig((gadd(1, 2, 3, 4, k=5, zz=6), gpos(1, 2, d=4), P(2).get(1, 2, 3, k=4, q=5), Q(2).get(k=1)))"], "call shapes"),
    (["a, *b, c = [1, 2, 3, 4]", "return dig((a, b, c, [*b, a], (*b, *b)))"], "starred"),
    (["return dig((mk_counter(3)(4), mk_adder(1)(2, 3), apply2(lambda x: x * 3 + 1, 2), compose(mk_adder(1), lambda t: t * 2)(5)))"], "closures"),
    (["return dig((pre_adder(1), pre_adder(2, y=5), pre_scaler(3), pre_scaler(3, m=4), pre_comp(6), n, total))"],
     "closures made before compilation; their free variables shadow module globals of the same name"),
    (["return dig((1 < 3 > 2, 2 >= 2 > 1 > 0, 0 < 5 < 3, 1 < 2 <= 2, 1 < 2 > 3, 4 > 1 < 3 != 3, 3 if 1 > 2 else 4))"], "chained comparisons / if-expression"),
    (["return dig((clamp(9, 0, 5), clamp(-2, 0, 5), classify(Q(1)), classify(P(1)), classify(True), classify(3), classify(None), classify([1]), fact(4)))"],
     "constant if / isinstance / recursion"),
    (["return dig((first_gt([1, 5, 9], 4), first_gt((1, 2), 4), count_if([1, 5, 9], 4)))"], "constant for with early return"),
    (["return dig(({k_: v_ * 2 for k_, v_ in zip(('a', 'b'), [1, 2])}, [q * q for q in range(4) if q != 2], {**{'a': 1}, 'e': 2}))"],
     "comprehensions"),
    (["return dig(({v_: v_ * v_ for v_ in (1, 2, 3, 4, 5, 6) if v_ % 2 == 0 if v_ > 2}, [q for q in range(9) if q % 2 == 1 if q > 2 if q < 8], "
      "[a_ * b_ for a_ in range(3) if a_ != 1 for b_ in range(3) if b_ > a_], {k_: [j for j in range(k_) if j if j != 2] for k_ in (3, 4) if k_}))"],
     "comprehensions with several if clauses / nested for clauses"),
    (["return dig((Q(2).dbl, P(2).dbl, Q(2)(3), P(2)(3, s=1), Q(1, z=5).w, (2 + P(1)).v, (5 - P(1)).v, (P(1) + R(2)).v, (-P(3)).v, Q(2).twice()))"],
     "classes / properties / __call__ / reflected operators"),
]


def run_diff(ck, report):
    rng = ck.rng
    n_prog = 24 if ck.tier == "quick" else 250
    per = 5
    programs = []
    ks = {"k%d" % j: 1 + j for j in range(8)}
    programs.append(Program("dc00", DIFF_DEFS % ks, [Probe(b, meta={"tags": ["corpus: " + w], "what": w, "pre": None, "elems": None})
                                                     for b, w in DIFF_CORPUS]))
    for i in range(n_prog):
        g = DiffGen(rng)
        ks = {"k%d" % j: rng.randint(0, 9) for j in range(8)}
        probes = []
        for _ in range(per):
            pre, elems = g.probe()
            probes.append(Probe(diff_body(pre, elems), meta={"tags": diff_tags(pre, elems), "pre": pre, "elems": elems}))
        programs.append(Program("df%03d" % i, DIFF_DEFS % ks, probes))
    run_programs(ck, "diff", programs, max_rejected_per_program=per)
    # reduction round: failing probes -> one element at a time
    failing = [(P, pr) for P in programs for pr in P.probes
               if pr.tr is not None and pr.cpy[0] == "ok" and pr.tr[0] == "ok" and pr.cpy[1] != pr.tr[1] and pr.meta["elems"]]
    red_programs = []
    for j, (P, pr) in enumerate(failing[:40]):
        probes = [Probe(diff_body(pr.meta["pre"], [el]), meta={"tags": diff_tags(pr.meta["pre"], [el]), "parent": pr})
                  for el in pr.meta["elems"]]
        red_programs.append(Program("dr%03d" % j, P.defs, probes))
    if red_programs:
        run_programs(ck, "diff_red", red_programs, max_rejected_per_program=0)
    reduced = {}
    for RP in red_programs:
        for rp in RP.probes:
            if rp.tr is not None and rp.cpy[0] == "ok" and rp.tr[0] == "ok" and rp.cpy[1] != rp.tr[1]:
                reduced.setdefault(id(rp.meta["parent"]), []).append((RP, rp))
    n = {"same": 0, "tracer_rejects": 0, "both_reject": 0, "differs": 0, "cpython_rejects_tracer_accepts": 0, "not_compiled": 0}
    for P in programs:
        for pr in P.probes:
            ck.count("differential_programs")
            for t in pr.meta["tags"]:
                ck.hist("differential_constructs", t)
            if pr.tr is None:
                n["not_compiled"] += 1
                continue
            if pr.tr[0] == "unparsed":
                report({"class": "e2e-literal-not-found"}, "no literal for the probe port in the emitted VHDL",
                       {"program": P.source([P.probes.index(pr)])}, no_input=True)
                continue
            ck.evaluations += 1
            if pr.cpy[0] == "ok" and pr.tr[0] == "ok":
                if pr.cpy[1] == pr.tr[1]:
                    n["same"] += 1
                    ck.nontrivial("diff|" + "\n".join(pr.body))
                else:
                    n["differs"] += 1
                    cands = reduced.get(id(pr)) or [(P, pr)]
                    for RP, rp in cands:
                        tags = rp.meta["tags"]
                        report({"class": "differential", "constructs": tags},
                               "DIFFERENTIAL: constant program evaluates to a different value under the tracer than under CPython",
                               {"body": rp.body, "constructs": tags, "cpython_digest": rp.cpy, "tracer_digest": rp.tr,
                                "program": RP.source([RP.probes.index(rp)]),
                                "python": "save `program` as m.py; PYTHONPATH=/repo python -c \"import m; from cohdl import std; "
                                          "print(m.reference()); print(std.VhdlCompiler.to_string(m.E))\""})
            elif pr.cpy[0] == "ok":
                n["tracer_rejects"] += 1
                ck.hist("differential_tracer_rejections", re.sub(r"0x[0-9a-f]+|\d+", "N", pr.tr[2])[-70:])
            elif pr.tr[0] == "ok":
                n["cpython_rejects_tracer_accepts"] += 1
                if pr.cpy[1] == "TypeError" and BIND_MSG.search(pr.cpy[2]):
                    report({"class": "cpython-rejected-call-accepted", "level": "differential"},
                           "DIFFERENTIAL: the compiler accepts a call that CPython rejects for argument-binding reasons (%s)" % pr.cpy[2][:90],
                           {"body": pr.body, "cpython": pr.cpy, "tracer": pr.tr, "program": P.source([P.probes.index(pr)])})
            else:
                n["both_reject"] += 1
    ck.cov["differential"] = {"note": "differential testing only - none of these runs is counted as an obligation",
                              "programs": sum(n.values()), **n}


# ----------------------------------------------------------------------------
# the check
# ----------------------------------------------------------------------------

def run(ck: common.Check, replay=None):
    if not build_models(ck):
        return
    ck.check_props("C10_Properties.v")
    ck.trusted += [
        "CPython 3.12 as the reference for itself (actual calls, inspect.signature.bind, running the generated programs)",
        "generator -> Python source printers and the VHDL literal extraction (harness/c10.py)",
    ]
    for f in os.listdir(ck.replay_dir):          # replays of earlier runs of this check are stale
        if re.fullmatch(r"v\d+\.json", f) and replay is None:
            os.unlink(os.path.join(ck.replay_dir, f))
    report = Reporter(ck)
    ck.assumptions += [
        "argument binding: parameter names pairwise distinct (Python grammar); values are abstract (N); a call is its flattened "
        "positional list + keyword list (`*`/`**` expansion itself - iteration of the starred operand - is not modelled)",
        "operator dispatch: single inheritance class tables, methods answer NotImplemented depending on the exact class of the other "
        "operand; `!=`, `<=`/`>=`, in-place and unary operators are not modelled (differential only)",
        "no Gallina semantics of closures/nonlocal/classes/super()/properties/comprehensions/unpacking/subscripts/isinstance: "
        "these clauses of C10 are covered by differential testing only (coverage.differential), never counted as obligations",
        "modelled over-rejection of the tracer (not a violation of C10): a class that inherits an ordering method from object is "
        "rejected in comparisons; == of objects without __eq__ is rejected where CPython compares identities",
    ]
    if replay is not None and replay.get("sig") is not None:
        run_bind(ck, report, replay)
        return
    if replay is not None and replay.get("program") is not None:
        # re-run one generated program: CPython reference vs the real compiler
        src = replay["program"]
        rr = common.run_worker("c10_worker.py", {"mode": "pyref", "dir": os.path.join(ck.gen, "replay"),
                                                 "programs": [{"name": "replay_prog", "source": src}], "jobs": 1})["results"][0]
        cr = common.run_worker("compile_worker.py", {"dir": os.path.join(ck.gen, "replay"), "jobs": 1,
                                                     "designs": [{"name": "replay_design", "source": src, "entity": "E"}]})["results"][0]
        tr = sorted((int(a), int(b, 2)) for a, b in LIT.findall(cr["vhdl"])) if cr["ok"] else ("rejected", cr.get("error_type"), cr.get("error"))
        print("replay: CPython reference() =", rr.get("values", rr.get("error")), " compiler ports =", tr)
        cp = [v[1] if v[0] == "ok" else None for v in rr.get("values", [])] if rr.get("ok") else None
        same = cr["ok"] and cp is not None and [v for _, v in tr] == cp
        ck.evaluations += 1
        ck.obligation(bool(same) or not cr["ok"])
        if cr["ok"] and not same:
            ck.violation(replay.get("key", {"class": "replay"}), "replayed program still evaluates differently", dict(replay))
        return
    import time
    for name, fn in (("bind", run_bind), ("bind_e2e", run_bind_e2e), ("dispatch_e2e", run_dispatch_e2e),
                     ("boolop_e2e", run_boolop_e2e), ("differential", run_diff)):
        if os.environ.get("C10_PHASES") and name not in os.environ["C10_PHASES"].split(","):
            continue                       # development aid: C10_PHASES=bind,bind_e2e ./check C10
        t0 = time.time()
        fn(ck, report)
        ck.cov.setdefault("phase_wall_s", {})[name] = round(time.time() - t0, 1)
    ck.cov["rule"] = ("bind cases: corpus (upstream test_call shapes + every TypeError class) + seeded random signatures x calls; "
                      "non-trivial = at least one argument, distinct by (signature, number of positionals, keyword names)")
