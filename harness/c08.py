"""C08 - Intermediate values are written before read within every activation.

(a) model tie: synthetic IR trees (real ir.* classes, real Temporary objects; c08_worker.py) through the REAL
    ConvertInstance.detect_uninitialized_temporaries / StatemachineContext._check_temporaries /
    cleanup_unused + cleanup_bool_cast, compared inside Coq with Models/Temps.v
    (search_invalid, check_states, cleanup = the current tree; C08_MODEL=coded compares with the pre-fix model, development only);
    the SPEC (def_before_use over all paths) is evaluated on every accepted tree as well.
(b) source programs over the construct x placement grid through the whole compiler: real verdict vs an
    independent definite-assignment judgement on the generator's description, and for every accepted design
    `def_assign T body = true` (Vhdl/DefAssign.v, proved sound against Vhdl.Sem) evaluated in Coq on every
    emitted process; a failing process is diagnosed with the path (branch choices) that reads the temporary.
"""
from __future__ import annotations
import itertools
import os
import re

import common
import explore as X
import vhdl_reader as R

MODEL = os.environ.get("C08_MODEL", "current")     # "coded" = the model of the tree before a252909 / 1da1fb5 (development only)
FX = "false" if MODEL == "coded" else "true"

PRE_A = ("From Coq Require Import NArith PArith List Bool.\nImport ListNotations.\n"
         "From Cohdl Require Import Models.Temps.\n")
PRE_B = common.COQ_HEADER + "From Cohdl Require Import Vhdl.DefAssign Vhdl.DefAssignTyped.\n"

SHAPES_DEF = ("Fixpoint shapes_of (l : list (positive * ty)) (x : positive) : option shp :=\n"
              "  match l with [] => None | (i, t) :: r => if Pos.eqb i x then shape_of_ty t else shapes_of r x end.\n")

# ---------------------------------------------------------------------------------------------
# (a) synthetic IR trees
# ---------------------------------------------------------------------------------------------


def c_obj(o):
    return "OOther" if o == 0 else f"(OTemp {o}%positive)"


def c_objs(l):
    return "[" + "; ".join(c_obj(o) for o in l) + "]"


def c_block(b):
    res = "BNil"
    for s in reversed(b):
        res = f"(BCons {c_stmt(s)} {res})"
    return res


def c_stmt(s):
    k = s[0]
    if k == "expr":
        return f"(SExpr {'true' if s[1] else 'false'} {c_objs(s[2])} {c_obj(s[3])})"
    if k == "var":
        return f"(SVarAssign {c_obj(s[1])} {c_objs(s[2])})"
    if k == "other":
        return f"(SOther {c_objs(s[1])})"
    if k == "if":
        return f"(SIf {c_obj(s[1])} {c_block(s[2])} {c_block(s[3])})"
    if k == "block":
        return f"(SBlock {c_block(s[1])})"
    if k == "case":
        brs = "BrNil"
        for c, b in reversed(s[2]):
            brs = f"(BrCons {c_obj(c)} {c_block(b)} {brs})"
        return f"(SCase {c_obj(s[1])} {brs} {'false' if s[3] is None else 'true'} {c_block(s[3] or [])})"
    raise AssertionError(s)


def c_plist(l):
    return "[" + "; ".join(f"{x}%positive" for x in l) + "]"


def D(kind, r=1):
    return ["expr", False, [0], r] if kind == "expr" else ["var", r, [0]]


def U(r=1):
    return ["other", [r]]


def grid_trees():
    """construct x placement grid; yields (meta, mu, tree)"""
    out = []

    def add(meta, tree, mu=()):
        out.append((meta, list(mu), tree))

    for dk in ("expr", "var"):
        d = D(dk)
        # ---- if
        places = {
            "body": ([d], []), "else": ([], [d]), "both": ([d], [D(dk)]),
            "nested_both": ([["if", 0, [d], [D(dk)]]], [D(dk)]),
            "nested_one": ([["if", 0, [d], []]], [D(dk)]),
            "block_both": ([["block", [d]]], [["block", [["block", [D(dk)]]]]]),
            "block_body": ([["block", [d]]], []),
            "block_else": ([], [["block", [["block", [d]]]]]),
        }
        for pn, (body, orelse) in places.items():
            for use in ("before", "in_body", "in_else", "after", "none"):
                b2, e2 = list(body), list(orelse)
                pre, post = [], []
                if use == "before":
                    pre = [U()]
                elif use == "in_body":
                    b2 = b2 + [U()]
                elif use == "in_else":
                    e2 = e2 + [U()]
                elif use == "after":
                    post = [U()]
                tree = pre + [["if", 0, b2, e2]] + post
                add({"c": "if", "def": pn, "use": use, "dk": dk}, tree)
                if use == "after":
                    add({"c": "if", "def": pn, "use": use, "dk": dk, "mu": 1}, tree, mu=[1])
                    add({"c": "if", "def": pn, "use": "after_redef", "dk": dk}, pre + [["if", 0, b2, e2], D(dk), U()])
        # ---- case
        for n in range(0, 4):
            for hasdef in (False, True):
                for K in itertools.chain.from_iterable(itertools.combinations(range(n), k) for k in range(n + 1)):
                    for dd in ((False, True) if hasdef else (False,)):
                        uses = ["before", "after", "none"] + [f"in_b{j}" for j in range(min(n, 2))] + (["in_default"] if hasdef else [])
                        for use in uses:
                            brs = [[0, ([D(dk)] if j in K else [])] for j in range(n)]
                            default = ([D(dk)] if dd else []) if hasdef else None
                            pre, post = [], []
                            if use == "before":
                                pre = [U()]
                            elif use == "after":
                                post = [U()]
                            elif use.startswith("in_b"):
                                brs[int(use[4:])][1] = brs[int(use[4:])][1] + [U()]
                            elif use == "in_default":
                                default = default + [U()]
                            tree = pre + [["case", 0, brs, default]] + post
                            meta = {"c": "case", "n": n, "default": hasdef, "def_in": list(K), "def_default": dd, "use": use, "dk": dk}
                            add(meta, tree)
                            if use == "after" and dk == "expr":
                                add(dict(meta, mu=1), tree, mu=[1])
        # ---- nested mixes
        inner_case = ["case", 0, [[0, [d]], [0, []]], []]
        inner_case_all = ["case", 0, [[0, [d]], [0, [D(dk)]]], [D(dk)]]
        for nm, inner in (("case_first", inner_case), ("case_all", inner_case_all)):
            add({"c": "if>case", "def": nm, "use": "after", "dk": dk}, [["if", 0, [inner], [D(dk)]], U()])
            add({"c": "if>case", "def": nm, "use": "mid", "dk": dk}, [["if", 0, [inner, U()], [D(dk)]]])
            add({"c": "case>case", "def": nm, "use": "after", "dk": dk},
                [["case", 0, [[0, [inner]], [0, [D(dk)]]], [D(dk)]], U()])
            add({"c": "block>case", "def": nm, "use": "after", "dk": dk}, [["block", [inner]], U()])
        add({"c": "case>if", "def": "both", "use": "after", "dk": dk},
            [["case", 0, [[0, [["if", 0, [d], [D(dk)]]]], [0, [D(dk)]]], [D(dk)]], U()])
        add({"c": "case>if", "def": "one", "use": "after", "dk": dk},
            [["case", 0, [[0, [["if", 0, [d], []]]], [0, [D(dk)]]], [D(dk)]], U()])
        # two temporaries, different branches
        add({"c": "case", "def": "t1:b0,t2:b1", "use": "after_t1", "dk": dk},
            [["case", 0, [[0, [D(dk, 1)]], [0, [D(dk, 2)]]], None], U(1)])
        add({"c": "case", "def": "t1:b0,t2:b1", "use": "after_t2", "dk": dk},
            [["case", 0, [[0, [D(dk, 1)]], [0, [D(dk, 2)]]], None], U(2)])
        # state machine shape: case without default, use in another state
        add({"c": "states-as-case", "def": "state0", "use": "state1", "dk": dk},
            [["case", 0, [[0, [D(dk)]], [0, [U()]]], None]])
        add({"c": "states-as-case", "def": "state1", "use": "state0", "dk": dk},
            [["case", 0, [[0, [U()]], [0, [D(dk)]]], None]])
    # reads in tests / case values / conditions
    add({"c": "if", "def": "body", "use": "test_of_next_if"}, [["if", 0, [D("expr")], []], ["if", 1, [], []]])
    add({"c": "case", "def": "first", "use": "value_of_next_case"},
        [["case", 0, [[0, [D("expr")]], [0, []]], []], ["case", 1, [[0, []]], None]])
    add({"c": "case", "def": "first", "use": "cond_of_next_case"},
        [["case", 0, [[0, [D("expr")]], [0, []]], []], ["case", 0, [[1, []]], None]])
    add({"c": "seq", "def": "top", "use": "after"}, [D("expr"), U()])
    add({"c": "seq", "def": "none", "use": "only"}, [U()])
    add({"c": "seq", "def": "after", "use": "before"}, [U(), D("expr")])
    return out


def rand_tree(rng, temps=(1, 2, 3), depth=3, casts=False):
    def robj():
        return rng.choice(temps) if rng.random() < 0.5 else 0

    def leaf():
        r = rng.random()
        if r < 0.35:
            t = rng.choice(temps)
            if casts and rng.random() < 0.5:
                src = rng.choice([x for x in temps if x != t])
                return ["expr", True, [src], t]
            return ["expr", False, [robj() for _ in range(rng.randint(0, 2))], t]
        if r < 0.5:
            t = rng.choice(temps)
            return ["var", t, [x for x in [robj() for _ in range(rng.randint(1, 2))] if x != t] or [0]]
        if r < 0.85:
            return ["other", [robj() for _ in range(rng.randint(0, 2))]]
        return ["expr", False, [robj()], 0]

    def block(dep, maxlen=3):
        return [stmt(dep) for _ in range(rng.randint(0, maxlen))]

    def stmt(dep):
        if dep <= 0 or rng.random() < 0.45:
            return leaf()
        r = rng.random()
        if r < 0.4:
            return ["if", robj() if rng.random() < 0.2 else 0, block(dep - 1), block(dep - 1)]
        if r < 0.5:
            return ["block", block(dep - 1)]
        # a CaseWhen without branches: fine on the current tree; the pre-fix code read the function-scope variable
        # `branch_temporaries` left by an EARLIER CaseWhen of the same block there, which the coded model does not have
        n = rng.randint(0, 3) if (MODEL != "coded" and rng.random() < 0.15) else rng.randint(1, 3)
        return ["case", 0, [[0, block(dep - 1, 2)] for _ in range(n)], block(dep - 1, 2) if rng.random() < 0.5 else None]

    return block(depth)


def n_paths(b):
    """number of execution paths (bounds the cost of evaluating the spec)"""
    n = 1
    for s in b:
        if s[0] == "if":
            n *= n_paths(s[2]) + n_paths(s[3])
        elif s[0] == "block":
            n *= n_paths(s[1])
        elif s[0] == "case":
            n *= sum(n_paths(x) for _, x in s[2]) + (n_paths(s[3]) if s[3] is not None else 1)
    return n


VERD = {"accept": "Accept", "invalid": "RejInvalid", "unwritten": "RejUnwritten"}


def verd(r):
    return VERD.get(r, "Crash")


def par(*fns):
    """run independent Coq evaluations concurrently"""
    from concurrent.futures import ThreadPoolExecutor
    with ThreadPoolExecutor(len(fns)) as ex:
        futs = [ex.submit(f) for f in fns]
        return [f.result() for f in futs]


def part_a(ck):
    rng = ck.rng
    quick = ck.tier == "quick"
    # ---- search
    cases = []
    for meta, mu, tree in grid_trees():
        cases.append((meta, mu, tree))
    nrand = 300 if quick else 4000
    for i in range(nrand):
        t = rand_tree(rng, depth=rng.choice([2, 3, 3]))
        if n_paths(t) > 400:
            continue
        mu = [rng.choice([1, 2, 3])] if rng.random() < 0.15 else []
        cases.append(({"c": "random", "i": i}, mu, t))
    res = common.run_worker("c08_worker.py", {"cases": [{"op": "search", "mu": mu, "tree": t} for _, mu, t in cases]})["results"]
    terms = [f"({c_plist(mu)}, {c_block(t)}, {verd(r)})" for (_, mu, t), r in zip(cases, res)]
    ctype = "list positive * block * verdict"
    # the SPEC on the real verdicts: an accepted (well-formed) tree has definition before use on every path
    bad_model, bad_spec = [set(x) for x in par(
        lambda: common.coq_bad_indices(
            ck, "a_search", PRE_A, ctype, terms,
            f"fun c => verdict_eqb (search_invalid_gen {FX} (fst (fst c)) (snd (fst c))) (snd c)"),
        lambda: common.coq_bad_indices(
            ck, "a_spec", PRE_A, ctype, terms,
            "fun c => negb (verdict_eqb (snd c) Accept) || negb (wf_block (snd (fst c))) || def_before_use_b (fst (fst c)) (snd (fst c))"))]
    groups = {}
    for i, ((meta, mu, tree), r) in enumerate(zip(cases, res)):
        ck.evaluations += 1
        ok = i not in bad_model and i not in bad_spec
        ck.obligation(ok)
        ck.hist("a_search_real_verdicts", r)
        ck.hist("a_search_constructs", meta["c"])
        if meta["c"] != "random" or r != "unwritten":
            ck.nontrivial(("a", repr(tree), repr(mu)))
        if i < 2:
            ck.sample({"part": "a/search", "meta": meta, "mu": mu, "tree": tree, "real": r})
        if i in bad_spec:
            key = {"part": "ir-check", "construct": first_case_kind(tree), "defect": "accepts a read of a temporary not assigned on every path"}
            groups.setdefault(repr(sorted(key.items())), (key, []))[1].append((len(repr(tree)), i))
        elif i in bad_model:
            key = {"part": "ir-check", "model": MODEL, "correspondence": "search_invalid"}
            groups.setdefault(repr(sorted(key.items())), (key, []))[1].append((len(repr(tree)), i))
    for _, (key, lst) in sorted(groups.items()):
        lst.sort()
        i = lst[0][1]
        meta, mu, tree = cases[i]
        rep = {"tree": tree, "mu": mu, "meta": meta, "real_verdict": res[i], "model": MODEL,
               "coq_term": c_block(tree), "other_failing": len(lst) - 1,
               "how": "echo '{\"cases\":[{\"op\":\"search\",\"mu\":%s,\"tree\":%s}]}' | PYTHONPATH=%s /venv/bin/python /verif/harness/c08_worker.py"
                      % (json_s(mu), json_s(tree), common.REPO)}
        if "defect" in key:
            ck.violation(key, "detect_uninitialized_temporaries accepts IR in which a path reads a temporary before any write "
                              "(spec def_before_use false); smallest of %d such trees" % len(lst), rep)
        else:
            ck.violation(key, "real verdict differs from Models/Temps.v (%s) while no accepted tree violates the spec; "
                              "smallest of %d" % (MODEL, len(lst)), rep, no_input=True)
    ck.cov["a_search_cases"] = len(cases)

    # ---- _check_temporaries
    scases = []
    pool = [t for _, _, t in grid_trees()[::7]]
    for i in range(80 if quick else 1500):
        k = rng.randint(1, 3)
        sts = [rng.choice(pool) if rng.random() < 0.3 else rand_tree(rng, depth=2) for _ in range(k)]
        scases.append(sts)
    scases += [[[D("expr"), U()]], [[D("expr")], [U()]], [[U()], [D("expr")]], [[["if", 0, [D("expr")], [U()]]]],
               [[D("expr"), U()], [D("expr", 2), U(2)]], [[["case", 1, [[0, [D("expr")]]], None]]]]
    sres = common.run_worker("c08_worker.py", {"cases": [{"op": "states", "states": s} for s in scases]})["results"]
    sterms = []
    for s, r in zip(scases, sres):
        rb = "true" if r is True else "false"
        sterms.append("([" + "; ".join(c_block(b) for b in s) + f"], {rb})")
    sbad = set(common.coq_bad_indices(ck, "a_states", PRE_A, "list block * bool", sterms,
                                      "fun c => Bool.eqb (check_states (fst c)) (snd c)"))
    sgroups = {}
    for i, (s, r) in enumerate(zip(scases, sres)):
        ck.evaluations += 1
        spec_ok = True
        if r is True:   # spec: every temporary read in a state is written in that state
            for b in s:
                rd, wrt = set(), set()
                collect_rw(b, rd, wrt)
                if not rd <= wrt:
                    spec_ok = False
        crash = isinstance(r, str)
        ok = i not in sbad and spec_ok and not crash
        ck.obligation(ok)
        ck.hist("a_states_real", r)
        ck.nontrivial(("s", repr(s)))
        if not ok:
            kind = "spec" if not spec_ok else "model"
            sgroups.setdefault(kind, []).append((len(repr(s)), i))
    for kind, lst in sorted(sgroups.items()):
        lst.sort()
        i = lst[0][1]
        rep = {"states": scases[i], "real": sres[i], "other_failing": len(lst) - 1}
        if kind == "spec":
            ck.violation({"part": "states", "defect": "temporary of another state accepted"},
                         "_check_temporaries accepts a state that reads a temporary it never writes (smallest of %d)" % len(lst), rep)
        else:
            ck.violation({"part": "states", "correspondence": "check_states"},
                         "real _check_temporaries differs from Temps.check_states (smallest of %d)" % len(lst), rep, no_input=True)
    ck.cov["a_states_cases"] = len(scases)

    # ---- cleanup
    ccases = [[D("expr"), ["expr", True, [1], 2], U(2)],
              [D("expr"), ["expr", True, [1], 2], ["expr", True, [2], 3], U(3)],
              [D("expr"), ["expr", True, [1], 2], ["expr", True, [2], 3], ["expr", True, [3], 1], U(1)],
              [D("expr"), D("expr", 2), U(2)],
              [D("var"), ["if", 0, [D("expr", 2)], [D("var", 3), U(3)]]],
              [["expr", False, [0], 1], ["expr", False, [1], 2], ["expr", False, [2], 3]]]
    for i in range(150 if quick else 3000):
        t = rand_tree(rng, depth=rng.choice([1, 2, 3]), casts=True)
        if n_paths(t) <= 400:
            ccases.append(t)
    cres = common.run_worker("c08_worker.py", {"cases": [{"op": "cleanup", "tree": t} for t in ccases]})["results"]
    cterms = []
    for t, r in zip(ccases, cres):
        if isinstance(r, str):
            r = [["R", 999999]]
        exp = "[" + "; ".join(("AR" if a == "R" else "AW") + f" (OTemp {x}%positive)" for a, x in r) + "]"
        cterms.append(f"({c_block(t)}, {exp})")
    cfun = "cleanup_coded" if MODEL == "coded" else "cleanup"
    # spec on the real result: if the input has a write before every read on every path, then after the real
    # cleanup every temporary that is still read is still written (cleanup removed no needed write)
    # side / thm: how many inputs satisfy the side conditions of C08_cleanup_preserves (and def_before_use): for
    # those the theorem applies, and its conclusion is re-checked on the model's output
    HYP = "def_before_use_b [] (fst c) && bc_consistent (cleanup_unused (fst c))"
    cbad, cspec, cside, cthm = [set(x) for x in par(
        lambda: common.coq_bad_indices(ck, "a_cleanup", PRE_A, "block * list acc", cterms,
                                       f"fun c => accs_eqb (temp_lin ({cfun} (fst c))) (snd c)"),
        lambda: common.coq_bad_indices(ck, "a_cleanup_spec", PRE_A, "block * list acc", cterms,
                                       "fun c => negb (def_before_use_b [] (fst c)) || covered (snd c)"),
        lambda: common.coq_bad_indices(ck, "a_cleanup_side", PRE_A, "block * list acc", cterms, "fun c => " + HYP),
        lambda: common.coq_bad_indices(ck, "a_cleanup_thm", PRE_A, "block * list acc", cterms,
                                       f"fun c => negb ({HYP}) || def_before_use_b [] (cleanup (fst c))"))]
    ck.cov["a_cleanup_inputs_meeting_theorem_hypotheses"] = len(ccases) - len(cside)
    ck.obligation(not cthm)
    if cthm:
        ck.violation({"part": "cleanup", "theorem": "C08_cleanup_preserves"}, "an instance contradicts the proved theorem (harness/printing error?)",
                     {"tree": ccases[sorted(cthm)[0]]}, no_input=True)
    cgroups = {}
    for i, (t, r) in enumerate(zip(ccases, cres)):
        ck.evaluations += 1
        spec_ok = i not in cspec
        ok = i not in cbad and spec_ok and not isinstance(r, str)
        ck.obligation(ok)
        ck.nontrivial(("c", repr(t)))
        ck.hist("a_cleanup_casts", sum(1 for s in flat_stmts(t) if s[0] == "expr" and s[1]))
        if not ok:
            if not spec_ok:
                key = {"part": "cleanup", "pass": "cleanup_bool_cast", "defect": "a remaining read lost its only write (chained bool casts)"}
            else:
                key = {"part": "cleanup", "model": MODEL, "correspondence": "cleanup"}
            cgroups.setdefault(repr(sorted(key.items())), (key, []))[1].append((len(repr(t)), i))
    for _, (key, lst) in sorted(cgroups.items()):
        lst.sort()
        i = lst[0][1]
        rep = {"tree": ccases[i], "real_accesses_after_cleanup": cres[i], "model": MODEL, "other_failing": len(lst) - 1}
        if "defect" in key:
            ck.violation(key, "after cleanup_unused + cleanup_bool_cast a temporary is read that is no longer written anywhere; "
                              "smallest of %d trees" % len(lst), rep)
        else:
            ck.violation(key, "real cleanup differs from Models/Temps.v (%s); smallest of %d" % (MODEL, len(lst)), rep, no_input=True)
    ck.cov["a_cleanup_cases"] = len(ccases)


def json_s(x):
    import json
    return json.dumps(x).replace("null", "null")


def first_case_kind(tree):
    kinds = sorted({s[0] for s in flat_stmts(tree) if s[0] in ("if", "case", "block")})
    return "+".join(kinds) or "seq"


def flat_stmts(b):
    for s in b:
        yield s
        if s[0] == "if":
            yield from flat_stmts(s[2])
            yield from flat_stmts(s[3])
        elif s[0] == "block":
            yield from flat_stmts(s[1])
        elif s[0] == "case":
            for _, x in s[2]:
                yield from flat_stmts(x)
            if s[3] is not None:
                yield from flat_stmts(s[3])


def collect_rw(b, rd, wrt):
    for s in flat_stmts(b):
        k = s[0]
        if k == "expr":
            rd.update(x for x in s[2] if x)
            if s[3]:
                wrt.add(s[3])
        elif k == "var":
            rd.update(x for x in s[2] if x)
            if s[1]:
                wrt.add(s[1])
        elif k == "other":
            rd.update(x for x in s[1] if x)
        elif k == "if":
            if s[1]:
                rd.add(s[1])
        elif k == "case":
            if s[1]:
                rd.add(s[1])
            rd.update(c for c, _ in s[2] if c)


# ---------------------------------------------------------------------------------------------
# (b) source programs
# ---------------------------------------------------------------------------------------------

SRC = """import cohdl
from cohdl import std, Port, Bit, BitVector, Signal, Temporary, Variable, Unsigned, vhdl


class H:
    def __init__(self, val):
        self.val = val


NOVAL = H(None)
NOVAL.other = 1


class W(cohdl.Entity):
    clk = Port.input(Bit)
    a = Port.input(BitVector[2])
    p = Port.input(Bit)
    q = Port.input(Bit)
    b = Port.input(Bit)
    c = Port.output(Bit)
    d = Port.output(Bit)
    ix = Port.input(Unsigned[2])
    vin = Port.input(BitVector[4])
    e = Port.output(BitVector[4])

    def architecture(self):
{fns}        {deco}
        {asy}def proc():
{body}
"""

DEFS = ["self.b | self.p", "Temporary(self.b)", "self.b & self.q", "self.b ^ self.p"]
CONDS = ["self.p", "self.q", "self.b"]
PATS = ['"00"', '"01"', '"10"']


class Prog:
    """a generated program: description (nested lists), source text and the independent judgement"""

    def __init__(self, name, kind, block, meta):
        self.name = name
        self.kind = kind          # comb | clk | coro
        self.block = block
        self.meta = meta
        self.fns = []             # rendered helper functions
        self.bad = []             # uses of a value that is not definitely defined in this activation
        self.dontcare = False
        self.nout = 0

    # ---- rendering
    def render(self):
        self.fns = []
        body = self.r_block(self.block, 12)
        deco = {"comb": "@std.sequential", "conc": "@std.concurrent"}.get(self.kind, "@std.sequential(std.Clock(self.clk))")
        fns = "".join(self.fns)
        return SRC.format(fns=fns, deco=deco, asy="async " if self.kind == "coro" else "", body=body)

    def r_block(self, b, ind):
        lines = []
        for s in b:
            lines += self.r_stmt(s, ind)
        if not lines:
            lines = [" " * ind + "pass"]
        return "\n".join(lines)

    def r_stmt(self, s, ind):
        sp = " " * ind
        k = s[0]
        if k == "def":
            return [f"{sp}{s[1]} = {DEFS[s[2] % len(DEFS)]}"]
        if k == "use":
            out = "cd"[s[3] % 2] if len(s) > 3 else "c"
            st = s[2] % 3
            if st == 0:
                return [f"{sp}self.{out} <<= {s[1]}"]
            if st == 1:
                return [f"{sp}self.{out} <<= {s[1]} ^ self.q"]
            return [f"{sp}if {s[1]}:", f"{sp}    self.{out} <<= self.q"]
        if k == "pass":
            return [f"{sp}pass"]
        if k == "out":
            return [f"{sp}self.d <<= self.b"]
        if k in ("raw", "rawx"):
            return [sp + l for l in s[1]]
        if k == "store":
            if s[3] == "signal":
                return [f"{sp}{s[2]} = Signal({s[1]})"]
            return [f"{sp}{s[2]} = Variable({s[1]}, name=\"uv_{s[2]}\")"]
        if k == "await":
            return [f"{sp}await {s[1]}"]
        if k == "if":
            lines = []
            for i, (c, b) in enumerate(s[1]):
                lines.append(f"{sp}{'if' if i == 0 else 'elif'} {c}:")
                lines.append(self.r_block(b, ind + 4))
            if s[2] is not None:
                lines.append(f"{sp}else:")
                lines.append(self.r_block(s[2], ind + 4))
            return lines
        if k == "match":
            lines = [f"{sp}match self.a:"]
            for p, b in s[1]:
                lines.append(f"{sp}    case {p}:")
                lines.append(self.r_block(b, ind + 8))
            if s[2] is not None:
                lines.append(f"{sp}    case _:")
                lines.append(self.r_block(s[2], ind + 8))
            return lines
        if k == "for":
            lines = [f"{sp}for cmp in ({', '.join(PATS[:s[1]])},):", f"{sp}    if cmp == self.a:",
                     self.r_block(s[2], ind + 8), f"{sp}        break"]
            if s[3] is not None:
                lines.append(f"{sp}else:")
                lines.append(self.r_block(s[3], ind + 4))
            return lines
        if k == "fn":
            fname = "f_" + s[1]
            self.fns.append(" " * 8 + f"def {fname}():\n" + "\n".join(self.r_shape(s[2], 12)) + "\n\n")
            return [f"{sp}{s[1]} = {fname}()"]
        raise AssertionError(s)

    def r_shape(self, sh, ind):
        sp = " " * ind
        k = sh[0]
        if k == "ret":
            self.nout += 1
            return [f"{sp}return {DEFS[(self.nout * 2) % len(DEFS)] if self.nout % 2 else 'self.b | self.q'}"]
        if k == "fall":
            return [f"{sp}pass"]
        if k == "if":
            return [f"{sp}if self.p:"] + self.r_shape(sh[1], ind + 4) + [f"{sp}else:"] + self.r_shape(sh[2], ind + 4)
        if k == "ifthen":      # if without else, then a tail
            return [f"{sp}if self.p:"] + self.r_shape(sh[1], ind + 4) + self.r_shape(sh[2], ind)
        if k == "match":
            lines = [f"{sp}match self.a:"]
            for i, x in enumerate(sh[1]):
                lines += [f"{sp}    case {PATS[i]}:"] + self.r_shape(x, ind + 8)
            if sh[2] is not None:
                lines += [f"{sp}    case _:"] + self.r_shape(sh[2], ind + 8)
            return lines + (self.r_shape(sh[3], ind) if len(sh) > 3 and sh[3][0] != "fall" else [])
        if k == "for":
            lines = [f"{sp}for cmp in ({', '.join(PATS[:sh[1]])},):", f"{sp}    if cmp == self.a:",
                     f"{sp}        return self.b | self.p"]
            if sh[2] == "else_ret":
                lines += [f"{sp}else:", f"{sp}    return self.b & self.q"]
            elif sh[2] == "after_ret":
                lines += [f"{sp}return self.b & self.q"]
            return lines
        raise AssertionError(sh)

    # ---- the independent definite-assignment judgement on the description
    def judge(self):
        self.bad = []
        self.kinds = {}
        self.j_block(self.block, frozenset())
        return self.bad

    def j_block(self, b, df):
        for s in b:
            df = self.j_stmt(s, df)
        return df

    def j_stmt(self, s, df):
        k = s[0]
        if k == "def":
            self.kinds[s[1]] = "temp"
            return df | {s[1]}
        if k == "use":
            if s[1] not in df:
                self.bad.append(s[1])
            return df
        if k in ("pass", "out", "raw"):
            return df
        if k == "rawx":       # hand-written shape with its own judgement
            if s[2]:
                self.bad.append(s[2])
            return df
        if k == "store":
            if s[1] not in df:
                self.bad.append(s[1])
            self.kinds[s[2]] = "stored"
            return df | {s[2]}
        if k == "await":
            # a new activation begins: only values stored in signals / variables survive
            return frozenset(x for x in df if self.kinds.get(x) == "stored")
        if k == "if":
            outs = [self.j_block(b, df) for _, b in s[1]]
            outs.append(self.j_block(s[2], df) if s[2] is not None else df)
            return frozenset.intersection(*outs)
        if k == "match":
            outs = [self.j_block(b, df) for _, b in s[1]]
            outs.append(self.j_block(s[2], df) if s[2] is not None else df)
            return frozenset.intersection(*outs)
        if k == "for":
            # names bound in the loop body / else are local to it; every iteration is a branch
            self.j_block(s[2], df)
            if s[3] is not None:
                self.j_block(s[3], df)
            return df
        if k == "fn":
            self.kinds[s[1]] = "temp"
            if all_return(s[2]):
                return df | {s[1]}
            self.dontcare = True
            if not any_return(s[2]):
                return df | {s[1]}     # the function returns the constant None: no intermediate value at all
            return df
        raise AssertionError(s)


def all_return(sh):
    k = sh[0]
    if k == "ret":
        return True
    if k == "fall":
        return False
    if k == "if":
        return all_return(sh[1]) and all_return(sh[2])
    if k == "ifthen":
        return all_return(sh[2])
    if k == "match":
        inner = all(all_return(x) for x in sh[1]) and sh[2] is not None and all_return(sh[2])
        return inner or (len(sh) > 3 and all_return(sh[3]))
    if k == "for":
        return sh[2] in ("else_ret", "after_ret")
    raise AssertionError(sh)


def any_return(sh):
    if sh[0] == "ret":
        return True
    if sh[0] == "for":
        return True
    return any(any_return(x) for x in sh[1:] if isinstance(x, tuple)) or \
        any(any_return(y) for x in sh[1:] if isinstance(x, list) for y in x)


def source_grid(ck):
    """construct x placement grid on source level"""
    progs = []
    cnt = [0]

    def add(block, meta, kind=None):
        cnt[0] += 1
        i = cnt[0]
        if kind is None:
            kind = ("comb", "clk", "coro")[i % 3] if ck.tier == "quick" else None
        kinds = [kind] if kind else ["comb", "clk", "coro"]
        for kd in kinds:
            blk = ([["await", "self.q"]] + block) if kd == "coro" else block
            progs.append(Prog(f"g{i:04d}_{kd}", kd, blk, dict(meta, proc=kd)))

    def fill(i, j):
        return [["def", f"o{j}", i + j]] if (i + j) % 2 else [["pass"]]

    def uses(def_at, i):
        """(use_at, stmts inside the defining block, stmts after the construct)"""
        u = ["use", "x", i]
        return [("inside", [u], []), ("after", [], [u]), ("later", [], [["if", [("self.b", [u])], None]])]

    n = 0
    # ---- if / elif / else
    for nb, has_else in ((1, False), (1, True), (2, False), (2, True), (3, True)):
        for pos in range(nb + (1 if has_else else 0)):
            for use_at, ins, post in uses(pos, n):
                n += 1
                brs = []
                for j in range(nb):
                    brs.append((CONDS[j], ([["def", "x", n]] + ins) if j == pos else fill(n, j)))
                els = None
                if has_else:
                    els = ([["def", "x", n]] + ins) if pos == nb else fill(n, nb)
                where = "else" if pos == nb else f"branch{pos}"
                add([["if", brs, els]] + post, {"construct": "if", "branches": nb, "else": has_else, "def_at": where, "use_at": use_at})
    # ---- match
    for nb in (1, 2, 3):
        for dflt in (None, "pass", "other"):
            for pos in range(nb + (0 if dflt is None else 1)):
                for use_at, ins, post in uses(pos, n):
                    n += 1
                    brs = [(PATS[j], ([["def", "x", n]] + ins) if j == pos else fill(n, j)) for j in range(nb)]
                    d = None
                    if dflt is not None:
                        d = ([["def", "x", n]] + ins) if pos == nb else ([["pass"]] if dflt == "pass" else [["def", "od", n]])
                    where = "default" if pos == nb else ("first-branch" if pos == 0 else "later-branch")
                    add([["match", brs, d]] + post,
                        {"construct": "match", "branches": nb, "default": dflt or "none", "def_at": where, "use_at": use_at})
    # ---- for-break chains
    for k in (1, 2, 3):
        for has_else in (False, True):
            for where in (("body", "else") if has_else else ("body",)):
                for use_at in ("inside", "after"):
                    n += 1
                    u = ["use", "x", n]
                    body = [["def", "x", n]] + ([u] if use_at == "inside" else []) if where == "body" else [["out"]]
                    els = None
                    if has_else:
                        els = ([["def", "x", n]] + ([u] if use_at == "inside" else [])) if where == "else" else [["out"]]
                    add([["for", k, body, els]] + ([u] if use_at == "after" else []),
                        {"construct": "for-break", "k": k, "else": has_else, "def_at": where, "use_at": use_at})
    # ---- nested combinations
    def wrap_inner(inner, core):
        if inner == "if-body":
            return ["if", [("self.q", core)], None]
        if inner == "if-else":
            return ["if", [("self.q", [["pass"]])], core]
        if inner == "match-first":
            return ["match", [(PATS[0], core), (PATS[1], [["pass"]])], [["pass"]]]
        if inner == "match-second":
            return ["match", [(PATS[0], [["pass"]]), (PATS[1], core)], None]
        if inner == "match-default":
            return ["match", [(PATS[0], [["pass"]])], core]
        raise AssertionError(inner)

    def wrap_outer(outer, core):
        if outer == "if-body":
            return ["if", [("self.p", core)], None]
        if outer == "if-else":
            return ["if", [("self.p", [["out"]])], core]
        if outer == "match-first":
            return ["match", [(PATS[2], core), (PATS[1], [["pass"]])], None]
        if outer == "match-second":
            return ["match", [(PATS[2], [["pass"]]), (PATS[1], core)], [["pass"]]]
        if outer == "match-default":
            return ["match", [(PATS[2], [["pass"]])], core]
        if outer == "for-body":
            return ["for", 2, core, None]
        raise AssertionError(outer)

    for outer in ("if-body", "if-else", "match-first", "match-second", "match-default", "for-body"):
        for inner in ("if-body", "if-else", "match-first", "match-second", "match-default"):
            for use_at in ("inside", "mid", "after"):
                n += 1
                if ck.tier == "quick" and (n % 2) and not (inner == "match-first" and use_at != "inside"):
                    continue          # quick tier: every second nested placement (all match-first ones are kept)
                u = ["use", "x", n]
                core = [["def", "x", n]] + ([u] if use_at == "inside" else [])
                mid = [wrap_inner(inner, core)] + ([u] if use_at == "mid" else [])
                blk = [wrap_outer(outer, mid)] + ([u] if use_at == "after" else [])
                add(blk, {"construct": "nested", "outer": outer, "inner": inner, "def_at": inner, "use_at": use_at})
    # ---- values merged from the return statements of an inlined function
    shapes = [
        ("if:ret/ret", ("if", ("ret",), ("ret",))), ("if:ret/fall", ("if", ("ret",), ("fall",))),
        ("if:fall/ret", ("if", ("fall",), ("ret",))), ("ifthen:ret;ret", ("ifthen", ("ret",), ("ret",))),
        ("ifthen:ret;fall", ("ifthen", ("ret",), ("fall",))),
        ("if>if", ("if", ("if", ("ret",), ("ret",)), ("ret",))), ("if>if-fall", ("if", ("if", ("ret",), ("fall",)), ("ret",))),
    ]
    for sub in itertools.product((True, False), repeat=2):
        for d in (None, ("ret",), ("fall",)):
            for tail in (("fall",), ("ret",)):
                nm = "match:" + "".join("r" if x else "f" for x in sub) + "/" + ("none" if d is None else d[0]) + ";" + tail[0]
                shapes.append((nm, ("match", [("ret",) if x else ("fall",) for x in sub], d, tail)))
    for k in (1, 3):
        for tail in ("fall", "else_ret", "after_ret"):
            shapes.append((f"for{k}:{tail}", ("for", k, tail)))
    for nm, sh in shapes:
        n += 1
        add([["fn", "x", sh], ["use", "x", n]], {"construct": "fn-return", "shape": nm, "def_at": "returns", "use_at": "after"})
    # ---- coroutines: values across await
    co = [
        ("temp-across-await", [["def", "x", 0], ["await", "self.q"], ["use", "x", 0]]),
        ("temp-same-state", [["def", "x", 0], ["use", "x", 0], ["await", "self.q"], ["def", "y", 1], ["use", "y", 0, 1]]),
        ("temp-after-await", [["await", "self.q"], ["def", "x", 0], ["use", "x", 1]]),
        ("stored-signal", [["def", "x", 0], ["store", "x", "s", "signal"], ["await", "self.q"], ["use", "s", 0]]),
        ("stored-variable", [["def", "x", 0], ["store", "x", "v", "variable"], ["await", "self.q"], ["use", "v", 0]]),
        ("temp-across-conditional-await", [["def", "x", 0], ["if", [("self.p", [["await", "self.q"]])], None], ["use", "x", 0]]),
        ("match-first-in-state", [["await", "self.q"], ["match", [(PATS[0], [["def", "x", 0]]), (PATS[1], [["pass"]])], [["pass"]]], ["use", "x", 0]]),
        ("if-in-state", [["await", "self.q"], ["if", [("self.p", [["def", "x", 0]])], None], ["use", "x", 0]]),
        ("two-temps-one-stale", [["def", "x", 0], ["await", "self.q"], ["def", "y", 1], ["use", "y", 0], ["use", "x", 0, 1]]),
        ("for-in-state", [["await", "self.q"], ["for", 2, [["def", "x", 0], ["use", "x", 0]], [["out"]]], ["await", "self.p"], ["out"]]),
        ("temp-two-awaits", [["await", "self.q"], ["def", "x", 0], ["await", "self.p"], ["await", "self.b"], ["use", "x", 0]]),
        ("store-after-await", [["def", "x", 0], ["await", "self.q"], ["store", "x", "s", "signal"], ["use", "s", 0]]),
    ]
    for nm, blk in co:
        cnt[0] += 1
        progs.append(Prog(f"g{cnt[0]:04d}_coro", "coro", blk, {"construct": "coroutine", "shape": nm, "def_at": "state", "use_at": "other-state" if "across" in nm or "stale" in nm or "two-awaits" in nm or "store-after" in nm else "same-state", "proc": "coro"}))
    # ---- bool casts (cleanup_bool_cast)
    bc = [
        ("if-bool-of-compare", ["if bool(self.p == self.q):", "    self.c <<= self.q"]),
        ("bool-bool-if", ["x = bool(self.p)", "y = bool(x)", "if y:", "    self.c <<= self.q"]),
        ("single-bool-if", ["x = bool(self.p)", "if x:", "    self.c <<= self.q"]),
        ("compare-if", ["x = self.p == self.q", "if x:", "    self.c <<= self.q"]),
        ("bool-bool-assign", ["x = bool(bool(self.p | self.q))", "self.c <<= x"]),
        ("and-of-bools", ["if (self.p == self.q) and self.b:", "    self.c <<= self.q"]),
        ("bool-chain-3", ["x = self.p == self.q", "y = bool(x)", "z = bool(y)", "w = bool(z)", "self.d <<= w"]),
        ("not-not", ["x = not (self.p == self.q)", "if not x:", "    self.c <<= self.q"]),
    ]
    for nm, lines in bc:
        cnt[0] += 1
        for kd in ((("comb", "clk")[cnt[0] % 2],) if ck.tier == "quick" else ("comb", "clk")):
            progs.append(Prog(f"g{cnt[0]:04d}_{kd}", kd, [["raw", lines]],
                              {"construct": "bool-cast", "shape": nm, "def_at": "cast", "use_at": "after", "proc": kd}))
    # ---- intermediates the compiler creates itself: computed run-time indices of assignment targets and of reads
    ii = [
        ("target-computed", ["self.e[self.ix + 1] <<= self.b"]),
        ("target-plain", ["self.e[self.ix] <<= self.b"]),
        ("read-computed", ["self.c <<= self.vin[self.ix + 1]"]),
        ("target-and-read", ["self.e[self.ix + 1] <<= self.vin[self.ix - 1]"]),
        ("target-in-if", ["if self.p:", "    self.e[self.ix + 1] <<= self.b", "else:", "    self.e[self.ix] <<= self.q"]),
        ("target-in-match", ["match self.a:", "    case \"00\":", "        self.e[self.ix + 1] <<= self.b", "    case _:",
                             "        self.e[self.ix - 1] <<= self.q"]),
        ("target-index-reused", ["k = self.ix + 1", "self.e[k] <<= self.b", "self.c <<= self.vin[k]"]),
        ("target-slice-of-read", ["self.e[self.vin[1:0].unsigned] <<= self.b"]),
    ]
    for nm, lines in ii:
        cnt[0] += 1
        for kd in ("comb", "clk"):
            progs.append(Prog(f"g{cnt[0]:04d}_{kd}", kd, [["raw", lines]],
                              {"construct": "implicit-index", "shape": nm, "def_at": "compiler", "use_at": "same statement", "proc": kd}))
    cnt[0] += 1
    progs.append(Prog(f"g{cnt[0]:04d}_coro", "coro", [["raw", ["self.e[self.ix + 1] <<= self.b", "await self.q",
                                                               "self.e[self.ix - 1] <<= self.p", "await self.p",
                                                               "self.c <<= self.vin[self.ix + 1]"]]],
                      {"construct": "implicit-index", "shape": "states", "def_at": "compiler", "use_at": "same statement", "proc": "coro"}))
    # ---- results of inline code (f"{vhdl[T]: ...}") are intermediates like any other expression result
    IC = 'f"{vhdl[Bit]:{self.b!r} or {self.p!r}}"'
    ic = [
        ("plain", [f"t = {IC}", "self.c <<= t"], None, ("comb", "clk")),
        ("use-in-if", [f"t = {IC}", "if self.q:", "    self.c <<= t"], None, ("comb", "clk")),
        ("def-in-if-use-after", ["if self.q:", f"    t = {IC}", "self.c <<= t"], "t (defined in the if body only)", ("comb", "clk")),
        ("def-in-else-use-after", ["if self.q:", "    self.d <<= self.b", "else:", f"    t = {IC}", "self.c <<= t"],
         "t (defined in the else body only)", ("comb", "clk")),
        ("def-in-match-use-after", ["match self.a:", '    case "00":', f"        t = {IC}", "    case _:", "        pass", "self.c <<= t"],
         "t (defined in one case only)", ("comb", "clk")),
        ("def-use-across-await", [f"t = {IC}", "await self.q", "self.c <<= t"], "t (computed in another state)", ("coro",)),
    ]
    for nm, lines, bad, kinds_ in ic:
        cnt[0] += 1
        for kd in kinds_:
            progs.append(Prog(f"g{cnt[0]:04d}_{kd}", kd, [["rawx", lines, bad]],
                              {"construct": "inline-code", "shape": nm, "def_at": "inline code", "use_at": "after", "proc": kd}))
    # ---- select_with: the result is an intermediate; without default it is defined only for the listed selector values
    sw = [
        ("default", ['self.c <<= cohdl.select_with(self.a, {"00": self.b, "01": self.p}, default=self.q)'], None),
        ("exhaustive-no-default", ['self.c <<= cohdl.select_with(self.a, {"00": self.b, "01": self.p, "10": self.q, "11": self.b ^ self.p})'], None),
        ("partial-no-default", ['self.c <<= cohdl.select_with(self.a, {"00": self.b, "01": self.p})'],
         "the select_with result (no value for the unlisted selector values)"),
        ("partial-no-default-bit", ['self.c <<= cohdl.select_with(self.p, {"1": self.b})'],
         "the select_with result (no value for the unlisted selector value)"),
        ("bit-exhaustive", ['self.c <<= cohdl.select_with(self.p, {"1": self.b, "0": self.q})'], None),
        ("partial-no-default-stored", ['x = cohdl.select_with(self.a, {"10": self.b | self.p})', "self.c <<= x"],
         "x (no value for the unlisted selector values)"),
        # 2**width entries, but one of them is a metavalue pattern: a two-valued selector value stays uncovered
        ("meta-four-entries-no-default", ['self.c <<= cohdl.select_with(self.a, {"00": self.b, "01": self.p, "10": self.q, "1X": self.b ^ self.p})'],
         "the select_with result (no value for selector 11: the fourth entry is a metavalue pattern)"),
        ("meta-dontcare-no-default", ['self.c <<= cohdl.select_with(self.a, {"00": self.b, "01": self.p, "1-": self.q, "0-": self.b ^ self.p})'],
         "the select_with result (no value for selectors 10 and 11)"),
        ("meta-bit-no-default", ['self.c <<= cohdl.select_with(self.p, {"0": self.b, "X": self.q})'],
         "the select_with result (no value for selector 1)"),
    ]
    for nm, lines, bad in sw:
        cnt[0] += 1
        for kd in ("conc", "comb", "clk"):
            progs.append(Prog(f"g{cnt[0]:04d}_{kd}", kd, [["rawx", lines, bad]],
                              {"construct": "select-with", "shape": nm, "def_at": "selected arms", "use_at": "after", "proc": kd}))
    # ---- value branches (tests/invalid_builds/test_invalid_value_branch.py): a value selected by `a if c else b`
    A, B = "(self.b | self.p)", "(self.b & self.p)"
    vb = [
        ("plain-both", [f"x = {A} if self.q else {B}", "self.c <<= x"], None),
        ("plain-else-none", [f"x = {A} if self.q else None", "self.c <<= x"], "x (no value in the else arm)"),
        ("plain-if-none", [f"x = None if self.q else {A}", "self.c <<= x"], "x (no value in the if arm)"),
        ("holder-both", [f"v = H({A}) if self.q else H({B})", "self.c <<= v.val"], None),
        ("holder-else-noval", [f"v = H({A}) if self.q else NOVAL", "self.c <<= v.val"], "v.val (None in the else arm)"),
        ("holder-attr-one-side", [f"v = H({A}) if self.q else NOVAL", "self.c <<= v.other"], "v.other (exists in one arm only)"),
        ("holder-getattr-one-side", [f"v = H({A}) if self.q else NOVAL", "self.c <<= getattr(v, \"other\")"], "v.other (exists in one arm only)"),
        ("holder-nested-all", [f"v = H({A}) if self.q else (H(self.b) if self.p else H({B}))", "self.c <<= v.val"], None),
        ("holder-nested-noval", [f"v = H({A}) if self.q else (H(self.b) if self.p else NOVAL)", "self.c <<= v.val"], "v.val (None in the innermost arm)"),
        ("holder-hasattr-only", [f"v = H({A}) if self.q else NOVAL", "assert hasattr(v, \"val\")", "self.c <<= self.b"], None),
        ("holder-getattr-unused", [f"v = H({A}) if self.q else NOVAL", "getattr(v, \"val\")", "self.c <<= self.b"], None),
        ("holder-both-used-twice", [f"v = H({A}) if self.q else H({B})", "w = v.val", "self.c <<= w", "self.d <<= w ^ self.q"], None),
    ]
    for nm, lines, bad in vb:
        cnt[0] += 1
        for kd in (("conc", "comb") if ck.tier == "quick" else ("conc", "comb", "clk")):
            progs.append(Prog(f"g{cnt[0]:04d}_{kd}", kd, [["rawx", lines, bad]],
                              {"construct": "value-branch", "shape": nm, "def_at": "arms of a conditional expression",
                               "use_at": "after", "proc": kd}))
    return progs


def random_progs(ck, count):
    rng = ck.rng
    progs = []
    for i in range(count):
        names = []
        ctr = [0]

        def fresh():
            ctr[0] += 1
            nm = f"t{ctr[0]}"
            names.append(nm)
            return nm

        def block(dep, in_for=False):
            out = []
            for _ in range(rng.randint(1, 3)):
                r = rng.random()
                if r < 0.3 or dep == 0:
                    out.append(["def", fresh(), rng.randint(0, 3)])
                elif r < 0.55 and names:
                    out.append(["use", rng.choice(names), rng.randint(0, 2), rng.randint(0, 1)])
                elif r < 0.7:
                    nb = rng.randint(1, 2)
                    out.append(["if", [(CONDS[j], block(dep - 1)) for j in range(nb)], block(dep - 1) if rng.random() < 0.5 else None])
                elif r < 0.88:
                    nb = rng.randint(1, 3)
                    out.append(["match", [(PATS[j], block(dep - 1)) for j in range(nb)], block(dep - 1) if rng.random() < 0.5 else None])
                else:
                    out.append(["for", rng.randint(1, 3), block(dep - 1), block(dep - 1) if rng.random() < 0.4 else None])
            return out

        blk = block(2)
        if names:
            blk.append(["use", rng.choice(names), rng.randint(0, 2), 1])
        kd = rng.choice(["comb", "clk", "coro"])
        if kd == "coro":
            k = rng.randint(0, len(blk))
            blk = blk[:k] + [["await", "self.q"]] + blk[k:]
        progs.append(Prog(f"r{i:04d}_{kd}", kd, blk, {"construct": "random", "proc": kd}))
    return progs


UPSTREAM_EXPECT = {
    "test_invalid_temporaries.py": {"Entity_If_Ok": True, "Entity_If_Ok2": True, "Entity_For_Ok": True, "Entity_Select_Ok": True,
                                    "Entity_If_Err": False, "Entity_If_Err2": False, "Entity_Match_Err": False,
                                    "Entity_Match_Err2": False},
    "test_reused_temporary.py": {"test_reused_temporary": False},
}

TEMP_EXCLUDE = re.compile(r"^uv_", re.I)


def is_temp_name(local):
    """process variables that are compiler temporaries: everything the generated programs did not declare
    themselves as a named Variable (`uv_*`); the compiler names them temp, temp1, ..., val, alias_* ..."""
    return not TEMP_EXCLUDE.match(local)


def da_path(stmts, T, Dset, path):
    """diagnosis only (the verdict is Coq's def_assign): depth-first search for a concrete execution path
    (every if / case choice listed) on which a variable of T is read before it is assigned as a whole.
    returns (None, None) or (None, (path, var))"""
    def ex(e, Dn):
        k = e[0]
        if k == "name":
            n = e[1].lower()
            return n if (n in T and n not in Dn) else None
        if k in ("lit", "edge"):
            return None
        for sub in e[1:]:
            if isinstance(sub, tuple):
                r = ex(sub, Dn)
                if r:
                    return r
        return None

    def walk(ss, Dn, ch):
        if not ss:
            return None
        s, rest = ss[0], ss[1:]
        k = s[0]
        if k == "null":
            return walk(rest, Dn, ch)
        if k in ("sig", "var"):
            r = ex(s[2], Dn)
            for sel in s[1][1]:
                if not r and sel[0] == "idx":
                    r = ex(sel[1], Dn)
            root = s[1][0].lower()
            if not r and k == "var" and s[1][1] and root in T and root not in Dn:
                r = root
            if r:
                return ch + [f"{s[1][0]} {'<=' if k == 'sig' else ':='} ... reads {r}"], r
            if k == "var" and not s[1][1]:
                Dn = Dn | {root}
            return walk(rest, Dn, ch)
        if k == "assert":
            r = ex(s[1], Dn)
            if r:
                return ch + ["assert reads " + r], r
            return walk(rest, Dn, ch)
        if k == "if":
            r = ex(s[1], Dn)
            if r:
                return ch + ["if-condition reads " + r], r
            return walk(list(s[2]) + rest, Dn, ch + ["if: then"]) or walk(list(s[3]) + rest, Dn, ch + ["if: else"])
        if k == "case":
            r = ex(s[1], Dn)
            if r:
                return ch + ["case-selector reads " + r], r
            for chs, body in s[2]:
                f = walk(list(body) + rest, Dn, ch + ["case: when " + "|".join(choice_str(c) for c in chs)])
                if f:
                    return f
            if s[3] is not None:
                return walk(list(s[3]) + rest, Dn, ch + ["case: when others"])
            return walk(rest, Dn, ch + ["case: no choice matches"])
        raise AssertionError(s)

    return None, walk(list(stmts), frozenset(Dset), list(path))


def choice_str(c):
    if c[0] == "V":
        return format(c[3], "0%db" % c[2])
    if c[0] == "E":
        return str(c[3])
    return str(c[1:])


def part_b(ck):
    quick = ck.tier == "quick"
    progs = source_grid(ck) + random_progs(ck, 20 if quick else 300)
    designs = []
    for p in progs:
        p.src = p.render()
        p.judge()
        designs.append({"name": p.name, "source": p.src, "entity": "W"})
    # upstream tests that must keep being accepted / rejected
    ups = []
    for fn, exp in UPSTREAM_EXPECT.items():
        path = os.path.join(common.REPO, "tests", "invalid_builds", fn)
        try:
            text = open(path).read()
        except OSError:
            continue
        for ent, want in exp.items():
            nm = f"up_{fn[:-3]}_{ent}"
            designs.append({"name": nm, "source": text, "entity": ent})
            ups.append((nm, ent, want))
    res = X.compile_designs(ck, designs)
    byname = {d["name"]: r for d, r in zip(designs, res)}

    da_cases = []      # (prog|None, name, proc label, T names, body stmts, coq term)
    groups = {}

    def group(key, what, rep, size, no_input=False):
        g = groups.setdefault(repr(sorted(key.items())), {"key": key, "what": what, "items": [], "no_input": no_input})
        g["items"].append((size, rep))

    def queue_da(name, vhdl, prog, meta, flagged=False):
        try:
            ents, d = R.read_design(vhdl)
        except R.Unparsed as e:
            if flagged:      # already reported as a source-level violation; the text is in that replay
                ck.count("b_flagged_designs_outside_reader_subset")
                return
            ck.obligation(False)
            group({"part": "emitted", "construct": meta.get("construct"), "reader": "unparsed"},
                  "emitted VHDL left the parsed subset: " + str(e)[:120], {"name": name, "meta": meta, "vhdl": vhdl}, len(vhdl), True)
            return
        P = R.CoqPrinter(d)
        # declared (id, type) of every signal: the typed rule prunes `when others` of cases whose choices are exhaustive
        sig_term = "[" + "; ".join(f"({i + 1}%positive, {P.ty(sd.ty)})" for i, sd in enumerate(d.sigs)) + "]"
        for c in d.conc:
            if c[0] != "proc":
                continue
            label = c[1]
            tn, tix = [], []
            for i, v in enumerate(d.vars):
                if v.proc == label and is_temp_name(v.name.split(".")[-1]):
                    tn.append(v.name.lower())
                    tix.append(i + 1)
            term = f"({sig_term}, {c_plist(tix)}, {P.stmts(c[3])})"
            da_cases.append((prog, name, label, frozenset(tn), c[3], term, meta, vhdl))

    for p in progs:
        r = byname[p.name]
        ck.evaluations += 1
        m = p.meta
        ck.hist("b_constructs", m["construct"])
        ck.hist("b_process_kinds", p.kind)
        spec_reject = bool(p.bad)
        if r["ok"]:
            ck.hist("b_real", "accepted")
        else:
            msg = r.get("error", "")
            kind = ("might-not-be-initialized" if "might not be initialized" in msg else
                    "shared-between-states" if "shared between states" in msg else
                    "read-before-written" if "read before it was written" in msg else
                    "name-not-in-scope" if "not found in scope" in msg else
                    "member-missing-in-a-value-branch" if ("non existing member" in msg or "has no attribute" in msg) else
                    "other:" + r.get("error_type", "?") + ":" + msg[:40])
            ck.hist("b_real", "rejected:" + kind)
        ck.hist("b_spec", "must-reject" if spec_reject else ("dont-care" if p.dontcare else "no-undefined-use"))
        ck.nontrivial(("b", p.src))
        if len(ck.samples) < 5 and m["construct"] in ("match", "nested") and m.get("use_at") == "after":
            ck.sample({"part": "b", "meta": m, "spec_must_reject": spec_reject, "real_accepted": r["ok"], "source_proc": p.src[p.src.index("def architecture"):]})
        if r["ok"] and spec_reject:
            ck.obligation(False)
            key = {"part": "source", "construct": m["construct"], "def_at": m.get("def_at"), "use_at": m.get("use_at"),
                   "defect": "accepted although a used value is not defined on every path"}
            if m["construct"] == "random":
                key = {"part": "source", "construct": "random", "defect": key["defect"]}
            group(key, "compiler ACCEPTS a program that uses %s, which is not defined on every path of the activation"
                  % sorted(set(p.bad)), {"name": p.name, "meta": m, "source": p.src, "undefined_uses": sorted(set(p.bad)), "vhdl": r["vhdl"]},
                  len(p.src))
        else:
            ck.obligation(True)
            if (not r["ok"]) and not spec_reject and not p.dontcare:
                ck.count("b_rejected_although_every_use_is_defined")
                ck.hist("b_conservative_rejections", m["construct"] + ":" + r.get("error", "")[:50])
                ck.cov.setdefault("over_rejections", []).append(
                    {"construct": m["construct"], "shape": m.get("shape", m.get("def_at")), "proc": p.kind,
                     "error": (r.get("error", "") or r.get("error_type", ""))[:70]})
        if r["ok"]:
            queue_da(p.name, r["vhdl"], p, m, flagged=spec_reject)
    for nm, ent, want in ups:
        r = byname[nm]
        ck.evaluations += 1
        ok = bool(r["ok"]) == want
        ck.obligation(ok)
        ck.nontrivial(("up", nm))
        if not ok:
            group({"part": "upstream", "entity": ent, "expected": "accepted" if want else "rejected"},
                  "upstream invalid_builds expectation no longer holds for " + ent,
                  {"name": nm, "entity": ent, "result": r}, 0, no_input=want)
        if r["ok"]:
            queue_da(nm, r["vhdl"], None, {"construct": "upstream", "entity": ent})

    # def_assign on every emitted process, inside Coq
    terms = [c[5] for c in da_cases]
    bad = set(common.coq_bad_indices(ck, "b_defassign", PRE_B + SHAPES_DEF, "list (positive * ty) * list positive * stmt", terms,
                                     "fun c => def_assign_typed (shapes_of (fst (fst c))) (snd (fst c)) (snd c)", shard=120)) if terms else set()
    for i, (prog, name, label, tn, body, term, meta, vhdl) in enumerate(da_cases):
        ck.evaluations += 1
        ck.obligation(i not in bad)
        ck.count("b_processes_checked")
        ck.hist("b_temporaries_per_process", len(tn))
        if i in bad:
            _, fail = da_path(body, tn, frozenset(), [])
            key = {"part": "emitted", "construct": meta.get("construct"), "def_at": meta.get("def_at"), "use_at": meta.get("use_at"),
                   "defect": "process reads a temporary before assigning it"}
            if meta.get("construct") in ("random", "upstream"):
                key = {"part": "emitted", "construct": meta.get("construct"), "defect": key["defect"]}
            if meta.get("construct") == "bool-cast":
                key = {"part": "emitted", "construct": "bool-cast", "defect": "process reads a temporary that is never assigned (chained bool casts)"}
            rep = {"name": name, "process": label, "meta": meta, "temporaries": sorted(tn),
                   "path": fail[0] if fail else "(python diagnosis found no path; Coq def_assign = false)",
                   "unassigned_read": fail[1] if fail else None, "vhdl": vhdl,
                   "source": prog.src if prog is not None else None, "coq_case": term}
            group(key, "emitted process reads temporary %s before any assignment on the path %s"
                  % (fail[1] if fail else "?", " / ".join(fail[0]) if fail else "?"), rep, len(vhdl))
    for _, g in sorted(groups.items()):
        g["items"].sort(key=lambda x: x[0])
        rep = dict(g["items"][0][1])
        rep["other_failing"] = [x[1].get("name") for x in g["items"][1:12]]
        rep["failing_count"] = len(g["items"])
        ck.violation(g["key"], g["what"] + " (smallest of %d)" % len(g["items"]), rep, no_input=g["no_input"])
    ck.cov["b_programs"] = len(progs)
    ck.cov["b_upstream_expectations"] = len(ups)
    ck.cov["b_accepted_processes"] = len(da_cases)


def run(ck: common.Check, replay=None):
    sfx = os.environ.get("C08_SCRATCH")          # self-test convenience: separate scratch / replay directories
    if sfx:
        ck.gen = ck.gen + "_" + sfx
        ck.replay_dir = ck.replay_dir + "_" + sfx
        os.makedirs(ck.gen, exist_ok=True)
        os.makedirs(ck.replay_dir, exist_ok=True)
    ck.check_props("C08_Properties.v")
    if replay is not None:
        return run_replay(ck, replay)
    import time
    parts = os.environ.get("C08_PARTS", "ab")      # self-test convenience: run only one half
    t0 = time.time()
    if "a" in parts:
        part_a(ck)
    t1 = time.time()
    if "b" in parts:
        part_b(ck)
    ck.cov["wall_part_a_s"] = round(t1 - t0, 1)
    ck.cov["wall_part_b_s"] = round(time.time() - t1, 1)
    ck.cov["model"] = MODEL
    ck.cov["rule"] = ("a case is one IR tree (a), one list of states, one cleanup input or one source program / emitted process (b); "
                      "distinct by content; trivial = random IR trees rejected as 'read before written' at top level")
    ck.cov["exhaustive"] = False
    ck.trusted += ["fail-closed VHDL reader (harness/vhdl_reader.py)", "Vhdl.Sem as the meaning of the emitted subset",
                   "the generator's own definite-assignment judgement (Prog.judge) as rendering of 'used afterwards'",
                   "names of process variables: every variable not declared by the test program as Variable(name='uv_*') is a compiler temporary"]
    ck.assumptions += ["IR statements are abstracted to read/write access lists over temporary roots; InlineCode and sub-references "
                       "(slices of temporaries) are not modelled", "model compared with the real check: %s tree" % MODEL,
                       "source grid: temporaries of type Bit/bool in one process of one entity; loops are for-break chains over literals"]


def run_replay(ck, rp):
    if rp.get("source"):
        res = X.compile_designs(ck, [{"name": "replay", "source": rp["source"], "entity": "W"}])[0]
        print("compiled:", res["ok"], res.get("error", "")[:200])
        if res["ok"]:
            ents, d = R.read_design(res["vhdl"])
            P = R.CoqPrinter(d)
            for c in d.conc:
                if c[0] == "proc":
                    tn = frozenset(v.name.lower() for v in d.vars if v.proc == c[1] and is_temp_name(v.name.split(".")[-1]))
                    tix = [i + 1 for i, v in enumerate(d.vars) if v.name.lower() in tn]
                    bad = common.coq_bad_indices(ck, "replay", PRE_B, "list positive * stmt", [f"({c_plist(tix)}, {P.stmts(c[3])})"],
                                                 "fun c => def_assign (fst c) (snd c)")
                    ck.evaluations += 1
                    ck.obligation(not bad)
                    if bad:
                        _, fail = da_path(c[3], tn, frozenset(), [])
                        ck.violation(rp.get("key", {"replay": 1}), "replayed: emitted process reads a temporary before assigning it",
                                     {"path": fail[0] if fail else None, "vhdl": res["vhdl"], "source": rp["source"]})
    elif rp.get("tree") is not None:
        r = common.run_worker("c08_worker.py", {"cases": [{"op": "search", "mu": rp.get("mu", []), "tree": rp["tree"]}]})["results"][0]
        print("real verdict:", r)
        term = f"({c_plist(rp.get('mu', []))}, {c_block(rp['tree'])}, {verd(r)})"
        bad = common.coq_bad_indices(ck, "replay", PRE_A, "list positive * block * verdict", [term],
                                     "fun c => negb (verdict_eqb (snd c) Accept) || def_before_use_b (fst (fst c)) (snd (fst c))")
        ck.evaluations += 1
        ck.obligation(not bad)
        if bad:
            ck.violation(rp.get("key", {"replay": 1}), "replayed: accepted tree violates def_before_use", {"tree": rp["tree"], "real": r})
