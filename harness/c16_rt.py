"""C16, second part: debounce and the run-time-limit / run-time-duration configurations of continuous_counter,
ToggleSignal and ClockDivider against the AS-CODED models of Models/TimingRt.v.

Models/TimingRtProofs.v proves for EVERY period / port width and every admissible input sequence that these models
equal the specification machines of Models/StdSpecs.v (debounce_step, counter_rt_step, toggle_rt_step,
divider_rt_step), against which harness/c16.py already proves every compiled configuration.  Here, for every such
compiled configuration of the same run:
  (a) the kernel-checked instance 'as-coded model = specification machine of the case theorem on all (admissible)
      input sequences' (one generated file, instances of the all-parameter theorems), and
  (b) a direct second case theorem 'emitted VHDL = as-coded model (..._step of TimingRt.v) for all input sequences'
      by exploration, with the alphabet and environment assumption of the first case theorem.
A failed (b) while the specification-machine theorem of the same configuration holds means the model is out of
date (reported as no-failing-input-found); a failure of both is a violation with the distinguishing input sequence."""
from __future__ import annotations
import os
import re
import common
import explore as X

RT_IMP = "From Cohdl Require Import Models.StdSpecs Models.Ring Models.TimingRt."


def _bits(s):
    m = re.search(r"run-time (\d+) bits", str(s))
    return int(m.group(1)) if m else None


def rt_model(ref, meta):
    """(Case arguments of the as-coded model, tie statement after 'forall ins,', tie proof) or None"""
    st, init = ref["step"], ref["init"]
    m = re.fullmatch(r"debounce_step (\d+)%Z", st)
    if m:
        p = m.group(1)
        ini = "true" if meta["initial"] else "false"
        return (dict(step=f"dbm_step {p}%Z", init=f"dbm_init {p}%Z {ini}"),
                f"traceB (dbm_step {p}%Z) (dbm_init {p}%Z {ini}) ins = traceB ({st}) {init} ins",
                f"apply (dbm_refines {p}%Z {ini}); lia")
    m = re.fullmatch(r"counter_rt_step (\d+)%N", st)
    if m:
        w = m.group(1)
        return (dict(step=f"ccrt_step {w}%N", init="[0%Z]"),
                f"Forall (lim_ok {w}%N) ins -> traceB (ccrt_step {w}%N) [0%Z] ins = traceB ({st}) {init} ins",
                f"intros H; apply (ccrt_refines {w}%N); [lia|exact H]")
    m = re.fullmatch(r"toggle_rt_step (true|false) (true|false)", st)
    if m:
        ds, fs = m.groups()
        wf, ws = _bits(meta.get("first")), _bits(meta.get("second"))
        if wf is None or ws is None:
            return None
        return (dict(step=f"togglert_step {wf}%N {ws}%N {ds} {fs}", init=f"togglert_init {ds}", assume=ref.get("assume", "fun _ _ => true")),
                f"Forall (dur_ok {wf}%N {ws}%N) ins -> traceB (togglert_step {wf}%N {ws}%N {ds} {fs}) (togglert_init {ds}) ins = "
                f"traceB ({st}) {init} ins",
                f"intros H; apply (togglert_refines {wf}%N {ws}%N {ds} {fs}); [lia|lia|exact H]")
    if st == "divider_rt_step":
        w = _bits(meta.get("duration"))
        if w is None:
            return None
        return (dict(step=f"dividerrt_step {w}%N false", init="dividerrt_init false", assume=ref.get("assume", "fun _ _ => true")),
                f"Forall (per_ok {w}%N) ins -> traceB (dividerrt_step {w}%N false) (dividerrt_init false) ins = "
                f"traceB ({st}) {init} ins",
                f"intros H; apply (dividerrt_refines {w}%N); [lia|exact H]")
    return None


def rt_ties(ck, ties):
    path = os.path.join(ck.gen, "rt_coded_ties.v")
    with open(path, "w") as f:
        f.write(common.COQ_HEADER + "From Coq Require Import Lia.\nFrom Cohdl Require Import Equiv.RefTS Models.StdSpecs Models.Ring "
                "Models.TimingRt Models.TimingRtProofs.\nLocal Open Scope Z_scope.\n")
        for name, stmt, proof in ties:
            f.write(f"Theorem tie_{name} : forall ins, {stmt}.\nProof. intros ins. {proof}. Qed.\n")
    rc, out, err = common.coqc(path, 1200)
    ok = rc == 0
    ck.obligation(ok, len(ties))
    ck.evaluations += len(ties)
    if ok:
        common._cleanup_v(path)
    else:
        ck.violation({"tie": "as-coded run-time timing models"},
                     "instances of the all-parameter refinement theorems (Models/TimingRtProofs.v) for the checked "
                     "configurations no longer prove", {"file": path, "log": (out + err)[-1500:]}, no_input=True)
    ck.cov["as_coded_rt_model_ties"] = len(ties)


def run_extra(ck, uc, res, spec_failed=()):
    """uc: the utility configurations of c16.util_cases, res: their compile results (same order), spec_failed: the
    keys (sorted item tuples, without 'reference') of the configurations whose specification-machine theorem failed"""
    import time
    t0 = time.time()
    cases = []
    ties = []
    for (n, src, ref, meta), r in zip(uc, res):
        if not r["ok"]:
            continue  # already reported by c16.run
        cm = rt_model(ref, meta)
        if cm is None:
            continue
        cref, stmt, proof = cm
        ties.append((n, stmt, proof))
        cases.append(X.Case(n + "_rtcoded", r["vhdl"], imports=RT_IMP,
                            meta=dict(meta, reference="as-coded model (Models/TimingRt.v)", source=src), **cref))
        ck.hist("as_coded_rt_models", meta["util"])
    if not cases:
        ck.obligation(False)
        ck.violation({"tie": "as-coded run-time timing models"}, "no debounce / run-time configuration reached the "
                     "as-coded model check", {}, no_input=True)
        return
    # the specification-machine verdict of the same configuration (c16.run) decides what a difference means
    spec_failed = set(spec_failed)
    orig = ck.violation

    def violation(key, what, replay, no_input=False):
        base = tuple(sorted((k, str(v)) for k, v in key.items() if k != "reference"))
        what = "emitted VHDL and the as-coded model (Models/TimingRt.v) differ: " + what
        if base not in spec_failed:
            what += " [the specification-machine theorem of this configuration holds: the model is out of date]"
            no_input = True
        return orig(key, what, replay, no_input)
    ck.violation = violation
    try:
        X.run_cases(ck, cases, "compiled utility and its as-coded model differ on an input sequence",
                    key_of=lambda c: {k: v for k, v in c.meta.items() if k != "source"}, count_first=0)
    finally:
        ck.violation = orig
    ck.cov["as_coded_rt_model_cases"] = len(cases)
    rt_ties(ck, ties)
    ck.cov["as_coded_rt_wall_s"] = round(time.time() - t0, 1)
