"""C18 worker: runs the REAL std helpers of the cohdl tree selected by PYTHONPATH on
compile-time constants.

stdin : {"cases": [[helper, arg, ...], ...]}
stdout: {"results": [canonical result | ["E", kind], ...], "meta": {...}}

canonical values
  bit vector / Unsigned / Signed -> [tcode, width, unsigned value of the bit pattern]
       tcode: "bv" BitVector, "u" Unsigned, "s" Signed, "bit" Bit (width 1)
  python int / bool              -> ["int", v] / ["bool", 0|1]
  tuples / lists                 -> ["tup", [...]]
  errors                         -> ["E", exception class name]
"""
import json
import sys

import cohdl
from cohdl import std, Bit, BitVector, Unsigned, Signed, Null, Full
from cohdl._core._type_qualifier import TypeQualifierBase
import cohdl.std._core_utility as CU
from cohdl.std._crc import BitwiseCrc


def canon(x):
    x = TypeQualifierBase.decay(x) if isinstance(x, TypeQualifierBase) else x
    if isinstance(x, bool):
        return ["bool", int(x)]
    if isinstance(x, int):
        return ["int", x]
    if isinstance(x, Bit):
        return ["bit", 1, 1 if bool(x) else 0]
    if isinstance(x, Signed):
        return ["s", x.width, x.bitvector.unsigned.to_int()]
    if isinstance(x, Unsigned):
        return ["u", x.width, x.to_int()]
    if isinstance(x, BitVector):
        return ["bv", x.width, x.unsigned.to_int()]
    if isinstance(x, (tuple, list)):
        return ["tup", [canon(e) for e in x]]
    if x is None:
        return ["none"]
    if isinstance(x, str):
        return ["str", x]
    return ["?", repr(x)[:80]]


def BV(wv):
    w, v = wv
    return BitVector[w](Unsigned[w](v))


def U(wv):
    w, v = wv
    return Unsigned[w](v)


def S(wv):
    """[w, bit pattern as unsigned]"""
    w, v = wv
    return BitVector[w](Unsigned[w](v)).signed.copy()


def VAL(a):
    """tagged operand: ["bit", v] | ["bv", w, v] | ["u", w, v] | ["s", w, v] | ["int", v]"""
    t = a[0]
    if t == "bit":
        return Bit(bool(a[-1]))
    if t == "bv":
        return BV(a[1:])
    if t == "u":
        return U(a[1:])
    if t == "s":
        return S(a[1:])
    if t == "int":
        return a[1]
    if t == "bool":
        return bool(a[1])
    if t == "tup":
        return tuple(VAL(e) for e in a[1])
    raise AssertionError(a)


def FILL(f):
    return {"none": None, "null": Null, "full": Full, "b0": Bit(False), "b1": Bit(True)}[f]


def tree(x):
    return ["tup", [tree(e) for e in x]] if isinstance(x, tuple) else ["int", x]


# value-equality rendering of select_with (what the emitted `with .. select` does); the python-level
# fallback of select_with hashes `arg`, which never matches an Unsigned against the int keys of _set_bit_map
def select_with_eq(arg, branches, default=None):
    for k, v in branches.items():
        r = (k == arg)
        if bool(r):
            return v
    return default


class patched_select:
    def __enter__(self):
        self.old = CU.select_with
        CU.select_with = select_with_eq

    def __exit__(self, *a):
        CU.select_with = self.old


KEY1 = lambda x: x[1]


def h_minmax(name, form, elems, keyed):
    fn = getattr(std, name)
    xs = [VAL(e) for e in elems]
    kw = {"key": KEY1} if keyed else {}
    if form == "args":
        return fn(*xs, **kw)
    if form == "tuple":
        return fn(tuple(xs), **kw)
    return fn(xs, **kw)


class compiler_invert:
    """`~x` on a Signal/Temporary: the compiler front end maps ast.Invert to `__inv__` (_prepare_ast.py l.1222);
    TypeQualifier defines `__inv__` but no `__invert__`, so the python-level `~signal` raises TypeError."""

    def __enter__(self):
        from cohdl._core._type_qualifier import TypeQualifier
        self.cls = TypeQualifier
        self.had = "__invert__" in TypeQualifier.__dict__
        if not self.had:
            TypeQualifier.__invert__ = lambda s: s.__inv__()

    def __exit__(self, *a):
        if not self.had:
            del self.cls.__invert__


def h_crc(kind, poly, init, inv, steps, raw=0):
    """steps: list of lists of bits; one update / update_multiple per inner list"""
    c = BitwiseCrc(BV(poly), initial_value=BV(init), invert_result=bool(inv))
    if kind == "calc":
        (data,) = steps
        return c._calc_steps(BV(init), *[Bit(bool(b)) for b in data])
    for data in steps:
        if kind == "single":
            for b in data:
                c.update(Bit(bool(b)))
        else:
            c.update_multiple(*[Bit(bool(b)) for b in data])
    if inv and not raw:
        with compiler_invert():
            return c.result()
    return c.result()


def h_count(kind, elems, value, via):
    if kind == "bv":
        xs = VAL(elems)          # a BitVector container, value is a bit
    else:
        xs = [VAL(e) for e in elems]
    v = VAL(value)
    if via == "value":
        return std.count(xs, v)
    if via == "kw":
        return std.count(xs, value=v)
    return std.count(xs, check=lambda x: x == v)


def h_count_elems(name, elems, value, via):
    fn = getattr(std, name)
    xs = [VAL(e) for e in elems]
    v = VAL(value)
    if via == "value":
        return fn(xs, v)
    return fn(xs, cond=lambda x: x == v)


def h_popcnt(name, vec, bs, patched):
    fn = getattr(std, name)
    kw = {} if bs is None else {"batch_size": bs}
    if patched:
        with patched_select():
            return fn(BV(vec), **kw)
    return fn(BV(vec), **kw)


def h_mask(kind, mask, old, new, width):
    m = std.Mask({"null": Null, "full": Full}.get(mask[0]) if mask[0] in ("null", "full") else BV(mask[1:]))
    if kind == "apply":
        return m.apply(BV(old), BV(new))
    return m.as_vector(width)


H = {
    "binary_fold": lambda right, n: std.binary_fold(lambda a, b: (a, b), list(range(n)), right_fold=bool(right)),
    "binary_fold_sub": lambda right, xs: std.binary_fold(lambda a, b: a - b, list(xs), right_fold=bool(right)),
    "batched_fold": lambda n, bs: std.batched_fold(lambda a, b: (a, b), list(range(n)), **({} if bs is None else {"batch_size": bs})),
    "batched_fold_sub": lambda xs, bs: std.batched_fold(lambda a, b: a - b, list(xs), batch_size=bs),
    "batch_args": lambda n, bs: [list(b) for b in CU._batch_args(list(range(n)), bs)],
    "concat": lambda xs: std.concat(*[VAL(x) for x in xs]),
    "repeat": lambda v, times: std.repeat(VAL(v), times),
    "stretch": lambda v, f: std.stretch(VAL(v), f),
    "leftpad": lambda v, rw, fill: std.leftpad(BV(v), rw, FILL(fill)),
    "rightpad": lambda v, rw, fill: std.rightpad(BV(v), rw, FILL(fill)),
    "pad": lambda v, l, r, fill: std.pad(BV(v), l, r, FILL(fill)),
    "rol": lambda v, n: std.rol(BV(v), n),
    "ror": lambda v, n: std.ror(BV(v), n),
    "lshift_fill": lambda v, f: std.lshift_fill(BV(v), VAL(f)),
    "rshift_fill": lambda v, f: std.rshift_fill(BV(v), VAL(f)),
    "apply_mask": lambda o, n, m: std.apply_mask(BV(o), BV(n), BV(m)),
    "mask": h_mask,
    "batched": lambda v, n, partial: list(std.batched(BV(v), n, allow_partial=bool(partial))),
    "select_batch": lambda v, sel, bs: std.select_batch(BV(v), BV(sel), bs),
    "minimum": lambda form, elems, keyed: h_minmax("minimum", form, elems, keyed),
    "maximum": lambda form, elems, keyed: h_minmax("maximum", form, elems, keyed),
    "min_element": lambda form, elems, keyed: h_minmax("min_element", form, elems, keyed),
    "max_element": lambda form, elems, keyed: h_minmax("max_element", form, elems, keyed),
    "min_index": lambda form, elems, keyed: h_minmax("min_index", form, elems, keyed),
    "max_index": lambda form, elems, keyed: h_minmax("max_index", form, elems, keyed),
    "count": h_count,
    "count_set_bits": lambda v, bs, p: h_popcnt("count_set_bits", v, bs, p),
    "count_clear_bits": lambda v, bs, p: h_popcnt("count_clear_bits", v, bs, p),
    "clamp": lambda v, lo, hi: std.clamp(VAL(v), lo, hi),
    "count_elements_while": lambda e, v, via: h_count_elems("count_elements_while", e, v, via),
    "count_elements_until": lambda e, v, via: h_count_elems("count_elements_until", e, v, via),
    "count_leading_zeros": lambda v: std.count_leading_zeros(BV(v)),
    "count_leading_ones": lambda v: std.count_leading_ones(BV(v)),
    "count_trailing_zeros": lambda v: std.count_trailing_zeros(BV(v)),
    "count_trailing_ones": lambda v: std.count_trailing_ones(BV(v)),
    "one_hot": lambda w, pos: std.one_hot(w, VAL(pos)),
    "is_one_hot": lambda v: std.is_one_hot(VAL(v)),
    "reverse_bits": lambda v: std.reverse_bits(VAL(v)),
    "choose_first": lambda pairs, d: std.choose_first(*[(bool(c), x) for c, x in pairs], default=d),
    "select": lambda arg, branches, d: std.select(arg, {k: v for k, v in branches}, d),
    "cond": lambda c, a, b: std.cond(bool(c), a, b),
    "crc": h_crc,
}


def run_case(c):
    try:
        return canon(H[c[0]](*c[1:]))
    except RecursionError:
        return ["E", "RecursionError"]
    except Exception as e:  # canonicalised: only the class name
        return ["E", type(e).__name__]


def main():
    req = json.load(sys.stdin)
    sys.setrecursionlimit(20000)
    res = [run_case(c) for c in req["cases"]]
    print(json.dumps({"results": res, "meta": {"cohdl": cohdl.__file__}}))


main()
