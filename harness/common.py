"""Shared plumbing of the checks: paths, Coq runner, evidence, findings."""
from __future__ import annotations
import fcntl
import hashlib
import json
import os
import random
import re
import subprocess
import sys
import time
from concurrent.futures import ThreadPoolExecutor

VERIF = os.path.dirname(os.path.dirname(os.path.abspath(__file__)))
REPO = os.environ.get("COHDL_SRC", "/repo")
PY = "/venv/bin/python"
COQ_DIR = os.path.join(VERIF, "coq")
GEN = os.path.join(VERIF, "gen")
def _jobs():
    """number of parallel workers: all cores on an idle machine, fewer when it is already oversubscribed"""
    n = min(16, os.cpu_count() or 4)
    try:
        load = os.getloadavg()[0]
    except OSError:
        load = 0.0
    if load > n:
        return max(3, int(n * n / load))
    return n


NCPU = _jobs()

TRUSTED_BASE_COMMON = [
    "Coq 8.16.1 kernel including its vm_compute machine (no native_compute)",
    "Print Assumptions output of every property theorem (recorded under coverage.axioms)",
    "hand-written Gallina models tied to /repo by the correspondence run of this check",
    "Python harness: generators, result comparison, subprocess orchestration (/verif/harness)",
    "CPython 3.12 running /repo's current working tree (PYTHONPATH forced, PYTHONHASHSEED=0)",
]


def real_env(extra=None):
    env = dict(os.environ)
    env["PYTHONPATH"] = REPO + os.pathsep + os.path.join(REPO, "tests") + os.pathsep + os.path.join(VERIF, "harness")
    env["PYTHONHASHSEED"] = env.get("VERIF_HASHSEED", "0")
    env["COHDL_SRC"] = REPO
    env["COHDL_VERIF"] = "1"
    env.pop("PYTHONSTARTUP", None)
    if extra:
        env.update(extra)
    return env


def scaled(timeout):
    """time limits are written for an idle 16-core machine; on an oversubscribed machine (other checks, other
    users) they are stretched by the load factor, and by 3 in the thorough tier.  A limit only guards against a
    hang: a check that hits it reports a no-input violation, which on a loaded machine would be a false alarm."""
    try:
        load = os.getloadavg()[0]
    except OSError:
        load = 0.0
    f = max(1.0, load / max(1, (os.cpu_count() or 16)))
    if os.environ.get("VERIF_TIER") == "thorough" or "--tier thorough" in " ".join(sys.argv) or "thorough" in sys.argv:
        f *= 3
    return int(timeout * min(f, 12.0))


def run_worker(script, payload, timeout=900, env_extra=None):
    """run harness/<script> with the real cohdl from REPO; JSON in on stdin, JSON out on stdout"""
    p = subprocess.run(
        [PY, os.path.join(VERIF, "harness", script)],
        input=json.dumps(payload), capture_output=True, text=True, timeout=scaled(timeout), env=real_env(env_extra),
    )
    if p.returncode != 0:
        raise RuntimeError(f"worker {script} failed rc={p.returncode}\n{p.stderr[-4000:]}")
    # the worker prints its JSON result on the last line
    line = p.stdout.strip().split("\n")[-1]
    return json.loads(line)


def run_workers(script, payloads, timeout=900, jobs=NCPU):
    with ThreadPoolExecutor(jobs) as ex:
        return list(ex.map(lambda pl: run_worker(script, pl, timeout), payloads))


# ----------------------------------------------------------------------------
# regression corpus of repaired defects
# ----------------------------------------------------------------------------

def run_regress(ck):
    """/verif/regress/<PID>/*.py: one self-contained reproducer per genuine defect that was found and repaired
    (recorded as `fixed` in known_findings.json).  Each runs against the tree under test (PYTHONPATH = COHDL_SRC or
    /repo) and exits 0 when the behaviour is correct.  They run first on every check run: a `fixed` entry suppresses
    nothing, so the defect is reported again - with the script as the failing input - if it ever returns.  This is
    a regression test, not part of the proof; it is counted separately in the evidence (coverage.regress)."""
    d = os.path.join(VERIF, "regress", ck.pid)
    if not os.path.isdir(d):
        return
    scripts = sorted(f for f in os.listdir(d) if f.endswith(".py"))
    if not scripts:
        return

    def one(f):
        path = os.path.join(d, f)
        try:
            p = subprocess.run([PY, path], capture_output=True, text=True, timeout=scaled(600), env=real_env(), cwd=ck.gen)
            return f, p.returncode, (p.stdout + p.stderr)[-2500:]
        except subprocess.TimeoutExpired:
            return f, -9, "timeout"

    with ThreadPoolExecutor(min(8, NCPU)) as ex:
        res = list(ex.map(one, scripts))
    ck.cov["regress"] = {"scripts": len(scripts), "passed": sum(1 for _, rc, _ in res if rc == 0)}
    for f, rc, out in res:
        ck.evaluations += 1
        ck.obligation(rc == 0)
        if rc != 0:
            ck.violation({"regress": f[:-3]}, "a repaired defect is back (or a recorded one is present): regression reproducer %s fails" % f,
                         {"script": os.path.join(d, f), "exit": rc, "output": out,
                          "cmd": "PYTHONPATH=%s PYTHONHASHSEED=0 %s %s" % (REPO, PY, os.path.join(d, f))})


# ----------------------------------------------------------------------------
# Coq
# ----------------------------------------------------------------------------

CORE_TARGETS = ["theories/Base/Util.vo", "theories/Equiv/Monitor.vo", "theories/Equiv/StoreTS.vo", "theories/Models/Coro.vo", "theories/Models/StdSpecs.vo"]


def ensure_coq_built(pid=None, quiet=True):
    """incremental .vo build (idempotent, serialised by a lock).  With a property id only the
    core libraries and that property's theorem file (with everything it depends on) are built, so a
    broken proof of another property cannot disturb this check."""
    os.makedirs(GEN, exist_ok=True)
    with open(os.path.join(GEN, ".build.lock"), "w") as lock:
        fcntl.flock(lock, fcntl.LOCK_EX)
        # build from the listed files that exist (a line for a file that is not written yet must not
        # break dependency analysis for every other property)
        lines = []
        for l in open(os.path.join(COQ_DIR, "_CoqProject")).read().split("\n"):
            t = l.strip()
            if t.endswith(".v") and not t.startswith("-") and not os.path.exists(os.path.join(COQ_DIR, t)):
                continue
            lines.append(l)
        build = "\n".join(lines)
        bp = os.path.join(COQ_DIR, "_CoqProject.build")
        if not os.path.exists(bp) or open(bp).read() != build or not os.path.exists(os.path.join(COQ_DIR, "Makefile")):
            open(bp, "w").write(build)
            subprocess.run(["coq_makefile", "-f", "_CoqProject.build", "-o", "Makefile"], cwd=COQ_DIR, check=True,
                           capture_output=True)
        targets = []
        if pid is not None:
            targets = list(CORE_TARGETS)
            if os.path.exists(os.path.join(COQ_DIR, "theories", "Props", pid + "_Properties.v")):
                targets.append("theories/Props/%s_Properties.vo" % pid)
        p = subprocess.run(["timeout", "3000", "make", f"-j{NCPU}"] + targets, cwd=COQ_DIR, capture_output=True, text=True)
        if p.returncode != 0:
            sys.stderr.write(p.stdout[-3000:] + p.stderr[-3000:])
            return False, (p.stdout + p.stderr)[-3000:]
    return True, ""


def coqc(vfile, timeout=1200, extra_q=()):
    args = ["timeout", str(scaled(timeout)), "coqc", "-Q", os.path.join(COQ_DIR, "theories"), "Cohdl", "-w", "-all"]
    for d, lp in extra_q:
        args += ["-Q", d, lp]
    args.append(vfile)
    p = subprocess.run(args, capture_output=True, text=True, cwd=os.path.dirname(vfile))
    return p.returncode, p.stdout, p.stderr


def coqc_many(vfiles, timeout=1200, jobs=NCPU, extra_q=()):
    with ThreadPoolExecutor(jobs) as ex:
        return list(ex.map(lambda f: coqc(f, timeout, extra_q), vfiles))


def coq_outputs(stdout):
    """split coqc stdout into the results of successive Eval/Compute commands:
    returns the list of strings between '=' and the final ': type'"""
    text = " ".join(stdout.split())
    outs = []
    for m in re.finditer(r"(?:^| )= (.*?) : [A-Za-z_(][^=]*?(?= = |$)", text):
        outs.append(m.group(1).strip())
    return outs


def parse_N_list(s):
    s = s.strip()
    s = re.sub(r"%[A-Za-z]+", "", s)
    if s in ("[]", "nil"):
        return []
    assert s.startswith("[") and s.endswith("]"), s
    return [int(x) for x in s[1:-1].split(";") if x.strip()]


def props_assumptions(prop_file):
    """compile theories/Props/<prop_file> and return (ok, [(theorem, 'closed' | [axioms])], log)"""
    path = os.path.join(COQ_DIR, "theories", "Props", prop_file)
    rc, out, err = coqc(path)
    if rc != 0:
        return False, [], (out + err)[-3000:]
    src = open(path).read()
    names = re.findall(r"Print Assumptions\s+([\w.]+)\s*\.", src)
    blocks = re.split(r"(?=Closed under the global context|Axioms:)", out)
    blocks = [b for b in blocks if b.startswith("Closed") or b.startswith("Axioms:")]
    res = []
    for i, n in enumerate(names):
        if i < len(blocks):
            b = blocks[i]
            if b.startswith("Closed"):
                res.append((n, "closed"))
            else:
                ax = re.findall(r"^([\w.]+)\s*:", b, re.M)
                res.append((n, ax))
        else:
            res.append((n, "?"))
    return True, res, out[-2000:]


FORBIDDEN = re.compile(r"\b(Admitted|admit|Axiom|Parameter|Conjecture|Unset Guard|bypass_check|Admit Obligations)\b")


def scan_forbidden():
    bad = []
    for dp, _, fs in os.walk(os.path.join(COQ_DIR, "theories")):
        for f in fs:
            if f.endswith(".v"):
                txt = open(os.path.join(dp, f)).read()
                # strip comments (non-nested is enough for our sources)
                txt = re.sub(r"\(\*.*?\*\)", "", txt, flags=re.S)
                for m in FORBIDDEN.finditer(txt):
                    bad.append((os.path.join(dp, f), m.group(0)))
    return bad


# ----------------------------------------------------------------------------
# the check object
# ----------------------------------------------------------------------------

def load_known():
    p = os.path.join(VERIF, "known_findings.json")
    if not os.path.exists(p):
        return []
    return json.load(open(p))["findings"]


class Check:
    def __init__(self, pid, tier, seed):
        self.pid = pid
        self.tier = tier
        self.seed = seed
        self.rng = random.Random(seed * 1000003 + int(hashlib.sha1(pid.encode()).hexdigest()[:6], 16))
        self.t0 = time.time()
        self.n_viol = 0
        self.n_known = 0
        self.obligations = 0
        self.discharged = 0
        self.evaluations = 0
        self.distinct = set()
        self.samples = []
        self.cov = {}
        self.axioms = {}
        self.assumptions = []
        self.trusted = list(TRUSTED_BASE_COMMON)
        self.checker_cmd = "coqc (full .vo build of /verif/coq + generated case files under /verif/gen/%s)" % pid
        self.known = [k for k in load_known() if k["property"] == pid]
        # VERIF_SCRATCH=<name>: a self-test run (mutants) that must not touch the real evidence / replays
        self.scratch = os.environ.get("VERIF_SCRATCH", "")
        tag = pid + ("_" + self.scratch if self.scratch else "")
        self.gen = os.path.join(GEN, tag)
        os.makedirs(self.gen, exist_ok=True)
        self.replay_dir = os.path.join(VERIF, "replays", tag)
        os.makedirs(self.replay_dir, exist_ok=True)
        for f in os.listdir(self.replay_dir):
            # replays belong to one run; stale ones would be misleading
            if f.startswith("v") and f.endswith(".json"):
                try:
                    os.unlink(os.path.join(self.replay_dir, f))
                except OSError:
                    pass

    # -- bookkeeping ---------------------------------------------------------
    def obligation(self, ok, n=1):
        self.obligations += n
        if ok:
            self.discharged += n

    def sample(self, s, limit=6):
        if len(self.samples) < limit:
            self.samples.append(s)

    def nontrivial(self, key):
        self.distinct.add(key if isinstance(key, str) else json.dumps(key, sort_keys=True, default=str))

    def count(self, name, n=1):
        self.cov[name] = self.cov.get(name, 0) + n

    def hist(self, name, key):
        h = self.cov.setdefault(name, {})
        h[str(key)] = h.get(str(key), 0) + 1

    # -- findings --------------------------------------------------------------
    def _is_known(self, key):
        for k in self.known:
            if k.get("status") != "known":
                continue
            kk = k["key"]
            if all(key.get(a) == b for a, b in kk.items()):
                return k
        return None

    def violation(self, key: dict, what: str, replay: dict, no_input=False):
        """key: small dict identifying the failing input class; replay: everything needed to re-run"""
        k = self._is_known(key)
        if k is not None:
            self.n_known += 1
            tag = "KNOWN-FINDING: property=%s %s" % (self.pid, k["what"])
            if tag not in getattr(self, "_printed", set()):
                self._printed = getattr(self, "_printed", set()) | {tag}
                print(tag)
            return False
        self.n_viol += 1
        if self.n_viol > 25:
            return True
        path = os.path.join(self.replay_dir, "v%03d.json" % self.n_viol)
        replay = dict(replay)
        replay.update({"property": self.pid, "key": key, "what": what, "repo": REPO, "seed": self.seed, "tier": self.tier,
                       "replay_cmd": "./check %s --replay %s" % (self.pid, path)})
        with open(path, "w") as f:
            json.dump(replay, f, indent=1, default=str)
        print("VIOLATION property=%s replay=%s%s" % (self.pid, path, " no-failing-input-found" if no_input else ""))
        sys.stdout.flush()
        return True

    # -- static theorems ---------------------------------------------------------
    def check_props(self, prop_file):
        ok, res, log = props_assumptions(prop_file)
        if not ok:
            self.obligation(False)
            self.violation({"theorem_file": prop_file}, "property theorems no longer compile",
                           {"file": prop_file, "log": log, "broken": "theories/Props/" + prop_file}, no_input=True)
            return False
        for name, ax in res:
            self.axioms[name] = ax
            closed = ax == "closed" or (isinstance(ax, list) and all(allowed_axiom(a) for a in ax))
            self.obligation(closed)
            if not closed:
                self.violation({"theorem": name}, "theorem depends on a non-stdlib axiom",
                               {"theorem": name, "axioms": ax}, no_input=True)
        return True

    # -- finish ----------------------------------------------------------------
    def finish(self):
        wall = time.time() - self.t0
        cov = dict(self.cov)
        obligations = self.obligations
        if self.n_viol == 0 and self.n_known > 0 and self.discharged < self.obligations:
            # every undischarged obligation of this run belongs to a recorded known finding (otherwise
            # n_viol > 0): they are reported separately, not as obligations this run claims
            cov["known_finding_obligations"] = self.obligations - self.discharged
            obligations = self.discharged
        cov.update({
            "obligations": obligations,
            "discharged": self.discharged,
            "checker_cmd": self.checker_cmd,
            "trusted_base": self.trusted,
            "evaluations": self.evaluations,
            # never more than what was evaluated (a module that adds finer keys than it counts evaluations is capped)
            "distinct_nontrivial": min(len(self.distinct), self.evaluations),
            "samples": self.samples if self.samples else ["(no sample recorded)"],
            "axioms": self.axioms,
            "known_findings_hit": self.n_known,
        })
        cov.setdefault("rule", "see DESIGN.md section 6 for this property")
        ev = {
            "property_id": self.pid, "tier": self.tier, "seed": self.seed, "level": "proof",
            "coverage": cov, "assumptions": self.assumptions, "wall_s": round(wall, 2),
            "violations": self.n_viol,
        }
        evdir = os.path.join(VERIF, "evidence") if not self.scratch else os.path.join(GEN, "evidence_" + self.scratch)
        os.makedirs(evdir, exist_ok=True)
        with open(os.path.join(evdir, self.pid + ".json"), "w") as f:
            json.dump(ev, f, indent=1, default=str)
        print("%s tier=%s seed=%d obligations=%d discharged=%d evaluations=%d violations=%d known=%d wall=%.1fs" % (
            self.pid, self.tier, self.seed, self.obligations, self.discharged, self.evaluations,
            self.n_viol, self.n_known, wall))
        return 1 if self.n_viol else 0


STD_AXIOMS = {
    "functional_extensionality_dep", "FunctionalExtensionality.functional_extensionality_dep",
    "classic", "Classical_Prop.classic", "proof_irrelevance", "JMeq_eq", "Eqdep.Eq_rect_eq.eq_rect_eq",
    "eq_rect_eq", "ProofIrrelevance.proof_irrelevance", "propositional_extensionality",
}


def allowed_axiom(a):
    return a in STD_AXIOMS or a.split(".")[-1] in {x.split(".")[-1] for x in STD_AXIOMS}


COQ_HEADER = (
    "From Coq Require Import ZArith NArith PArith List Bool.\nImport ListNotations.\n"
    "From Cohdl Require Import Base.Bits Vhdl.Value Vhdl.NumStd Vhdl.Syntax Vhdl.Sem Equiv.Explore.\n"
)


# ----------------------------------------------------------------------------
# value correspondence helpers
# ----------------------------------------------------------------------------

def coq_bad_indices(ck, tag, preamble, case_type, cases, pred, shard=400, timeout=1200):
    """Evaluate `pred : case_type -> bool` (true = model agrees with the implementation)
    on every Coq term in `cases` with vm_compute; returns the sorted indices where it is
    false.  Raises RuntimeError if a shard does not compile."""
    files = []
    for si in range(0, len(cases), shard):
        part = cases[si:si + shard]
        path = os.path.join(ck.gen, f"{tag}_{si // shard:04d}.v")
        with open(path, "w") as f:
            f.write(preamble + "\nFrom Cohdl Require Import Base.Util.\n")
            f.write(f"Definition cases : list ({case_type}) := [\n  ")
            f.write(";\n  ".join(part))
            f.write("].\n")
            f.write(f"Eval vm_compute in (bad_indices ({pred}) cases).\n")
        files.append((si, path))
    outs = coqc_many([p for _, p in files], timeout=timeout)
    bad = []
    for (si, path), (rc, out, err) in zip(files, outs):
        if rc != 0:
            raise RuntimeError(f"coqc failed on {path}:\n{(out + err)[-2000:]}")
        res = coq_outputs(out)
        bad += [si + i for i in parse_N_list(res[-1])]
        _cleanup_v(path)
    return sorted(bad)


def coq_eval_terms(ck, tag, preamble, terms, timeout=600):
    """vm_compute each term; returns the printed normal forms (strings) in order"""
    path = os.path.join(ck.gen, f"{tag}_eval.v")
    with open(path, "w") as f:
        f.write(preamble + "\n")
        for t in terms:
            f.write(f"Eval vm_compute in ({t}).\n")
    rc, out, err = coqc(path, timeout)
    if rc != 0:
        raise RuntimeError(f"coqc failed on {path}:\n{(out + err)[-2000:]}")
    _cleanup_v(path)
    return coq_outputs(out)


def _cleanup_v(path):
    base = path[:-2]
    for ext in (".v", ".vo", ".glob", ".vok", ".vos", ".aux"):
        try:
            os.unlink(base + ext)
        except OSError:
            pass
    try:
        os.unlink(os.path.join(os.path.dirname(base), "." + os.path.basename(base) + ".aux"))
    except OSError:
        pass


def coq_Z(z):
    return f"({z})%Z"


def coq_N(n):
    return f"{n}%N"


def coq_list(xs):
    return "[" + "; ".join(xs) + "]"
