"""C16 - std timing utilities are exact to the clock.

(1) coroutine bodies that call the REAL std.wait_for / Waiter.wait_for (constant 1..6, run-time 3-bit, allow_zero),
    in first and non-first position: theorem per program against Coro.ref extended with Wait (resume exactly n
    clocks after reached);
(2) wrappers around the REAL delayed/DelayLine, continuous_counter, ClockDivider, ToggleSignal, debounce:
    theorem per configuration against the specification machines of Models/StdSpecs.v; for DelayLine/delayed,
    continuous_counter, ClockDivider, ToggleSignal with constant numbers also against / tied to the AS-CODED models
    of Models/TimingAll.v, about which Models/TimingAllProofs.v proves for ALL lengths / limits / periods that they
    equal the specification machines and have the closed forms (exact delay, period, duty, restart) stated in
    Props/C16_Properties.v;
(3) Duration.count_periods on integral ratios (plain differential check, reported separately)."""
from __future__ import annotations
import os
import common
import explore as X
import c01

E = c01.E
C0, C1 = c01.C0, c01.C1

HEAD = """import cohdl
from cohdl import Bit, Port, Unsigned, Null, Signal
from cohdl import std

class W(cohdl.Entity):
    clk = Port.input(Bit)
"""

DELAY = HEAD + """    x = Port.input(Unsigned[{w}])
    o = Port.output(Unsigned[{w}])

    def architecture(self):
        ctx = std.SequentialContext(std.Clock(self.clk))
        line = std.DelayLine(self.x, {n}, initial=Unsigned[{w}]({init}), ctx=ctx)

        @std.concurrent
        def logic():
            self.o <<= line.last()
"""

DELAYED = HEAD + """    x = Port.input(Unsigned[{w}])
    o = Port.output(Unsigned[{w}])

    def architecture(self):
        r = Signal[Unsigned[{w}]]({init})

        @std.sequential(std.Clock(self.clk))
        def proc():
            nonlocal r
            r <<= std.delayed(self.x, {nm1}, initial=Unsigned[{w}]({init}))

        @std.concurrent
        def logic():
            self.o <<= r
"""

COUNTER = HEAD + """    o = Port.output(Unsigned[{w}])

    def architecture(self):
        ctx = std.SequentialContext(std.Clock(self.clk))
        c = std.continuous_counter(ctx, {limit})

        @std.concurrent
        def logic():
            self.o <<= c
"""

COUNTER_RT = HEAD + """    limit = Port.input(Unsigned[{w}])
    o = Port.output(Unsigned[{w}])

    def architecture(self):
        ctx = std.SequentialContext(std.Clock(self.clk))
        c = std.continuous_counter(ctx, self.limit)

        @std.concurrent
        def logic():
            self.o <<= c
"""

DIVIDER = HEAD + """    en = Port.input(Bit)
    dis = Port.input(Bit)
    state = Port.output(Bit)
    rising = Port.output(Bit)
    falling = Port.output(Bit)

    def architecture(self):
        ctx = std.SequentialContext(std.Clock(self.clk))
        div = std.ClockDivider(ctx, {d}, default_state={ds}, tick_at_start={tas})

        @std.sequential(std.Clock(self.clk))
        def ctrl():
            if self.dis:
                div.disable()
            elif self.en:
                div.enable()

        @std.concurrent
        def logic():
            self.state <<= div.state()
            self.rising <<= div.rising()
            self.falling <<= div.falling()
"""

TOGGLE = HEAD + """    state = Port.output(Bit)
    rising = Port.output(Bit)
    falling = Port.output(Bit)

    def architecture(self):
        ctx = std.SequentialContext(std.Clock(self.clk))
        tg = std.ToggleSignal(ctx, {a}, {b}, default_state={ds}, first_state={fs})

        @std.concurrent
        def logic():
            self.state <<= tg.state()
            self.rising <<= tg.rising()
            self.falling <<= tg.falling()
"""

TOGGLE_RT = HEAD + """    f = Port.input(Unsigned[2])
    s = Port.input(Unsigned[2])
    state = Port.output(Bit)
    rising = Port.output(Bit)
    falling = Port.output(Bit)

    def architecture(self):
        ctx = std.SequentialContext(std.Clock(self.clk))
        tg = std.ToggleSignal(ctx, self.f, self.s, default_state={ds}, first_state={fs})

        @std.concurrent
        def logic():
            self.state <<= tg.state()
            self.rising <<= tg.rising()
            self.falling <<= tg.falling()
"""

DIVIDER_RT = HEAD + """    p = Port.input(Unsigned[3])
    state = Port.output(Bit)
    rising = Port.output(Bit)

    def architecture(self):
        ctx = std.SequentialContext(std.Clock(self.clk))
        div = std.ClockDivider(ctx, self.p)

        @std.concurrent
        def logic():
            self.state <<= div.state()
            self.rising <<= div.rising()
"""

DEBOUNCE = HEAD + """    x = Port.input(Bit)
    o = Port.output(Bit)

    def architecture(self):
        ctx = std.SequentialContext(std.Clock(self.clk))
        r = std.debounce(ctx, self.x, {p}, initial={init})

        @std.concurrent
        def logic():
            self.o <<= r
"""

IMP = "From Cohdl Require Import Models.StdSpecs."


def wait_programs(tier):
    progs = []
    ns = [1, 2, 3, 4] if tier == "quick" else [1, 2, 3, 4, 5, 6]
    for kind in ("std", "waiter"):
        for n in ns:
            progs.append((f"wait_{kind}_{n}_mid", [E(1), ("await", C0), E(2), ("wait", n, kind), E(3)], {"util": "wait_for", "impl": kind, "n": n, "position": "after a statement"}))
            progs.append((f"wait_{kind}_{n}_first", [("wait", n, kind), E(1)], {"util": "wait_for", "impl": kind, "n": n, "position": "first"}))
            progs.append((f"wait_{kind}_{n}_loop", [("while", None, [("await", C0), E(1), ("wait", n, kind), E(2), ("if", C1, [("break",)], [])]), E(3)], {"util": "wait_for", "impl": kind, "n": n, "position": "in loop"}))
        progs.append((f"wait_{kind}_rt", [E(1), ("await", C0), E(2), ("waitin", False, kind), E(3)], {"util": "wait_for", "impl": kind, "n": "run-time", "position": "after a statement"}))
        progs.append((f"wait_{kind}_rt_zero", [E(1), ("await", C0), E(2), ("waitin", True, kind), E(3)], {"util": "wait_for", "impl": kind, "n": "run-time, allow_zero", "position": "after a statement"}))
        progs.append((f"wait_{kind}_rt_first", [("waitin", False, kind), E(1)], {"util": "wait_for", "impl": kind, "n": "run-time", "position": "first"}))
        progs.append((f"wait_{kind}_twice", [E(1), ("wait", 2, kind), E(2), ("wait", 3, kind), E(3), ("await", C1)], {"util": "wait_for", "impl": kind, "n": "2 then 3", "position": "sequence"}))
    return progs


def util_cases(tier):
    out = []
    big = tier != "quick"
    for n in ([1, 2, 3] if not big else [1, 2, 3, 4, 5]):
        for init in (0, 2):
            w = 2
            out.append((f"delayline_n{n}_i{init}", DELAY.format(w=w, n=n, init=init),
                        dict(step=f"delay_step {w}%N", init="[" + "; ".join([f"{init}%Z"] * n) + "]"),
                        {"util": "DelayLine", "n": n, "initial": init}))
    for n in ([2, 3] if not big else [2, 3, 4]):
        w = 2
        out.append((f"delayed_n{n}", DELAYED.format(w=w, nm1=n - 1, init=1),
                    dict(step=f"delay_step {w}%N", init="[" + "; ".join(["1%Z"] * n) + "]"),
                    {"util": "delayed (n-1 stages + one register)", "n": n, "initial": 1}))
    for limit in ([1, 2, 3, 4, 6] if not big else [1, 2, 3, 4, 5, 6, 7, 8, 11]):
        w = limit.bit_length()
        out.append((f"counter_l{limit}", COUNTER.format(w=w, limit=limit), dict(step=f"counter_step {w}%N {limit}%Z", init="[0%Z]"),
                    {"util": "continuous_counter", "limit": limit}))
    for w in ([2, 3] if not big else [1, 2, 3, 4]):
        out.append((f"counter_rt_w{w}", COUNTER_RT.format(w=w), dict(step=f"counter_rt_step {w}%N", init="[0%Z]"),
                    {"util": "continuous_counter", "limit": f"run-time {w} bits"}))
    for d in ([2, 3, 5] if not big else [2, 3, 4, 5, 6, 7, 8]):
        for ds in (False, True):
            for tas in (False, True):
                c0 = d - 1 if tas else 0
                out.append((f"divider_d{d}_{int(ds)}{int(tas)}", DIVIDER.format(d=d, ds=ds, tas=tas),
                            dict(step=f"divider_step {d}%Z {str(ds).lower()} {str(tas).lower()}", init=f"[0%Z; {c0}%Z; {int(ds)}%Z]"),
                            {"util": "ClockDivider", "duration": d, "default_state": ds, "tick_at_start": tas}))
    for a, b in ([(1, 1), (2, 3), (3, 1)] if not big else [(1, 1), (1, 2), (2, 1), (2, 3), (3, 1), (4, 4), (5, 2)]):
        for ds in (False, True):
            for fs in (False, True):
                out.append((f"toggle_{a}_{b}_{int(ds)}{int(fs)}", TOGGLE.format(a=a, b=b, ds=ds, fs=fs),
                            dict(step=f"toggle_step {a}%Z {b}%Z {str(ds).lower()} {str(fs).lower()}", init=f"[0%Z; {int(ds)}%Z]"),
                            {"util": "ToggleSignal", "first": a, "second": b, "default_state": ds, "first_state": fs}))
    for ds in (False, True):
        for fs in ((False,) if not big else (False, True)):
            out.append((f"toggle_rt_{int(ds)}{int(fs)}", TOGGLE_RT.format(ds=ds, fs=fs),
                        dict(step=f"toggle_rt_step {str(ds).lower()} {str(fs).lower()}", init=f"[0%Z; {int(ds)}%Z]",
                             assume="toggle_rt_assume"),
                        {"util": "ToggleSignal", "first": "run-time 2 bits", "second": "run-time 2 bits", "default_state": ds, "first_state": fs}))
    out.append(("divider_rt", DIVIDER_RT,
                dict(step="divider_rt_step", init="[0%Z; 0%Z]", assume="divider_rt_assume"),
                {"util": "ClockDivider", "duration": "run-time 3 bits"}))
    for p in ([1, 2, 3, 4] if not big else [1, 2, 3, 4, 5, 6, 7, 8]):
        for init in (False, True):
            out.append((f"debounce_p{p}_{int(init)}", DEBOUNCE.format(p=p, init=init),
                        dict(step=f"debounce_step {p}%Z", init=f"[{p // 2}%Z; {int(init)}%Z]"),
                        {"util": "debounce", "period": p, "initial": init}))
    return out


CODED_IMP = "From Cohdl Require Import Models.StdSpecs Models.Ring Models.TimingAll."


def coded_model(ref, meta):
    """as-coded model (Models/TimingAll.v) of a configuration whose specification machine is ref["step"]:
    (Case arguments, statement + proof of 'as-coded model = specification machine on every input sequence',
    instantiated from the all-sizes theorem of Models/TimingAllProofs.v), or None (run-time limits, debounce)"""
    import re
    st, init = ref["step"], ref["init"]
    m = re.fullmatch(r"delay_step (\d+)%N", st)
    if m:
        w, n, i = m.group(1), meta["n"], meta["initial"]
        return (dict(step=f"dline_step {w}%N", init=f"dline_init {n} {i}%Z"),
                f"traceB (dline_step {w}%N) (dline_init {n} {i}%Z) ins = traceB ({st}) {init} ins",
                f"apply (dline_refines_delay {n} {w}%N {i}%Z); lia")
    m = re.fullmatch(r"counter_step (\d+)%N (\d+)%Z", st)
    if m:
        w, l = m.groups()
        return (dict(step=f"ccounter_step {w}%N {l}%Z", init="[0%Z]"),
                f"traceB (ccounter_step {w}%N {l}%Z) [0%Z] ins = traceB ({st}) {init} ins",
                f"apply (ccounter_refines {w}%N {l}%Z); lia")
    m = re.fullmatch(r"divider_step (\d+)%Z (true|false) (true|false)", st)
    if m:
        d, ds, tas = m.groups()
        return (dict(step=f"dividerm_step {d}%Z {ds} {tas}", init=f"dividerm_init {d}%Z {ds} {tas}"),
                f"traceB (dividerm_step {d}%Z {ds} {tas}) (dividerm_init {d}%Z {ds} {tas}) ins = traceB ({st}) {init} ins",
                f"apply (dividerm_refines {d}%Z {ds} {tas}); lia")
    m = re.fullmatch(r"toggle_step (\d+)%Z (\d+)%Z (true|false) (true|false)", st)
    if m:
        a, b, ds, fs = m.groups()
        return (dict(step=f"togglem_step {a}%Z {b}%Z {ds} {fs}", init=f"togglem_init {ds}"),
                f"traceB (togglem_step {a}%Z {b}%Z {ds} {fs}) (togglem_init {ds}) ins = traceB ({st}) {init} ins",
                f"apply (togglem_refines {a}%Z {b}%Z {ds} {fs}); lia")
    return None


def coded_ties(ck, ties):
    """one generated file: per configuration the kernel-checked instance 'as-coded model = specification machine
    of the existing case theorem, on ALL input sequences' (with that case theorem: emitted VHDL = as-coded model)"""
    import os
    path = os.path.join(ck.gen, "coded_ties.v")
    with open(path, "w") as f:
        f.write(common.COQ_HEADER + "From Coq Require Import Lia.\nFrom Cohdl Require Import Equiv.RefTS Models.StdSpecs Models.Ring "
                "Models.TimingAll Models.TimingAllProofs.\nLocal Open Scope Z_scope.\n")
        for name, stmt, proof in ties:
            f.write(f"Theorem tie_{name} : forall ins, {stmt}.\nProof. intros ins. {proof}. Qed.\n")
    rc, out, err = common.coqc(path, 1200)
    ok = rc == 0
    ck.obligation(ok, len(ties))
    ck.evaluations += len(ties)
    if ok:
        common._cleanup_v(path)
    else:
        ck.violation({"tie": "as-coded timing models"}, "instances of the all-sizes refinement theorems (Models/TimingAllProofs.v) "
                     "for the checked configurations no longer prove", {"file": path, "log": (out + err)[-1500:]}, no_input=True)
    ck.cov["as_coded_model_ties"] = len(ties)


def run(ck: common.Check, replay=None):
    ck.check_props("C16_Properties.v")
    # (1) wait_for through the coroutine reference semantics
    wp = wait_programs(ck.tier)
    meta_by = {n: m for n, _, m in wp}
    key_by = {}

    class KV:
        pass
    progs = [(n, p) for n, p, _ in wp]
    # run_programs reports violations keyed by program; wrap to key by utility class
    orig_violation = ck.violation

    def violation(key, what, replay, no_input=False):
        name = None
        import json as _j
        for n, p, m in wp:
            if key.get("program") == _j.dumps(p):
                name = n
                key = {"util": m["util"], "impl": m["impl"], "n": m["n"], "position": m["position"]}
                replay = dict(replay, config=m)
                break
        return orig_violation(key, what, replay, no_input)
    ck.violation = violation
    try:
        # low=True: second theorem per program of Lower.in_grammar (constant durations; not n = 1 in first
        # position, not run-time durations): emitted design = mstep (lower p) of the lowering model
        c01.run_programs(ck, progs, what="statement after wait_for does not execute exactly n clocks after it was reached",
                         low=os.environ.get("C16_NO_LOWER") is None)
    finally:
        ck.violation = orig_violation
    for n, p, m in wp:
        ck.hist("utilities", m["util"] + "/" + m["impl"])
    # (2) wrappers against the specification machines
    uc = util_cases(ck.tier)
    designs = [{"name": n, "source": src, "entity": "W"} for n, src, _, _ in uc]
    res = X.compile_designs(ck, designs)
    cases = []
    coded_cases = []
    ties = []
    for (n, src, ref, meta), r in zip(uc, res):
        if not r["ok"]:
            ck.obligation(False)
            ck.violation({"config": n}, "wrapper around the real utility no longer compiles: " + r["error"][:200],
                         {"source": src, "error": r.get("trace", r["error"])}, no_input=True)
            continue
        cases.append(X.Case(n, r["vhdl"], imports=IMP, meta=dict(meta, source=src), **ref))
        ck.hist("utilities", meta["util"])
        cm = coded_model(ref, meta)
        if cm is not None:
            cref, stmt, proof = cm
            ties.append((n, stmt, proof))
            # direct second theorem 'emitted VHDL = as-coded model' by exploration: every such configuration in the
            # thorough tier, the delay lines and counters in the quick tier (wall time); the others are covered
            # by their tie instance + the case theorem against the specification machine
            if ck.tier != "quick" or meta["util"] in ("DelayLine", "continuous_counter") or meta["util"].startswith("delayed"):
                coded_cases.append(X.Case(n + "_coded", r["vhdl"], imports=CODED_IMP,
                                          meta=dict(meta, reference="as-coded model (Models/TimingAll.v)", source=src), **cref))
    # a difference between the VHDL and an as-coded model while the specification-machine theorem of the same
    # configuration holds is not a violation of the property: the model is out of date
    failed = set()
    orig_violation2 = ck.violation

    def violation2(key, what, replay, no_input=False):
        base = tuple(sorted((k, str(v)) for k, v in key.items() if k != "reference"))
        if "reference" in key:
            what = "emitted VHDL and the as-coded model (Models/TimingAll.v) differ: " + what
            if base not in failed:
                what += " [the specification-machine theorem of this configuration holds: the model is out of date]"
                no_input = True
        else:
            failed.add(base)
        return orig_violation2(key, what, replay, no_input)
    ck.violation = violation2
    try:
        X.run_cases(ck, cases + coded_cases, "compiled utility and its reference machine differ on an input sequence",
                    key_of=lambda c: {k: v for k, v in c.meta.items() if k != "source"})
    finally:
        ck.violation = orig_violation2
    ck.cov["as_coded_model_cases"] = len(coded_cases)
    if ties:
        coded_ties(ck, ties)
    # (3) Duration.count_periods
    r = common.run_worker("c16_worker.py", {"seed": ck.seed, "n": 400 if ck.tier == "quick" else 5000})
    ck.cov["count_periods_differential"] = {"cases": r["cases"], "mismatches": len(r["bad"])}
    for b in r["bad"][:5]:
        ck.violation({"util": "count_periods", "ratio": b["ratio"]}, "Duration.count_periods differs from the exact ratio", b)
    ck.cov["rule"] = ("one theorem per (utility, parameters, position); all input sequences are covered by each theorem; "
                      "count_periods is differential testing on integral ratios only (binary64 not modelled)")
    ck.trusted += ["fail-closed VHDL reader", "Vhdl.Sem", "Coro.ref with Wait (Models/Coro.v)", "specification machines of Models/StdSpecs.v"]
    ck.assumptions += ["durations/periods enumerated up to the listed bounds", "binary64 arithmetic of Duration.count_periods is not modelled"]
    __import__("c16_rt").run_extra(ck, uc, res, failed)  # debounce / run-time limits against Models/TimingRt.v
