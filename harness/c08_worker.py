"""C08 worker: runs the REAL temporaries checks of cohdl on synthetic IR trees.

stdin : {"cases": [{"op": "search"|"states"|"cleanup", "mu": [roots], "tree": block | "states": [block]}]}
stdout: last line JSON {"results": [...]}

tree encoding (see c08.py):  obj = 0 (not a temporary) | r >= 1 (temporary root r)
  stmt = ["expr", cast, [reads], result] | ["var", target, [source]] | ["other", [reads]]
       | ["if", test, block, block] | ["block", block] | ["case", value, [[cond, block]...], default|None]
results: search -> "accept" | "invalid" | "unwritten" | "crash:<Type>"
         states -> true | false
         cleanup -> [["R"|"W", root], ...]  (temporary accesses in visit_objects order after
                    cleanup_unused + cleanup_bool_cast, exactly as ConvertInstance.apply runs them)
"""
import json
import sys


def main():
    req = json.load(sys.stdin)
    from cohdl._core._ir import _repr as ir
    from cohdl._core._ir import AccessFlags
    from cohdl._core import Bit, Signal, Temporary
    from cohdl._compiler.frontend._generate_ir import ConvertInstance

    class Builder:
        def __init__(self, mu):
            self.mu = set(mu)
            self.temps = {}
            self.ids = {}
            self.other = Signal[Bit]()

        def obj(self, r):
            if r == 0:
                return self.other
            if r not in self.temps:
                t = Temporary[bool](maybe_uninitialized=(r in self.mu))
                self.temps[r] = t
                self.ids[id(t)] = r
            return self.temps[r]

        def block(self, b):
            code = ir.CodeBlock([], None)
            for s in b:
                code.append(self.stmt(s))
            return code

        def stmt(self, s):
            k = s[0]
            if k == "expr":
                _, cast, reads, result = s
                if cast:
                    return ir.Boolean(self.obj(reads[0]), self.obj(result))
                return ir.All([self.obj(r) for r in reads], self.obj(result))
            if k == "var":
                src = [self.obj(r) for r in s[2]]
                return ir.VariableAssignment(self.obj(s[1]), src[0] if len(src) == 1 else src)
            if k == "other":
                src = [self.obj(r) for r in s[1]]
                if not src:
                    return ir.Nop()
                return ir.SignalAssignment(self.other, src[0] if len(src) == 1 else src)
            if k == "if":
                return ir.If(self.obj(s[1]), self.block(s[2]), self.block(s[3]))
            if k == "block":
                return self.block(s[1])
            if k == "case":
                return ir.CaseWhen(self.obj(s[1]), [(self.obj(c), self.block(b)) for c, b in s[2]],
                                   None if s[3] is None else self.block(s[3]))
            raise AssertionError(s)

    def unwrap(e):
        while isinstance(e, ir.VisitException):
            e = e.original
        return e

    out = []
    for c in req["cases"]:
        b = Builder(c.get("mu", []))
        op = c["op"]
        try:
            if op == "search":
                ctx = ir.Context("ctx", b.block(c["tree"]), {}, None)
                try:
                    ConvertInstance.detect_uninitialized_temporaries(ctx)
                    out.append("accept")
                except BaseException as e:  # noqa
                    e = unwrap(e)
                    msg = str(e)
                    if isinstance(e, AssertionError) and "might not be initialized" in msg:
                        out.append("invalid")
                    elif isinstance(e, AssertionError) and "read before it was written" in msg:
                        out.append("unwritten")
                    else:
                        out.append("crash:" + type(e).__name__)
            elif op == "states":
                sm = ir.StatemachineContext("sm")
                sm._states = []
                for blk in c["states"]:
                    code = b.block(blk)
                    sm._states.append(ir._State(code, code))
                try:
                    sm._check_temporaries()
                    out.append(True)
                except BaseException as e:  # noqa
                    e = unwrap(e)
                    if isinstance(e, AssertionError) and "shared between states" in str(e):
                        out.append(False)
                    else:
                        out.append("crash:" + type(e).__name__)
            elif op == "cleanup":
                ctx = ir.Context("ctx", b.block(c["tree"]), {}, None)
                ctx = ConvertInstance.cleanup_unused(ctx)
                ctx = ConvertInstance.cleanup_bool_cast(ctx)
                accs = []

                def rec(obj, access):
                    if isinstance(obj, Temporary):
                        r = b.ids.get(id(obj._root), -1)
                        accs.append(["R" if access is AccessFlags.READ else "W", r])
                    return obj

                ctx.visit_objects(rec)
                out.append(accs)
            else:
                out.append("crash:badop")
        except BaseException as e:  # noqa
            out.append("crash:" + type(unwrap(e)).__name__ + ":" + str(e)[:80])
    print(json.dumps({"results": out}))


if __name__ == "__main__":
    main()
