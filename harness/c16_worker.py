"""Duration.count_periods on integral ratios against exact arithmetic"""
import json, random, sys
from fractions import Fraction
req = json.load(sys.stdin)
from cohdl import std
rng = random.Random(req["seed"])
bad = []
cases = 0
for _ in range(req["n"]):
    # clock period as an integer number of picoseconds, duration an exact multiple
    clk_ps = rng.choice([1000, 2500, 3333, 4000, 5000, 8000, 10000, 20000, 37037, 100000, 1000000])
    k = rng.choice([1, 2, 3, 5, 7, 10, 64, 100, 1000, 12345, 10**6, rng.randrange(1, 10**6)])
    try:
        clk = std.Duration.picoseconds(clk_ps)
        dur = std.Duration.picoseconds(clk_ps * k)
        got = dur.count_periods(clk)
    except BaseException as e:  # noqa
        got = "ERR " + type(e).__name__ + ": " + str(e)[:100]
    cases += 1
    if got != k:
        bad.append({"clk_ps": clk_ps, "ratio": k, "observed": got,
                    "python": f"std.Duration.picoseconds({clk_ps*k}).count_periods(std.Duration.picoseconds({clk_ps}))"})
print(json.dumps({"cases": cases, "bad": bad[:20]}))
