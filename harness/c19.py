"""C19 - fixed-point arithmetic is exact and resize follows the selected styles.

real SFixed/UFixed objects on compile-time constants (c19_worker.py, /repo)
  vs  the Gallina model Models/Fixed.v, evaluated inside Coq (vm_compute, `agrees`)
  and vs the property's own SPEC, evaluated here with fractions.Fraction on every case.

The spaces enumerated completely are stated in coverage["space"].
"""
from __future__ import annotations
import json
import math
import os
import subprocess
from fractions import Fraction

import common

KINDS = ("SFixed", "UFixed")
RNDS = ("TRUNCATE", "ROUND")
OVFS = ("WRAP", "SATURATE")
ERR_COQ = {"index": "EIndex", "subvector": "ESubvector", "wider": "EWider", "range": "ERange",
           "width0": "EWidth0", "resize": "EResize", "assert": "EAssert"}

# the correspondence runs against Models/Fixed.v `agrees` (= `run`): the single model of the current /repo tree
PRED = "agrees"
RUN = "run"

PREAMBLE = ("From Coq Require Import ZArith List Bool.\nImport ListNotations.\n"
            "From Cohdl Require Import Models.Fixed.\nLocal Open Scope Z_scope.\n")


# ----------------------------------------------------------------------------
# small helpers
# ----------------------------------------------------------------------------

def formats(lo, hi):
    return [(l, r) for l in range(lo, hi + 1) for r in range(lo, l + 1)]


def raw_range(kind, l, r):
    w = l - r + 1
    return range(-(1 << (w - 1)), 1 << (w - 1)) if kind == "SFixed" else range(0, 1 << w)


def raw_bounds(kind, w):
    return (-(1 << (w - 1)), (1 << (w - 1)) - 1) if kind == "SFixed" else (0, (1 << w) - 1)


def value(l, r, raw):
    return Fraction(raw) * Fraction(2) ** r


def z(n):
    return str(n) if n >= 0 else "(%d)" % n


def rs_coq(s):
    return "Round" if s == "ROUND" else "Truncate"


def os_coq(s):
    return "Saturate" if s == "SATURATE" else "Wrap"


def case_coq(c):
    op = c[0]
    if op == "resize":
        _, k, sl, sr, raw, l, r, rnd, ovf = c
        return "OResize %s %s %s %s %s %s %s %s" % (k, z(sl), z(sr), z(raw), z(l), z(r), rs_coq(rnd), os_coq(ovf))
    if op in ("add", "sub", "mul", "eq"):
        name = {"add": "OAdd", "sub": "OSub", "mul": "OMul", "eq": "OEq"}[op]
        return name + " " + c[1] + " " + " ".join(z(x) for x in c[2:8])
    if op == "eqnum":
        return "OEqNum %s %s" % (c[1], " ".join(z(x) for x in c[2:7]))
    if op == "ctor_num":
        return "OCtorNum %s %s" % (c[1], " ".join(z(x) for x in c[2:6]))
    if op == "ctor_vec":
        _, k, l, r, vk, w, val = c
        return "OCtorVec %s %s %s %s %s %s" % (k, z(l), z(r), "true" if vk == "Signed" else "false", z(w), z(val))
    if op == "ctor_fix":
        return "OCtorFix %s %s" % (c[1], " ".join(z(x) for x in c[2:7]))
    raise AssertionError(c)


def out_coq(res):
    """the recorded result of the real code as a Coq term; None if it is outside the model's result type"""
    if res[0] == "ok":
        return "VFix %s %s %s" % (z(res[1]), z(res[2]), z(res[3]))
    if res[0] == "bool":
        return "VBool %s" % ("true" if res[1] else "false")
    if res[0] == "err" and res[1] in ERR_COQ:
        return "VErr " + ERR_COQ[res[1]]
    return None


def oneliner(c):
    op = c[0]
    imp = "from cohdl import Signed, Unsigned; from cohdl.std import *; "

    def obj(k, l, r, raw):
        return "%s[%d:%d](raw=%s[%d](%d))" % (k, l, r, "Signed" if k == "SFixed" else "Unsigned", l - r + 1, raw)
    if op == "resize":
        _, k, sl, sr, raw, l, r, rnd, ovf = c
        return imp + "print(%s.resize(%d, %d, FixedRoundStyle.%s, FixedOverflowStyle.%s))" % (obj(k, sl, sr, raw), l, r, rnd, ovf)
    if op in ("add", "sub", "mul", "eq"):
        sym = {"add": "+", "sub": "-", "mul": "*", "eq": "=="}[op]
        return imp + "print(%s %s %s)" % (obj(c[1], *c[2:5]), sym, obj(c[1], *c[5:8]))
    if op == "eqnum":
        _, k, l, r, raw, m, e, how = c
        return imp + "print(%s == %s)" % (obj(k, l, r, raw), num_src(m, e, how))
    if op == "ctor_num":
        _, k, l, r, m, e, how = c
        return imp + "print(%s[%d:%d](%s))" % (k, l, r, num_src(m, e, how))
    if op == "ctor_vec":
        _, k, l, r, vk, w, val = c
        return imp + "print(%s[%d:%d](%s[%d](%d)))" % (k, l, r, vk, w, val)
    if op == "ctor_fix":
        _, k, l, r, sl, sr, raw = c
        return imp + "print(%s[%d:%d](%s))" % (k, l, r, obj(k, sl, sr, raw))
    return ""


def num_src(m, e, how):
    if how == "int":
        return str(m * 2 ** e)
    return "%d * 2.0**%d" % (m, e)


# ----------------------------------------------------------------------------
# the SPEC (the property's own statement, exact rational arithmetic)
# ----------------------------------------------------------------------------

def spec_round(q, rnd):
    fl = math.floor(q)
    if rnd == "TRUNCATE":
        return fl
    fr = q - fl
    if fr > Fraction(1, 2):
        return fl + 1
    if fr < Fraction(1, 2):
        return fl
    return fl if fl % 2 == 0 else fl + 1


def spec_resize_raw(kind, sr, raw, l, r, rnd, ovf):
    zr = spec_round(Fraction(raw) * Fraction(2) ** (sr - r), rnd)
    wt = l - r + 1
    lo, hi = raw_bounds(kind, wt)
    if ovf == "WRAP":
        return (zr - lo) % (1 << wt) + lo, zr
    return max(lo, min(hi, zr)), zr


def wf_result(kind, res):
    if res[0] != "ok":
        return False
    w = res[1] - res[2] + 1
    if w < 1:
        return False
    lo, hi = raw_bounds(kind, w)
    return lo <= res[3] <= hi


def spec_check(c, res):
    """-> None if the real result satisfies the property on this case, else (key, what, expected)"""
    op, kind = c[0], c[1]
    is_err = res[0] == "err"
    if op == "resize":
        _, _, sl, sr, raw, l, r, rnd, ovf = c
        w, wt = sl - sr + 1, l - r + 1
        key = {"op": "resize", "kind": kind}
        if wt < 1:
            if is_err:
                return None
            key["case"] = "malformed_target_accepted"
            return key, "resize to a format with left < right is accepted", "a rejection"
        exp, rounded = spec_resize_raw(kind, sr, raw, l, r, rnd, ovf)
        expected = ["ok", l, r, exp]
        if res[:4] == expected:
            return None
        rel = ("sl>l" if sl > l else "sl=l" if sl == l else "sl<l") + "," + ("sr>=r" if sr >= r else "sr<r")
        lo, hi = raw_bounds(kind, wt)
        if is_err:
            ec = res[1]
            if sl <= l and sr < r and r - sr >= w and ec in ("index", "subvector"):
                key["case"] = "raises_cutoff_ge_width"
            elif kind == "SFixed" and rnd == "ROUND" and sr < r and wt == 1 and ec in ("wider", "subvector"):
                key.update({"round": rnd, "case": "raises_round_target_width_1"})
            elif kind == "SFixed" and ovf == "SATURATE" and sl > l and w == 1 and ec == "subvector":
                key.update({"overflow": ovf, "case": "raises_saturate_source_width_1"})
            elif kind == "UFixed" and ovf == "SATURATE" and sl > l and sl - l > w and ec == "subvector":
                key.update({"overflow": ovf, "case": "raises_saturate_overflow_gt_width"})
            else:
                key.update({"round": rnd, "overflow": ovf, "case": "raises_%s(%s)" % (ec, rel)})
            return key, "resize of a valid object to a valid format raises (%s)" % ec, expected
        if res[0] != "ok" or res[1:3] != [l, r]:
            key["case"] = "wrong_result_format"
            return key, "resize result has the wrong format", expected
        obs = res[3]
        wrapped = (rounded - lo) % (1 << wt) + lo
        if (sl <= l and sr < r and rnd == "ROUND" and ovf == "SATURATE" and rounded == hi + 1
                and obs == wrapped):
            key.update({"round": rnd, "overflow": ovf, "case": "round_carry_selfleft_le_left"})
        elif kind == "SFixed" and ovf == "SATURATE" and sl > l and sl - l >= w and raw == -1 and obs == 0:
            key.update({"overflow": ovf, "case": "saturate_overflow_ge_width_minus_one"})
        elif (kind == "SFixed" and ovf == "SATURATE" and rnd == "ROUND" and sl > l and sr < r and raw < 0
              and obs == hi):
            key.update({"round": rnd, "overflow": ovf, "case": "saturate_round_negative_all_ones"})
        else:
            key.update({"round": rnd, "overflow": ovf, "case": "wrong_value(%s)" % rel})
        return key, "resize result differs from round-then-overflow", expected
    if op in ("add", "sub", "mul"):
        _, _, l1, r1, a, l2, r2, b = c
        key = {"op": op, "kind": kind}
        va, vb = value(l1, r1, a), value(l2, r2, b)
        exact = va + vb if op == "add" else va - vb if op == "sub" else va * vb
        if is_err:
            key["case"] = "raises_" + res[1]
            return key, "arithmetic on valid objects raises", str(exact)
        if not wf_result(kind, res):
            key["case"] = "ill_formed_result"
            return key, "result object is not well formed", str(exact)
        got = value(*res[1:4])
        if kind == "UFixed" and op == "sub":
            exact = exact % (Fraction(2) ** (res[1] + 1))
        if got != exact:
            key["case"] = "inexact"
            return key, "result is not the exact %s" % op, str(exact)
        return None
    if op == "eq":
        _, _, l1, r1, a, l2, r2, b = c
        key = {"op": "eq", "kind": kind}
        want = value(l1, r1, a) == value(l2, r2, b)
        if is_err:
            if (l1, r1) != (l2, r2):
                return None          # explicit "type(other) is type(self)" assertion: documented rejection
            key["case"] = "raises_" + res[1]
            return key, "== on two objects of one format raises", want
        if res != ["bool", int(want)]:
            key["case"] = "not_numeric"
            return key, "== does not compare the represented numbers", want
        return None
    if op == "eqnum":
        _, _, l, r, raw, m, e, how = c
        key = {"op": "eqnum", "kind": kind}
        num = Fraction(m) * Fraction(2) ** e
        want = value(l, r, raw) == num
        lo, hi = raw_bounds(kind, l - r + 1)
        in_range = value(l, r, lo) <= num <= value(l, r, hi)
        if is_err:
            if not in_range and res[1] == "range":
                return None          # static_assert "value outside valid range": documented rejection
            key["case"] = "raises_" + res[1]
            return key, "== with a number inside the format's range raises", want
        if res != ["bool", int(want)]:
            representable = (num / Fraction(2) ** r).denominator == 1
            key["case"] = "not_numeric" if representable else "unrepresentable_number_truncated"
            return key, "== does not compare the represented numbers", want
        return None
    if op == "ctor_num":
        _, _, l, r, m, e, how = c
        key = {"op": "ctor", "kind": kind, "src": how}
        num = Fraction(m) * Fraction(2) ** e
        q = num / Fraction(2) ** r
        lo, hi = raw_bounds(kind, l - r + 1)
        representable = q.denominator == 1 and lo <= q <= hi
        if not representable:
            if res[0] == "ok" and not wf_result(kind, res):
                key["case"] = "ill_formed_result"
                return key, "constructor returned an ill formed object", "any well formed object or a rejection"
            return None
        expected = ["ok", l, r, int(q)]
        if res[:4] == expected:
            return None
        if is_err:
            key["case"] = "raises_" + res[1]
        elif abs(int(q)) >= 2 ** 53:
            key["case"] = "not_preserved_above_2^53"
        else:
            key["case"] = "not_preserved"
        return key, "constructor does not preserve a representable number", expected
    if op == "ctor_vec":
        _, _, l, r, vk, w, val = c
        key = {"op": "ctor", "kind": kind, "src": vk}
        wt = l - r + 1
        if kind == "UFixed" and vk == "Signed":
            type_fits = False          # not offered by the class ("invalid arg")
        else:
            room = wt - 1 if (kind == "SFixed" and vk == "Unsigned") else wt
            type_fits = r <= 0 and w + (-r) <= room
        expected = ["ok", l, r, val * 2 ** (-r)] if r <= 0 else None
        if is_err:
            if not type_fits:
                return None
            key["case"] = "raises_" + res[1]
            return key, "constructor from a vector type that fits the format raises", expected
        if res[:4] != expected:
            key["case"] = "not_preserved"
            return key, "constructor from a vector does not preserve the number", expected
        return None
    if op == "ctor_fix":
        _, _, l, r, sl, sr, raw = c
        key = {"op": "ctor", "kind": kind, "src": "fixed"}
        contained = l >= sl and r <= sr
        expected = ["ok", l, r, raw * 2 ** (sr - r)] if sr >= r else None
        if is_err:
            if not contained:
                return None          # explicit assertion on the formats: documented rejection
            key["case"] = "raises_%s(%s)" % (res[1], "same_right" if sr == r else "smaller_right")
            return key, "constructor from a contained format raises", expected
        if expected is None or res[:4] != expected:
            key["case"] = "not_preserved"
            return key, "constructor from another format does not preserve the number", expected
        return None
    raise AssertionError(c)


# ----------------------------------------------------------------------------
# case generation
# ----------------------------------------------------------------------------

CORPUS = [
    # the three inputs of DESIGN.md section 7
    ["resize", "SFixed", 3, -1, 15, 3, 0, "ROUND", "SATURATE"],
    ["resize", "UFixed", 2, -1, 15, 2, 0, "ROUND", "SATURATE"],
    ["resize", "SFixed", 1, 0, 1, 5, 3, "ROUND", "WRAP"],
    # regressions: one input per class that failed before the C19 fix commits (see C19_regressions)
    ["resize", "UFixed", 1, 0, 1, 5, 3, "TRUNCATE", "WRAP"],
    ["resize", "SFixed", 0, -1, 0, 0, 0, "ROUND", "WRAP"],
    ["resize", "SFixed", 0, -1, -1, 0, 0, "ROUND", "SATURATE"],
    ["resize", "SFixed", 0, 0, 0, -1, -1, "TRUNCATE", "SATURATE"],
    ["resize", "SFixed", 0, 0, -1, -1, -1, "TRUNCATE", "SATURATE"],
    ["resize", "UFixed", 0, 0, 0, -2, -2, "TRUNCATE", "SATURATE"],
    ["resize", "UFixed", 0, 0, 1, -2, -2, "ROUND", "SATURATE"],
    ["resize", "SFixed", 1, 0, -1, -1, -1, "TRUNCATE", "SATURATE"],
    ["resize", "SFixed", 1, -2, -1, 0, -1, "ROUND", "SATURATE"],
    ["resize", "SFixed", 2, -2, -3, 1, 0, "ROUND", "SATURATE"],
    # one per leaf of resize_fn (SFixed, UFixed)
    ["resize", "SFixed", 3, -2, -19, 3, -2, "TRUNCATE", "WRAP"],
    ["resize", "SFixed", 3, -2, -19, 1, -3, "TRUNCATE", "WRAP"],
    ["resize", "SFixed", 3, -2, 13, -4, -5, "TRUNCATE", "WRAP"],
    ["resize", "SFixed", 3, -2, -19, 1, 0, "TRUNCATE", "WRAP"],
    ["resize", "SFixed", 3, -2, -19, 1, 0, "ROUND", "WRAP"],
    ["resize", "SFixed", 3, -3, 21, 1, -1, "ROUND", "WRAP"],
    ["resize", "SFixed", 3, -2, -19, 1, -3, "TRUNCATE", "SATURATE"],
    ["resize", "SFixed", 3, -2, 29, 1, 0, "TRUNCATE", "SATURATE"],
    ["resize", "SFixed", 3, -2, 7, 1, 0, "ROUND", "SATURATE"],
    ["resize", "SFixed", 3, -2, -3, 1, 0, "ROUND", "SATURATE"],
    ["resize", "SFixed", 1, -2, -7, 3, -4, "ROUND", "SATURATE"],
    ["resize", "SFixed", 1, -2, -7, 3, -1, "TRUNCATE", "WRAP"],
    ["resize", "SFixed", 1, -2, 6, 3, -1, "ROUND", "WRAP"],
    ["resize", "UFixed", 3, -2, 45, 1, -3, "TRUNCATE", "WRAP"],
    ["resize", "UFixed", 3, -2, 45, 1, 0, "ROUND", "WRAP"],
    ["resize", "UFixed", 3, -2, 45, 1, 0, "ROUND", "SATURATE"],
    ["resize", "UFixed", 3, -2, 7, 1, 0, "ROUND", "SATURATE"],
    ["resize", "UFixed", 1, -2, 7, 3, -1, "ROUND", "WRAP"],
    ["resize", "UFixed", 1, -2, 7, 3, -4, "TRUNCATE", "SATURATE"],
    # malformed targets
    ["resize", "SFixed", 1, 0, 1, 0, 1, "TRUNCATE", "WRAP"],
    ["resize", "UFixed", 1, 0, 1, -1, 2, "ROUND", "SATURATE"],
    # arithmetic, equality, constructors
    ["add", "SFixed", 1, 0, -2, 3, -1, -16], ["sub", "SFixed", 1, 0, -2, 3, -1, -16],
    ["mul", "SFixed", 1, 0, -2, 3, -1, -16], ["sub", "UFixed", 1, 0, 1, 1, 0, 3],
    ["add", "UFixed", 2, -1, 15, 0, -3, 15], ["mul", "UFixed", 1, 0, 3, 3, -1, 31],
    ["eq", "SFixed", 3, -1, 5, 3, -1, 5], ["eq", "SFixed", 3, -1, 4, 4, 0, 2],
    ["eqnum", "SFixed", 1, 0, 1, 3, -1, "float"], ["eqnum", "SFixed", 1, 0, 1, 1, 0, "int"],
    ["eqnum", "UFixed", 1, -1, 3, 3, -1, "float"], ["eqnum", "SFixed", 1, 0, 1, 5, 0, "int"],
    ["ctor_num", "SFixed", 3, -1, 15, -1, "float"], ["ctor_num", "SFixed", 3, -1, -17, -1, "float"],
    ["ctor_num", "SFixed", 3, -1, -15, -2, "float"], ["ctor_num", "UFixed", 3, 1, 3, 1, "int"],
    ["ctor_vec", "SFixed", 3, -1, "Signed", 3, -2], ["ctor_vec", "SFixed", 3, -1, "Unsigned", 3, 5],
    ["ctor_vec", "UFixed", 3, -1, "Unsigned", 3, 5], ["ctor_vec", "UFixed", 3, -1, "Unsigned", 5, 5],
    ["ctor_fix", "SFixed", 4, -2, 3, -1, -5], ["ctor_fix", "SFixed", 4, -1, 3, -1, -5],
    ["ctor_fix", "UFixed", 4, -2, 3, -1, 5], ["ctor_fix", "SFixed", 2, -2, 3, -1, -5],
]

# integers above 2^53 (regression of the float division in _adjust_val); model and spec
BIG_CORPUS = [
    ["ctor_num", "SFixed", 60, 0, 2 ** 59 + 1, 0, "int"],
    ["ctor_num", "UFixed", 60, 0, 2 ** 59 + 1, 0, "int"],
    ["ctor_num", "SFixed", 60, 0, -(2 ** 59 + 1), 0, "int"],
    ["ctor_num", "UFixed", 70, 8, (2 ** 55 + 1) * 256, 0, "int"],
    ["ctor_num", "SFixed", 56, 0, 2 ** 53, 0, "int"],
    ["ctor_num", "UFixed", 56, 0, 2 ** 53 + 2, 0, "int"],
]


def gen_cases(ck):
    quick = ck.tier == "quick"
    cases = list(CORPUS)
    space = {}
    # --- resize: exhaustive
    lo, hi = (-2, 2) if quick else (-4, 4)
    fs = formats(lo, hi)
    n0 = len(cases)
    for kind in KINDS:
        for (sl, sr) in fs:
            rr = list(raw_range(kind, sl, sr))
            for (l, r) in fs:
                for rnd in RNDS:
                    for ovf in OVFS:
                        for raw in rr:
                            cases.append(["resize", kind, sl, sr, raw, l, r, rnd, ovf])
    space["resize"] = ("2 kinds x all source and target formats [l:r] with %d <= r <= l <= %d (%d formats) x "
                       "4 style pairs x ALL raw values: %d cases" % (lo, hi, len(fs), len(cases) - n0))
    # --- + - * == : exhaustive on a smaller format range
    lo2, hi2 = (-1, 1) if quick else (-2, 2)
    fs2 = formats(lo2, hi2)
    n0 = len(cases)
    for kind in KINDS:
        for (l1, r1) in fs2:
            for (l2, r2) in fs2:
                for a in raw_range(kind, l1, r1):
                    for b in raw_range(kind, l2, r2):
                        for op in ("add", "sub", "mul"):
                            cases.append([op, kind, l1, r1, a, l2, r2, b])
                        if (l1, r1) == (l2, r2) or (a + b) % 7 == 0:
                            cases.append(["eq", kind, l1, r1, a, l2, r2, b])
    space["arith"] = ("2 kinds x all format pairs with %d <= r <= l <= %d x ALL raw pairs x {+,-,*}; == on all "
                      "same-format raw pairs (and a 1/7 sample of different formats): %d cases" % (lo2, hi2, len(cases) - n0))
    # --- seeded wide formats (beyond the exhaustive box)
    n0 = len(cases)
    n_rand = 600 if quick else 6000
    for _ in range(n_rand):
        kind = ck.rng.choice(KINDS)

        def fmt():
            r = ck.rng.randint(-20, 12)
            return r + ck.rng.choice([0, 1, 2, 3, 7, 15, 31, 40]), r

        def rawv(l, r):
            b = raw_bounds(kind, l - r + 1)
            return ck.rng.choice([b[0], b[1], b[0] + 1, b[1] - 1, 0, -1 if kind == "SFixed" else 1,
                                  ck.rng.randint(*b), ck.rng.randint(*b), ck.rng.randint(*b)])
        (l1, r1), (l2, r2) = fmt(), fmt()
        a = max(raw_bounds(kind, l1 - r1 + 1)[0], min(raw_bounds(kind, l1 - r1 + 1)[1], rawv(l1, r1)))
        b = max(raw_bounds(kind, l2 - r2 + 1)[0], min(raw_bounds(kind, l2 - r2 + 1)[1], rawv(l2, r2)))
        which = ck.rng.random()
        if which < 0.5:
            cases.append(["resize", kind, l1, r1, a, l2, r2, ck.rng.choice(RNDS), ck.rng.choice(OVFS)])
        elif which < 0.9:
            cases.append([ck.rng.choice(["add", "sub", "mul"]), kind, l1, r1, a, l2, r2, b])
        else:
            cases.append(["eq", kind, l1, r1, a, l1, r1, ck.rng.choice([a, b if (l1, r1) == (l2, r2) else a, 0])])
    space["seeded"] = "%d seeded cases with widths up to 41, right bounds -20..12 (resize/add/sub/mul/eq)" % (len(cases) - n0)
    # --- constructors and == number: exhaustive on the small box
    lo3, hi3 = (-2, 2) if quick else (-3, 3)
    fs3 = formats(lo3, hi3)
    n0 = len(cases)
    for kind in KINDS:
        for (l, r) in fs3:
            w = l - r + 1
            blo, bhi = raw_bounds(kind, w)
            for e in (r - 1, r, r + 1):
                sc = 2 ** (e - (r - 1))          # m*2^e in units of 2^(r-1)
                m_lo = (2 * blo) // sc - 2
                m_hi = (2 * bhi) // sc + 2
                for m in range(m_lo, m_hi + 1):
                    hows = ["float"] + (["int"] if e >= 0 else [])
                    for how in hows:
                        cases.append(["ctor_num", kind, l, r, m, e, how])
                        for raw in {blo, bhi, 0, max(blo, min(bhi, (m * sc) // 2))}:
                            cases.append(["eqnum", kind, l, r, raw, m, e, how])
            for vk in ("Signed", "Unsigned"):
                for vw_ in range(1, 5):
                    vr = range(-(1 << (vw_ - 1)), 1 << (vw_ - 1)) if vk == "Signed" else range(0, 1 << vw_)
                    for val in vr:
                        cases.append(["ctor_vec", kind, l, r, vk, vw_, val])
            for (sl, sr) in fs3:
                for raw in raw_range(kind, sl, sr):
                    cases.append(["ctor_fix", kind, l, r, sl, sr, raw])
    space["ctor"] = ("2 kinds x all formats with %d <= r <= l <= %d x {numbers m*2^e, e in r-1..r+1, m across and "
                     "beyond the range, as float and (e>=0) as int; Signed/Unsigned vectors of width 1..4, all values; "
                     "objects of all formats of the box, all raw values; == against the numbers}: %d cases"
                     % (lo3, hi3, len(cases) - n0))
    return cases, space


# ----------------------------------------------------------------------------
# the check
# ----------------------------------------------------------------------------

def ensure_models():
    """Models/Fixed.vo and FixedProofs.vo must exist and be newer than their sources"""
    th = os.path.join(common.COQ_DIR, "theories")
    for rel in ("Models/Fixed", "Models/FixedProofs"):
        src, vo = os.path.join(th, rel + ".v"), os.path.join(th, rel + ".vo")
        deps = [src, os.path.join(th, "Models/Fixed.vo")] if rel.endswith("Proofs") else [src]
        if os.path.exists(vo) and all(os.path.getmtime(vo) >= os.path.getmtime(d) for d in deps):
            continue
        rc, out, err = common.coqc(src, timeout=1200)
        if rc != 0:
            return False, (out + err)[-3000:]
    return True, ""


def size_of(c):
    return sum(abs(x) for x in c if isinstance(x, int))


def run_real(cases):
    n = common.NCPU if len(cases) > 2000 else 1
    chunks = [cases[i::n] for i in range(n)]
    res = common.run_workers("c19_worker.py", [{"cases": ch} for ch in chunks], timeout=3000)
    real = [None] * len(cases)
    for i, rr in enumerate(res):
        real[i::n] = rr["results"]
    return real


def run(ck: common.Check, replay=None):
    ok, log = ensure_models()
    if not ok:
        ck.obligation(False)
        ck.violation({"build": "Models/Fixed"}, "the C19 model files no longer compile", {"log": log}, no_input=True)
        return
    ck.check_props("C19_Properties.v")
    ck.trusted += [
        "Models/Fixed.v as the rendering of cohdl/std/_fixed.py and of the Signed/Unsigned/BitVector primitives it calls "
        "(tied by this run: every generated case is evaluated by the real code and by the model inside Coq)",
        "harness/c19.py spec_check: the property statement in exact rational arithmetic (fractions.Fraction)",
        "harness/c19_worker.py: canonicalisation of results (format from the object's type, raw from the vector, error enum)",
    ]
    ck.assumptions += [
        "constants only: SFixed/UFixed methods evaluated by CPython on constant objects; the same methods traced by the "
        "compiler on signals are not covered by this check",
        "binary64 is not modelled: numbers reach the constructor model as exact m*2^e (the code's _adjust_val is exact "
        "too; its range test uses floats, exact on every generated case)",
        "the theorems quantify over all formats and values; the correspondence model=code is established on the "
        "enumerated spaces (coverage.space) and the seeded wide cases only",
    ]
    if replay is not None:
        cases, space, big = [list(c) for c in replay["cases"]], {"replay": "%d cases" % len(replay["cases"])}, []
    else:
        cases, space = gen_cases(ck)
        cases = cases[:len(CORPUS)] + list(BIG_CORPUS) + cases[len(CORPUS):]
        big = []
    ck.cov["space"] = space
    real = run_real(cases + big)
    real_big = real[len(cases):]
    real = real[:len(cases)]

    # ---- model vs code, inside Coq
    terms, idx_of_term, unrepresentable = [], [], []
    for i, (c, r) in enumerate(zip(cases, real)):
        o = out_coq(r)
        if o is None:
            unrepresentable.append(i)
            continue
        terms.append("(%s, %s)" % (case_coq(c), o))
        idx_of_term.append(i)
    shard = max(400, min(20000, -(-len(terms) // (2 * common.NCPU))))
    bad_terms = common.coq_bad_indices(ck, "c19", PREAMBLE, "op * out", terms,
                                       PRED, shard=shard, timeout=3000)
    mismatch = set(idx_of_term[j] for j in bad_terms) | set(unrepresentable)

    # ---- spec on every real result
    viol = {}        # key-json -> [key, what, [(size, case, real, expected)]]
    spec_bad = set()
    for i, (c, r) in enumerate(zip(cases + big, real + real_big)):
        ck.evaluations += 1
        ck.hist("ops", c[0] + ":" + c[1])
        ck.hist("real_result", r[0] if r[0] != "err" else "err:" + r[1])
        is_big = i >= len(cases)
        sc = spec_check(c, r)
        ok_model = is_big or i not in mismatch
        ck.obligation(ok_model and sc is None)
        if sc is None:
            if c[0] != "resize" or (c[2], c[3]) != (c[5], c[6]):
                ck.nontrivial(json.dumps(c))
            continue
        spec_bad.add(i)
        key, what, expected = sc
        ent = viol.setdefault(json.dumps(key, sort_keys=True), [key, what, []])
        ent[2].append((size_of(c), c, r, expected))
    for kj in sorted(viol):
        key, what, lst = viol[kj]
        lst.sort(key=lambda t: (t[0], json.dumps(t[1])))
        _, c, r, expected = lst[0]
        ck.violation(key, what, {
            "case": c, "observed": r, "expected": expected, "python": oneliner(c),
            "failing_inputs_in_this_run": len(lst),
            "more_examples": [{"case": x[1], "observed": x[2], "expected": x[3]} for x in lst[1:6]],
            "cases": [c],
        })

    # ---- model != code where the spec is still satisfied: the model is out of date (or the change is harmless)
    stale = sorted(i for i in mismatch if i not in spec_bad)
    if stale:
        diag = common.coq_eval_terms(ck, "c19diag", PREAMBLE, ["%s (%s)" % (RUN, case_coq(cases[i])) for i in stale[:8]])
        groups = {}
        for i in stale:
            c = cases[i]
            groups.setdefault((c[0], c[1]), []).append(i)
        for (op, kind), idxs in sorted(groups.items()):
            # neighbouring inputs = same op/kind (and formats, for resize) among the enumerated cases
            def near(j, i=idxs[0]):
                a, b = cases[i], cases[j]
                return a[0] == b[0] and a[1] == b[1] and (a[0] != "resize" or (a[2:4] + a[5:7]) == (b[2:4] + b[5:7]))
            neighbours = [j for j in spec_bad if j < len(cases) and near(j)]
            i = min(idxs, key=lambda j: size_of(cases[j]))
            ck.violation({"op": op, "kind": kind, "case": "model_disagrees_spec_holds"},
                         "Models/Fixed.v no longer reproduces the real code (the property still holds on these inputs)",
                         {"case": cases[i], "observed": real[i], "python": oneliner(cases[i]),
                          "model_outputs_first_stale_cases": diag, "stale_cases": len(idxs),
                          "neighbouring_spec_violation": cases[neighbours[0]] if neighbours else None,
                          "cases": [cases[i]], "broken": "correspondence Models/Fixed.v <-> cohdl/std/_fixed.py"},
                         no_input=not neighbours)
    ck.cov["model_vs_code_mismatches"] = len(mismatch)
    ck.cov["spec_violating_cases"] = len(spec_bad)
    for c, r in list(zip(cases, real))[:3] + list(zip(cases, real))[len(CORPUS) + 1000:len(CORPUS) + 1003]:
        ck.sample({"case": c, "real": r})
    if replay is None:
        ck.cov["exhaustive"] = True
    ck.cov["rule"] = ("cases = fixed corpus + complete enumeration of the spaces in coverage.space + seeded wide formats; "
                      "every case runs the real code, the Coq model (agrees, vm_compute) and the Fraction spec; "
                      "non-trivial = the real result satisfies the spec and the case is not an identity resize; "
                      "distinct by the full case tuple")
