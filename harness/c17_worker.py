"""C17 worker: runs the REAL cohdl serialisation code on type compositions described in JSON.

stdin : {"cases": [...], "bitfields": [...], "serialized": [...]}
stdout: one JSON line {"cases": [...], "bitfields": [...], "serialized": [...]}

type description (tdesc):
  ["bit"] ["bool"] ["bv",n] ["u",n] ["s",n] ["carr",T,n] ["sarr",T,n]
  ["rec",[T...],style] ["enum",U,flag] ["sfix",l,r] ["ufix",l,r] ["bf",w]
  style = {"how": "type"|"class"|"inherit"|"templ", "split":[sizes...], "w": template width}
value description (vdesc): bit 0/1, bool 0/1, bv/bf "msb..lsb", u/s int, carr/sarr/rec list,
  enum = vdesc of the underlying, sfix/ufix raw int.
dump (of a real object, by RUNTIME type): ["bit",b] ["bool",b] ["bv",s] ["u",n,v] ["s",n,v] ["carr",[..]]
  ["sarr",content_dump] ["rec",[..]] ["enum",d] ["sfix",l,r,raw] ["ufix",l,r,raw] ["bf",s]
"""
from __future__ import annotations
import json
import sys
import types

import cohdl
from cohdl import std, Bit, BitVector, Unsigned, Signed, Array
from cohdl._core._boolean import _Boolean
from cohdl.std.bitfield import BitField, Field
from cohdl.std._fixed import SFixed, UFixed

decay = cohdl.TypeQualifier.decay

MOD = types.ModuleType("c17_types")
sys.modules["c17_types"] = MOD
MOD.__dict__.update(dict(std=std, Bit=Bit, BitVector=BitVector, Unsigned=Unsigned, Signed=Signed, Array=Array,
                         cohdl=cohdl, BitField=BitField, Field=Field))
exec("class WArg(int):\n    pass\n", MOD.__dict__)

_cache = {}
_counter = [0]


def fresh(prefix):
    _counter[0] += 1
    return "%s%d" % (prefix, _counter[0])


def leaf_expr(t, style):
    """source text for a field type; with a templated record, direct vector fields of width style['w'] use WArg"""
    if style.get("how") == "templ" and t[0] in ("bv", "u", "s") and t[1] == style.get("w"):
        return {"bv": "BitVector", "u": "Unsigned", "s": "Signed"}[t[0]] + "[WArg]"
    ty = build_type(t)
    name = fresh("T")
    setattr(MOD, name, ty)
    return name


def build_record(fields, style):
    how = style.get("how", "type")
    names = ["f%d" % i for i in range(len(fields))]
    exprs = [leaf_expr(t, style) for t in fields]
    cname = fresh("Rec")
    if how == "type":
        cls = type(cname, (std.Record,), {"__annotations__": dict(zip(names, exprs)), "__module__": "c17_types"})
        setattr(MOD, cname, cls)
        return cls
    if how == "class":
        src = "from __future__ import annotations\nclass %s(std.Record):\n" % cname
        src += "".join("    %s: %s\n" % (n, e) for n, e in zip(names, exprs)) or "    pass\n"
        exec(src, MOD.__dict__)
        return getattr(MOD, cname)
    if how == "inherit":
        # chain of derived records; group sizes in style["split"] (a 0 gives a derived class without new fields)
        base = "std.Record"
        pos = 0
        cls = None
        for gi, size in enumerate(style["split"]):
            nm = "%s_%d" % (cname, gi)
            part = list(zip(names, exprs))[pos:pos + size]
            pos += size
            if gi % 2 == 0:
                src = "from __future__ import annotations\nclass %s(%s):\n" % (nm, base)
                src += "".join("    %s: %s\n" % (n, e) for n, e in part) or "    pass\n"
                exec(src, MOD.__dict__)
            else:
                cls = type(nm, (getattr(MOD, base),), {"__annotations__": dict(part), "__module__": "c17_types"})
                setattr(MOD, nm, cls)
            base = nm
            if style.get("touch"):
                # the class is serialised as soon as it is declared: the base is in use before the derived one exists
                try:
                    std.count_bits(getattr(MOD, nm))
                except AssertionError:
                    pass        # a record without fields cannot be serialised
        assert pos == len(names)
        return getattr(MOD, base)
    if how == "templ" and style.get("split"):
        base = "std.Record[WArg]"
        pos = 0
        for gi, size in enumerate(style["split"]):
            nm = "%s_%d" % (cname, gi)
            part = list(zip(names, exprs))[pos:pos + size]
            pos += size
            src = "from __future__ import annotations\nclass %s(%s):\n" % (nm, base)
            src += "".join("    %s: %s\n" % (n, e) for n, e in part) or "    pass\n"
            exec(src, MOD.__dict__)
            base = nm
            if style.get("touch"):
                try:
                    std.count_bits(getattr(MOD, nm)[style["w"]])
                except AssertionError:
                    pass
        assert pos == len(names)
        return getattr(MOD, base)[style["w"]]
    if how == "templ":
        src = "from __future__ import annotations\nclass %s(std.Record[WArg]):\n" % cname
        src += "".join("    %s: %s\n" % (n, e) for n, e in zip(names, exprs)) or "    pass\n"
        exec(src, MOD.__dict__)
        return getattr(MOD, cname)[style["w"]]
    raise AssertionError(how)


def build_bitfield_class(w, fields):
    """fields: [[name, ["bit",i] | ["vec",hi,lo,kind] | ["sub",off,w,fields]], ...]"""
    ann = {}
    for name, f in fields:
        if f[0] == "bit":
            ann[name] = Field[f[1]]
        elif f[0] == "vec":
            fv = Field[f[1]:f[2]]
            ann[name] = {"bv": fv, "u": fv.Unsigned, "s": fv.Signed, "BitVector": fv.BitVector}[f[3]]
        elif f[0] == "sub":
            inner = build_bitfield_class(f[2], f[3])
            ann[name] = inner[f[1]] if f[4] == "int" else inner[f[1] + f[2] - 1:f[1]]
        else:
            raise AssertionError(f)
    return type(fresh("BF"), (BitField[w],), {"__annotations__": ann, "__module__": "c17_types"})


def build_type(t):
    key = json.dumps(t)
    if key in _cache:
        return _cache[key]
    k = t[0]
    if k == "bit":
        r = Bit
    elif k == "bool":
        r = bool
    elif k == "bv":
        r = BitVector[t[1]]
    elif k == "u":
        r = Unsigned[t[1]]
    elif k == "s":
        r = Signed[t[1]]
    elif k == "carr":
        r = Array[build_type(t[1]), t[2]]
    elif k == "sarr":
        r = std.Array[build_type(t[1]), t[2]]
    elif k == "rec":
        r = build_record(t[1], t[2])
    elif k == "enum":
        u = build_type(t[1])
        base = std.FlagEnum if t[2] else std.Enum
        first = build_value(t[1], zero_value(t[1]))
        r = type(fresh("En"), (base[u],), {"first": first, "__module__": "c17_types"})
    elif k == "sfix":
        r = std.SFixed[t[1]:t[2]]
    elif k == "ufix":
        r = std.UFixed[t[1]:t[2]]
    elif k == "bf":
        w = t[1]
        fields = [["lo", ["bit", 0]], ["all", ["vec", w - 1, 0, "bv"]]]
        r = build_bitfield_class(w, fields)
    else:
        raise AssertionError(t)
    _cache[key] = r
    return r


def zero_value(t):
    k = t[0]
    if k in ("bit", "bool", "u", "s", "sfix", "ufix"):
        return 0
    if k in ("bv", "bf"):
        return "0" * t[1]
    raise AssertionError(t)


def build_value(t, v):
    k = t[0]
    if k == "bit":
        return Bit(bool(v))
    if k == "bool":
        return bool(v)
    if k == "bv":
        return BitVector[t[1]](v)
    if k == "u":
        return Unsigned[t[1]](v)
    if k == "s":
        return Signed[t[1]](v)
    if k == "carr":
        return build_type(t)([build_value(t[1], e) for e in v])
    if k == "sarr":
        return build_type(t)([build_value(t[1], e) for e in v], _qualifier_=std.Value)
    if k == "rec":
        # std.Ref: the members are the objects built here (what Record._from_bits_ does itself); a by-value copy
        # of a std.Array member iterates it with Ref element access, which non-trivial element types refuse
        items = [("f%d" % i, build_value(ft, fv)) for i, (ft, fv) in enumerate(zip(t[1], v))]
        ctor = t[2].get("ctor", "kw")
        n = len(items)
        if ctor == "pos":
            return build_type(t)(*[x for _, x in items], _qualifier_=std.Ref)
        if ctor == "mix":
            return build_type(t)(*[x for _, x in items[:n // 2]], **dict(reversed(items[n // 2:])), _qualifier_=std.Ref)
        if ctor == "rev":
            items = items[::-1]
        elif ctor == "rot":
            items = items[n // 2:] + items[:n // 2]
        return build_type(t)(**dict(items), _qualifier_=std.Ref)
    if k == "enum":
        return build_type(t)(build_value(t[1], v), _unsafe_init=True)
    if k == "sfix":
        w = t[1] - t[2] + 1
        return build_type(t)(raw=Signed[w](v))
    if k == "ufix":
        w = t[1] - t[2] + 1
        return build_type(t)(raw=Unsigned[w](v))
    if k == "bf":
        return build_type(t)(BitVector[t[1]](v), _qualifier_=std.Value)
    raise AssertionError(t)


def bits_str(bv):
    bv = decay(bv)
    assert isinstance(bv, BitVector), "to_bits did not return a BitVector: %r" % type(bv)
    s = str(bv)
    assert len(s) == bv.width and set(s) <= {"0", "1"}, "non-binary bits %r" % s
    return s


def dump(obj, t=None, gets=None):
    """canonical dump by runtime type; `t` (the description, when the shapes agree) is only used to
    record std.Array.get_elem observations in `gets`"""
    o = decay(obj)
    if isinstance(o, bool) or isinstance(o, _Boolean):
        return ["bool", 1 if bool(o) else 0]
    if isinstance(o, Bit):
        return ["bit", 1 if bool(o) else 0]
    if isinstance(o, Signed):
        return ["s", o.width, o.to_int()]
    if isinstance(o, Unsigned):
        return ["u", o.width, o.to_int()]
    if isinstance(o, BitVector):
        return ["bv", bits_str(o)]
    if isinstance(o, Array):
        et = t[1] if t is not None and t[0] == "carr" else None
        return ["carr", [dump(o[i], et, gets) for i in range(len(o))]]
    if isinstance(o, std.Array):
        content = dump(o._content)
        res = ["sarr", content]
        if gets is not None and t is not None and t[0] == "sarr":
            elems = [dump(o.get_elem(i, std.Value), t[1], gets) for i in range(len(o))]
            gets.append({"ty": t[1], "arr": res, "elems": elems})
        return res
    if isinstance(o, std.Record):
        names = list(type(o)._cohdlstd_record_annotations.keys())
        fts = t[1] if t is not None and t[0] == "rec" and len(t[1]) == len(names) else [None] * len(names)
        return ["rec", [dump(getattr(o, n), ft, gets) for n, ft in zip(names, fts)]]
    if isinstance(o, std.Enum):
        return ["enum", dump(o._val, t[1] if t is not None and t[0] == "enum" else None, gets)]
    if isinstance(o, SFixed):
        return ["sfix", type(o).left(), type(o).right(), decay(o._val).to_int()]
    if isinstance(o, UFixed):
        return ["ufix", type(o).left(), type(o).right(), decay(o._val).to_int()]
    if isinstance(o, BitField):
        return ["bf", bits_str(o._vec)]
    raise AssertionError("cannot dump %r" % type(o))


def err_kind(ex):
    return type(ex).__name__ + ": " + str(ex)[:160]


def run_case(c):
    t = c["ty"]
    out = {"id": c.get("id")}
    try:
        T = build_type(t)
        out["count"] = std.count_bits(T)
    except BaseException as ex:  # noqa
        out["count"] = None
        out["err"] = err_kind(ex)
        return out
    vals = []
    for v in c.get("vals", []):
        r = {}
        try:
            x = build_value(t, v)
            r["count_inst"] = std.count_bits(x)
            bits = std.to_bits(x)
            r["bits"] = bits_str(bits)
            r["x"] = dump(x)
            gets = []
            y = std.from_bits[T](decay(bits))
            r["back"] = dump(y, t, gets)
            r["back_bits"] = bits_str(std.to_bits(y))
            r["gets"] = gets
            r["type_ok"] = isinstance(decay(y), _Boolean if T is bool else T)
        except BaseException as ex:  # noqa
            r["err"] = err_kind(ex)
        vals.append(r)
    out["vals"] = vals
    pats = []
    for b in c.get("pats", []):
        r = {}
        try:
            gets = []
            y = std.from_bits[T](BitVector[len(b)](b))
            r["dump"] = dump(y, t, gets)
            r["bits"] = bits_str(std.to_bits(y))
            r["gets"] = gets
            r["type_ok"] = isinstance(decay(y), _Boolean if T is bool else T)
        except BaseException as ex:  # noqa
            r["err"] = err_kind(ex)
        pats.append(r)
    out["pats"] = pats
    return out


def resolve(bf, path):
    o = bf
    for n in path:
        o = getattr(o, n)
    return o


def run_bitfield(c):
    """c: {"w", "fields", "vec", "ops": [{"path": [names], "wr": bits}]}"""
    out = {"id": c.get("id"), "ops": []}
    try:
        cls = build_bitfield_class(c["w"], c["fields"])
        out["count"] = std.count_bits(cls)
    except BaseException as ex:  # noqa
        out["err"] = err_kind(ex)
        return out
    for op in c["ops"]:
        r = {}
        try:
            vec = cohdl.Variable[BitVector[c["w"]]](c["vec"])
            bf = cohdl.Variable[cls](BitVector[c["w"]](c["vec"])) if c.get("owned") else cls(vec)
            fld = resolve(bf, op["path"])
            d = decay(fld)
            r["kind"] = type(d).__mro__[0].__name__ if not isinstance(d, BitVector) else (
                "s" if isinstance(d, Signed) else "u" if isinstance(d, Unsigned) else "bv")
            r["read"] = ("1" if bool(d) else "0") if isinstance(d, Bit) else bits_str(std.as_bitvector(d))
            r["ser"] = bits_str(std.to_bits(bf))
            # write through the view the field holds into the storage of vec
            wr = op["wr"]
            if isinstance(d, Bit):
                d._assign(Bit(wr == "1"))
            else:
                d._assign(type(d)(BitVector[len(wr)](wr)) if not type(d) is BitVector[len(wr)] else BitVector[len(wr)](wr))
            r["after"] = bits_str(decay(std.to_bits(bf))) if c.get("owned") else bits_str(decay(vec))
            r["after_ser"] = bits_str(std.to_bits(bf))
        except BaseException as ex:  # noqa
            r["err"] = err_kind(ex)
        out["ops"].append(r)
    return out


def run_serialized(c):
    """Serialized[T] adapter: c = {"ty", "val", "pat"}"""
    t = c["ty"]
    out = {"id": c.get("id")}
    T = build_type(t)
    S = std.Serialized[T]
    for name, fn in [
        ("make_bits", lambda: bits_str(S(build_value(t, c["val"])).bits())),
        ("make_value", lambda: dump(S(build_value(t, c["val"])).value())),
        ("raw_bits", lambda: bits_str(S.from_raw(BitVector[len(c["pat"])](c["pat"])).bits())),
        ("raw_value", lambda: dump(S.from_raw(BitVector[len(c["pat"])](c["pat"])).value())),
        ("raw_value_bits", lambda: bits_str(std.to_bits(S.from_raw(BitVector[len(c["pat"])](c["pat"])).value()))),
        ("copy_bits", lambda: bits_str(S(S(build_value(t, c["val"]))).bits())),
        ("copy_value", lambda: dump(S(S(build_value(t, c["val"]))).value())),
        ("bad_raw", lambda: bits_str(S.from_raw(BitVector[len(c["pat"]) + 1]("0" + c["pat"])).bits())),
    ]:
        try:
            out[name] = fn()
        except BaseException as ex:  # noqa
            out[name] = {"err": err_kind(ex)}
    return out


def main():
    payload = json.load(sys.stdin)
    res = {
        "cases": [run_case(c) for c in payload.get("cases", [])],
        "bitfields": [run_bitfield(c) for c in payload.get("bitfields", [])],
        "serialized": [run_serialized(c) for c in payload.get("serialized", [])],
    }
    sys.stdout.write("\n" + json.dumps(res) + "\n")


if __name__ == "__main__":
    main()
