"""C01 - coroutine-to-state-machine translation is clock accurate.

generated async bodies -> real compiler -> VHDL -> parsed design d_k
per program: Theorem case_ok : forall ins, trace (vhdl d_k) ins = trace (Coro.ref p_k) ins
proved by the verified product-reachability checker (explore_sound).
"""
from __future__ import annotations
import json
import os

import common
import vhdl_reader as R

N_IN = 2          # condition inputs c0, c1
MARKS = 16


# ----------------------------------------------------------------------------
# program AST -> source / Coq
# ----------------------------------------------------------------------------

def cond_src(c):
    k = c[0]
    if k == "in":
        return f"self.c{c[1]}"
    if k == "not":
        return f"(~{cond_src(c[1])})"
    if k == "and":
        return f"({cond_src(c[1])} & {cond_src(c[2])})"
    if k == "or":
        return f"({cond_src(c[1])} | {cond_src(c[2])})"
    if k == "var":
        return f"(v == {c[1]})"
    raise AssertionError(c)


def cond_coq(c):
    k = c[0]
    if k == "in":
        return f"(CIn {c[1]})"
    if k == "not":
        return f"(CNot {cond_coq(c[1])})"
    if k == "and":
        return f"(CAnd {cond_coq(c[1])} {cond_coq(c[2])})"
    if k == "or":
        return f"(COr {cond_coq(c[1])} {cond_coq(c[2])})"
    if k == "var":
        return f"(CVar {c[1]}%Z)"
    raise AssertionError(c)


class SrcPrinter:
    def __init__(self):
        self.subs = []

    def block(self, ss, ind):
        out = []
        if not ss:
            out.append(ind + "pass")
        for s in ss:
            out.extend(self.stmt(s, ind))
        return out

    def stmt(self, s, ind):
        k = s[0]
        if k == "skip":
            return [ind + "pass"]
        if k == "eff":
            return [ind + "v @= v + 1", ind + "self.cnt <<= v", ind + f"self.mark <<= {s[1]}"]
        if k == "if":
            out = [ind + f"if {cond_src(s[1])}:"] + self.block(s[2], ind + "    ")
            if s[3]:
                out += [ind + "else:"] + self.block(s[3], ind + "    ")
            return out
        if k == "while":
            c = "True" if s[1] is None else cond_src(s[1])
            return [ind + f"while {c}:"] + self.block(s[2], ind + "    ")
        if k == "whilefalse":
            return [ind + "while False:"] + self.block(s[1], ind + "    ")
        if k == "await":
            if s[1] == "true":
                return [ind + "await cohdl.true"]
            if s[1] == "false":
                return [ind + "await cohdl.false"]
            if s[1][0] == "in":
                return [ind + f"await {cond_src(s[1])}"]
            return [ind + f"await cohdl.expr({cond_src(s[1])})"]
        if k in ("break", "continue", "return"):
            return [ind + k]
        if k == "wait":
            obj = "std" if s[2] == "std" else "waiter"
            return [ind + f"await {obj}.wait_for({s[1]})"]
        if k == "waitin":
            obj = "std" if s[2] == "std" else "waiter"
            return [ind + f"await {obj}.wait_for(self.dur" + (", allow_zero=True)" if s[1] else ")")]
        if k == "call":
            name = f"sub_{len(self.subs)}"
            self.subs.append(None)
            idx = len(self.subs) - 1
            body = self.block(s[1], "            ")
            self.subs[idx] = [f"        async def {name}():", "            nonlocal v"] + body
            return [ind + f"await {name}()"]
        raise AssertionError(s)


def uses(prog, kinds):
    for s in prog:
        if s[0] in kinds:
            return True
        for sub in s[1:]:
            if isinstance(sub, list) and uses(sub, kinds):
                return True
    return False


def to_source(prog, name="E"):
    pr = SrcPrinter()
    body = pr.block(prog, "            ")
    lines = [
        "import cohdl",
        "from cohdl import Bit, Port, Unsigned, Variable, Null, Signal",
        "from cohdl import std",
        "",
        f"class {name}(cohdl.Entity):",
        "    clk = Port.input(Bit)",
    ]
    for i in range(N_IN):
        lines.append(f"    c{i} = Port.input(Bit)")
    if uses(prog, ("waitin",)):
        lines.append("    dur = Port.input(Unsigned[3])")
    lines += [
        "    cnt = Port.output(Unsigned[2], default=Null)",
        "    mark = Port.output(Unsigned[4], default=Null)",
        "",
        "    def architecture(self):",
        "        v = Variable[Unsigned[2]](Null, name='v')",
    ]
    if "waiter.wait_for" in "\n".join(body + [l for sub in pr.subs for l in sub]):
        lines.append("        waiter = std.Waiter(7)")
    for sub in pr.subs:
        lines += sub
    lines += [
        "        @std.sequential(std.Clock(self.clk))",
        "        async def proc():",
        "            nonlocal v",
    ] + body
    return "\n".join(lines) + "\n"


def block_coq(ss):
    if not ss:
        return "Skip"
    parts = [stmt_coq(s) for s in ss]
    res = parts[-1]
    for p in reversed(parts[:-1]):
        res = f"(Seq {p} {res})"
    return res


def stmt_coq(s):
    k = s[0]
    if k == "skip":
        return "Skip"
    if k == "eff":
        return f"(Eff {s[1]}%Z)"
    if k == "if":
        return f"(If {cond_coq(s[1])} {block_coq(s[2])} {block_coq(s[3])})"
    if k == "while":
        c = "WTrue" if s[1] is None else f"(WCond {cond_coq(s[1])})"
        return f"(While {c} {block_coq(s[2])})"
    if k == "whilefalse":
        return f"(WhileFalse {block_coq(s[1])})"
    if k == "await":
        if s[1] == "true":
            return "(Await ATrue)"
        if s[1] == "false":
            return "(Await AFalse)"
        return f"(Await (ACond {cond_coq(s[1])}))"
    if k == "break":
        return "Break"
    if k == "continue":
        return "Continue"
    if k == "return":
        return "Return"
    if k == "call":
        return f"(Call {block_coq(s[1])})"
    if k == "wait":
        return f"(Wait {s[1]}%Z)"
    if k == "waitin":
        return f"(WaitIn {'true' if s[1] else 'false'})"
    raise AssertionError(s)


# ----------------------------------------------------------------------------
# mirror of Models/Lower.v [in_grammar] (decides which programs get the second case theorem; the
# generated file re-proves [in_grammar p = true] in the kernel, so a divergence of this mirror from
# the Coq definition makes the case fail - it cannot make a false theorem pass)
# ----------------------------------------------------------------------------

REF_FUEL = 4096


def ast_block(ss):
    if not ss:
        return ("Skip",)
    parts = [ast_stmt(x) for x in ss]
    res = parts[-1]
    for q in reversed(parts[:-1]):
        res = ("Seq", q, res)
    return res


def ast_stmt(s):
    k = s[0]
    if k == "skip":
        return ("Skip",)
    if k == "eff":
        return ("Eff",)
    if k == "if":
        return ("If", ast_block(s[2]), ast_block(s[3]))
    if k == "while":
        return ("While", ast_block(s[2]))
    if k == "whilefalse":
        return ("WhileFalse",)
    if k == "await":
        return ("Await", s[1] if s[1] in ("true", "false") else "cond")
    if k == "break":
        return ("Break",)
    if k == "continue":
        return ("Continue",)
    if k == "return":
        return ("Return",)
    if k == "call":
        return ("Call", ast_block(s[1]))
    if k == "wait":
        return ("Wait", int(s[1]))     # std.wait_for and Waiter.wait_for are the same statement of the model
    if k == "waitin":
        return ("WaitIn", bool(s[1]))
    return ("Other",)


def g_fo(s, f):
    k = s[0]
    if k == "Skip":
        return f
    if k == "Seq":
        return g_fo(s[2], g_fo(s[1], f))
    if (k == "Await" and s[1] == "true") or k == "WhileFalse":
        return f
    if k == "Call":
        return g_fo(s[1], f)
    if k == "Wait":
        return s[1] == 1 and f
    return False


def g_zfall(s, f):
    k = s[0]
    if k in ("Skip", "Eff"):
        return True
    if k == "Seq":
        return g_zfall(s[1], f) and g_zfall(s[2], g_fo(s[1], f))
    if k == "If":
        return g_zfall(s[1], False) or g_zfall(s[2], False)
    if (k == "Await" and s[1] != "false") or k in ("WhileFalse", "While"):
        return f
    if k == "Call":
        return g_zfall(s[1], f) or g_zret(s[1], f)
    if k == "Wait":
        return s[1] == 1 and f
    if k == "WaitIn":
        return s[1]
    return False


def g_zret(s, f):
    k = s[0]
    if k == "Return":
        return True
    if k == "Seq":
        return g_zret(s[1], f) or (g_zfall(s[1], f) and g_zret(s[2], g_fo(s[1], f)))
    if k == "If":
        return g_zret(s[1], False) or g_zret(s[2], False)
    if k == "While":
        return f and g_zret(s[1], False)
    return False


def g_zcnt(s, f):
    k = s[0]
    if k == "Continue":
        return True
    if k == "Seq":
        return g_zcnt(s[1], f) or (g_zfall(s[1], f) and g_zcnt(s[2], g_fo(s[1], f)))
    if k == "If":
        return g_zcnt(s[1], False) or g_zcnt(s[2], False)
    return False


def g_wf(s, inloop, incall, first, da=False, ds=False):
    k = s[0]
    if k in ("Skip", "Eff", "Await", "WhileFalse"):
        return True
    if k == "Seq":
        return g_wf(s[1], inloop, incall, first, da, ds) and g_wf(s[2], inloop, incall, g_fo(s[1], first), da, ds)
    if k == "If":
        return g_wf(s[1], inloop, incall, False, da, ds) and g_wf(s[2], inloop, incall, False, da, ds)
    if k == "While":
        return g_wf(s[1], True, incall, False, da, ds) and not g_zcnt(s[1], False)
    if k in ("Break", "Continue"):
        return inloop
    if k == "Return":
        return incall and not first
    if k == "Call":
        return g_wf(s[1], False, True, first, da, ds)
    if k == "Wait":
        return s[1] >= 1 and not (s[1] == 1 and first)
    if k == "WaitIn":
        return da and (s[1] or ds)
    return False


def g_fneed(s, nf):
    k = s[0]
    if k == "Seq":
        return 1 + g_fneed(s[1], 1 + g_fneed(s[2], nf))
    if k == "If":
        return 1 + max(g_fneed(s[1], nf), g_fneed(s[2], nf))
    if k == "While":
        return 1 + max(g_fneed(s[1], 1 + nf), nf)
    if k == "Call":
        return 1 + g_fneed(s[1], 1 + nf)
    return 1 + nf


def g_fchk(s, nf):
    k = s[0]
    if k == "Seq":
        return g_fchk(s[1], 1 + g_fneed(s[2], nf)) and g_fchk(s[2], nf)
    if k == "If":
        return g_fchk(s[1], nf) and g_fchk(s[2], nf)
    if k == "While":
        nl = 2 + g_fneed(s[1], 1 + nf)
        return g_fneed(s[1], 1 + nf) <= REF_FUEL and nf <= REF_FUEL and g_fchk(s[1], nl)
    if k in ("Await", "WhileFalse", "Wait", "WaitIn"):
        return nf <= REF_FUEL
    if k == "Call":
        return g_fchk(s[1], 1 + nf)
    return True


def grammar_of(prog):
    """None, or the Coq predicate of Models/Lower.v the program satisfies: "in_grammar", or
    "in_grammar_dur true|false" for programs with run-time durations (true: some wait_for(self.dur) without
    allow_zero, the theorem then assumes dur >= 1 - the case alphabet excludes 0 in exactly these cases)"""
    a = ast_block(prog)
    if not (g_fchk(a, 1) and g_fneed(a, 1) <= REF_FUEL):
        return None
    if g_wf(a, False, False, True):
        return "in_grammar"
    if uses(prog, ("waitin",)):
        ds = not all_allow_zero(prog)
        if g_wf(a, False, False, True, True, ds):
            return "in_grammar_dur " + ("true" if ds else "false")
    return None


def in_grammar(prog):
    return grammar_of(prog) == "in_grammar"


# ----------------------------------------------------------------------------
# generator
# ----------------------------------------------------------------------------

class Gen:
    def __init__(self, rng, max_stmts=10, max_depth=3):
        self.rng = rng
        self.max_stmts = max_stmts
        self.max_depth = max_depth
        self.budget = 0
        self.mark = 0

    def cond(self, allow_var=True):
        r = self.rng.random()
        if r < 0.55:
            return ("in", self.rng.randrange(N_IN))
        if r < 0.7:
            return ("not", ("in", self.rng.randrange(N_IN)))
        if r < 0.8:
            return ("and", ("in", 0), ("not", ("in", 1)))
        if r < 0.88:
            return ("or", ("in", 0), ("in", 1))
        if allow_var:
            return ("var", self.rng.randrange(4))
        return ("in", self.rng.randrange(N_IN))

    def eff(self):
        self.mark = self.mark % (MARKS - 1) + 1
        return ("eff", self.mark)

    def program(self):
        self.budget = self.rng.randint(2, self.max_stmts)
        self.mark = 0
        return self.block(0, False, False, top=True)

    def block(self, depth, in_loop, in_call, top=False, need_susp_first=False):
        n = self.rng.randint(1, 4)
        out = []
        if need_susp_first and self.rng.random() < 0.85:
            out.append(self.await_())
        for j in range(n):
            if self.budget <= 0:
                break
            self.budget -= 1
            out.append(self.stmt(depth, in_loop, in_call))
        # control transfer at the end of a nested block
        if not top and self.rng.random() < 0.45:
            opts = []
            if in_loop:
                opts += ["break", "continue", "break", "continue"]
            if in_call:
                opts += ["return", "return"]
            if opts:
                out.append((self.rng.choice(opts),))
        if not out:
            out.append(self.eff())
        return out

    def await_(self):
        r = self.rng.random()
        if r < 0.8:
            return ("await", self.cond(allow_var=False))
        if r < 0.95:
            return ("await", "true")
        return ("await", "false")

    def stmt(self, depth, in_loop, in_call):
        r = self.rng.random()
        deep = depth >= self.max_depth
        if r < 0.32 or (deep and r < 0.6):
            return self.eff()
        if r < 0.55 or deep:
            return self.await_()
        if r < 0.75:
            t = self.block(depth + 1, in_loop, in_call)
            e = self.block(depth + 1, in_loop, in_call) if self.rng.random() < 0.6 else []
            return ("if", self.cond(), t, e)
        if r < 0.92:
            c = None if self.rng.random() < 0.5 else self.cond()
            body = self.block(depth + 1, True, False, need_susp_first=self.rng.random() < 0.5)
            if depth + 2 <= self.max_depth and self.rng.random() < 0.35:
                # nested loop followed by a break / continue of this loop
                inner = ("while", self.cond(), [self.eff(), self.await_()])
                tail = ("if", self.cond(), [(self.rng.choice(["break", "continue"]),)], [])
                body = [self.await_()] + body[:2] + [inner, tail] + ([self.eff()] if self.rng.random() < 0.5 else [])
                body = [x for x in body if x[0] not in ("break", "continue", "return")][:-0 or None]
                if not any(x[0] == "if" and x[2] and x[2][0][0] in ("break", "continue") for x in body):
                    body.append(tail)
            return ("while", c, body)
        if r < 0.97:
            return ("call", self.block(depth + 1, False, True))
        return ("whilefalse", [self.eff()])


def E(k):
    return ("eff", k)


C0, C1 = ("in", 0), ("in", 1)
NC0 = ("not", ("in", 0))

# hand-written seeds: one per anchored mechanism (shapes of the 30 upstream coroutine tests)
CORPUS = [
    [E(1)],
    [E(1), ("await", C0), E(2)],
    [("await", C0), E(1)],
    [("await", C0), ("await", C1), E(1)],
    [("await", "true"), E(1)],
    [("await", "true"), ("await", C0), E(1)],
    [E(1), ("await", "true"), E(2)],
    [E(1), ("await", "false"), E(2)],
    [("await", "false")],
    # `await false` as the very first action followed by loops / awaits: nothing after it may ever run
    # (fixed in /repo: the first state stayed "empty" and a following while loop was placed in it)
    [("await", "false"), ("while", C0, [("await", C1), E(1), ("continue",)])],
    [("await", "false"), ("while", None, [("await", C0), E(1)])],
    [("await", "false"), ("await", C0), E(1)],
    [("await", "false"), ("call", [("await", NC0)]), ("while", C0, [("await", C1), E(1), ("continue",)])],
    [("call", [("await", "false"), ("while", None, [("await", C0), E(1)]), ("await", C1)])],
    [E(1), ("await", "false"), ("while", C0, [("await", C1), E(2)])],
    [E(1), ("await", C0)],
    [("if", C0, [("await", C1), E(1)], [E(2)]), E(3)],
    [("if", C0, [("await", C1), E(1)], [("await", NC0), E(2)]), E(3)],
    [E(1), ("if", C0, [E(2)], [("await", C1)]), E(3), ("await", C0)],
    [("if", C0, [E(1)], []), ("await", C1), E(2)],
    [("while", None, [E(1), ("await", C0), ("if", C1, [("continue",)], [("break",)])]), E(7), ("await", C0)],
    [E(1), ("while", None, [E(2), ("await", C0), ("if", C1, [("continue",)], [("break",)])]), E(7), ("await", C0)],
    [("while", C0, [E(1)]), E(2)],
    [E(3), ("while", C0, [E(1)]), E(2)],
    [E(3), ("while", C0, [E(1), ("await", C1), ("if", ("var", 2), [("continue",)], []), E(4)]), E(2)],
    [E(3), ("while", C0, [("await", C1), ("if", C0, [("break",)], []), E(4)]), E(2)],
    [("while", None, [("await", C0), E(1)])],
    [("while", None, [E(1), ("await", C0), E(2), ("await", C1)])],
    [("whilefalse", [E(1)]), E(2)],
    [E(1), ("whilefalse", [E(5)]), E(2)],
    [("call", [E(1), ("await", C0), E(2)]), E(3)],
    [("call", [("await", C0), ("if", C1, [("return",)], []), E(2), ("await", C1)]), E(3)],
    [E(1), ("call", [("if", C0, [("return",)], [("await", C1)]), E(2)]), E(3)],
    [("call", [("while", None, [("await", C0), ("if", C1, [("return",)], []), E(4)])]), E(3)],
    [("while", None, [("await", C0), ("while", C1, [E(1), ("await", C0), ("if", ("var", 1), [("break",)], [])]), E(2)])],
    [E(1), ("if", C0, [("if", C1, [("await", C0), E(2)], [E(3)])], [("await", C1)]), E(4)],
    [("while", C0, [("await", C1), ("if", C0, [("continue",)], [E(1)]), ("await", "true")]), E(2), ("await", C1)],
    # nested loops: break / continue of the OUTER loop textually after the inner loop
    [("while", None, [E(1), ("await", C0), ("while", C1, [E(2), ("await", C0)]), ("if", C0, [("break",)], []), E(3)]), E(6), ("await", C1)],
    [("while", None, [("await", C0), ("while", None, [E(1), ("await", C1), ("if", C0, [("break",)], [])]), ("if", C1, [("break",)], [("continue",)])]), E(5)],
    [E(1), ("while", C0, [("await", C1), ("while", C1, [("await", C0), ("if", C0, [("continue",)], []), E(2)]), ("if", ("var", 2), [("continue",)], [("break",)])]), E(4)],
    [("call", [("while", None, [("await", C0), ("while", C1, [E(1), ("await", C0), ("if", C0, [("return",)], [])]), ("if", C1, [("break",)], [])]), E(2)]), E(3), ("await", C0)],
    # a loop body with an await-free path to its end AND a `continue` after an await on another path: the body inlined at the
    # continue site must still return to the loop head when it takes the await-free path
    [("while", None, [("if", C0, [("await", C1), ("if", NC0, [("continue",)], []), E(1)], [E(2)])])],
    [E(3), ("while", None, [("if", C0, [("await", C1), ("if", NC0, [("continue",)], [("break",)]), E(1)], [E(2)])]), E(4), ("await", C1)],
    [("while", C1, [("if", C0, [E(1), ("await", C1), ("if", NC0, [("continue",)], []), E(2)], [])]), E(5), ("await", C0)],
    # a leading loop whose body starts with an await
    [("while", None, [("await", C0), E(1)]), E(2)],
    [("while", None, [("await", C0), E(1), ("if", C1, [("break",)], [])]), E(2), ("await", C1)],
]


# ----------------------------------------------------------------------------
# the check
# ----------------------------------------------------------------------------

CASE_TMPL = """{header}From Cohdl Require Import Equiv.VhdlTS Vhdl.DeadVars Equiv.StoreTS Models.Coro.
Definition d : design := {design}.
Definition p : stmt := {prog}.
Definition alphabet : list (list value) := product [{cands}].
Definition assume (_ : rstate) (_ : list value) := true.
{count}Theorem case_ok : forall ins, admissible (ref_step p) alphabet assume rinit ins ->
  traceA (sstep d false) (power_up_s d) ins = traceB (ref_step p) rinit ins.
Proof.
  apply (vcheck_s_sound d false (ref_step p) rstate_eqb rstate_eqb_ok rhash alphabet assume 400000 rinit);
    vm_cast_no_check (eq_refl true).
Qed.
{low}"""

# second case theorem (programs of Lower.in_grammar): the emitted design against the machine that the
# Gallina model of the lowering produces for the same program.  LOW_DIRECT explores the product
# design x machine; LOW_DERIVED obtains the same statement from case_ok and the all-programs theorem
# LowerProofs.lower_correct (no second exploration).
LOW_HEAD = """From Cohdl Require Import Equiv.RefTS Models.Lower Models.LowerProofs.
Example in_gr : GRAMMAR p = true. Proof. vm_cast_no_check (eq_refl true). Qed.
Definition m : machine := Eval vm_compute in (lower p).
Definition assumeZ (_ : list Z) (_ : list value) := true.
"""
LOW_DIRECT = LOW_HEAD + """Theorem case_low : forall ins, admissible (mstepZ (lower p)) alphabet assumeZ minitZ ins ->
  traceA (sstep d false) (power_up_s d) ins = traceB (mstepZ (lower p)) minitZ ins.
Proof.
  assert (Hm : lower p = m) by (vm_compute; reflexivity). rewrite Hm.
  apply (rcheck_s_sound d false (mstepZ m) alphabet assumeZ 400000 minitZ); vm_cast_no_check (eq_refl true).
Qed.
Eval vm_compute in (length m).
"""
LOW_DERIVED = LOW_HEAD + """Theorem case_low : forall ins, admissible (ref_step p) alphabet assume rinit ins ->
  traceA (sstep d false) (power_up_s d) ins = traceB (mstepZ (lower p)) minitZ ins.
Proof. intros ins H. rewrite (lower_correct p in_gr ins). exact (case_ok ins H). Qed.
Eval vm_compute in (length m).
"""

# programs with run-time durations: the all-programs theorem has an assumption on the duration input, which
# the (finite) case alphabet satisfies - checked in the kernel by alpha_ok
LOW_DERIVED_DUR = LOW_HEAD + """Example alpha_ok : forallb (fun i => okdb true DS (in_bits i)) alphabet = true.
Proof. vm_cast_no_check (eq_refl true). Qed.
Theorem case_low : forall ins, admissible (ref_step p) alphabet assume rinit ins ->
  traceA (sstep d false) (power_up_s d) ins = traceB (mstepZ (lower p)) minitZ ins.
Proof.
  intros ins H. rewrite (lower_correct_dur_alphabet DS p alphabet in_gr alpha_ok (ref_step p) assume rinit ins H).
  exact (case_ok ins H).
Qed.
Eval vm_compute in (length m).
"""

DIAG_LOW = """Definition verdict_low := Eval vm_compute in (rcheck_s_bfs d false (mstepZ m) alphabet assumeZ 400000 minitZ).
Eval vm_compute in verdict_low.
Eval vm_compute in (match verdict_low with
  | VCex path => Some (traceA (sstep d false) (power_up_s d) path, traceB (mstepZ m) minitZ path)
  | _ => None end).
"""


DIAG = """Eval vm_compute in (conc_all_ok (auto_Ts d) d).
Definition verdict := Eval vm_compute in (vcheck_s_bfs d false (ref_step p) rstate_eqb rhash alphabet assume 400000 rinit).
Eval vm_compute in verdict.
Eval vm_compute in (match verdict with
  | VCex path => Some (traceA (sstep d false) (power_up_s d) path, traceB (ref_step p) rinit path)
  | _ => None end).
"""
COUNT = "Eval vm_compute in (vcheck_s d false (ref_step p) rstate_eqb rhash alphabet assume 400000 rinit).\n"


def diagnose(path):
    src = open(path).read()
    src = src[:src.index("Theorem case_ok")].replace(COUNT, "")
    dpath = path[:-2] + "_diag.v"
    with open(dpath, "w") as f:
        f.write(src + DIAG)
    rc, out, err = common.coqc(dpath, 3000)
    outs = common.coq_outputs(out)
    while outs and not outs[0].startswith("V"):
        if outs[0].strip() in ("false", "(false, true)", "(true, false)", "(false, false)"):
            return "error", {"log": "dead-variable side condition conc_all_ok is false: " + (out + err)[-600:]}
        outs = outs[1:]
    verdict = outs[0] if outs else ""
    if verdict.startswith("VCex"):
        return "cex", {"path": verdict, "traces": outs[1] if len(outs) > 1 else ""}
    if verdict.startswith("VFuel"):
        return "fuel", {}
    if verdict.startswith("VOk"):
        return "ref_ok", {"log": (out + err)[-1500:]}
    return "error", {"log": (out + err)[-1500:]}


def diagnose_low(path):
    """the design agrees with ref_step p; look for an input path on which it differs from mstep (lower p)"""
    src = open(path).read()
    if "Theorem case_low" not in src:
        return "error", {}
    src = src[:src.index("Theorem case_low")].replace(COUNT, "")
    # keep the definitions, drop the (possibly failing) proofs
    a = src.index("Theorem case_ok")
    b = src.index("Qed.", a) + len("Qed.\n")
    src = src[:a] + src[b:]
    import re as _re
    src = _re.sub(r"Example in_gr : (in_grammar\w*(?: true| false)?) p = true\. Proof\. vm_cast_no_check \(eq_refl true\)\. Qed\.\n",
                  r"Eval vm_compute in (\1 p).\n", src)
    dpath = path[:-2] + "_diaglow.v"
    with open(dpath, "w") as f:
        f.write(src + DIAG_LOW)
    rc, out, err = common.coqc(dpath, 3000)
    outs = common.coq_outputs(out)
    if outs and outs[0].strip() == "false":
        return "grammar", {"log": "harness mirror of Lower.in_grammar disagrees with the Coq definition"}
    outs = [o for o in outs if o.startswith("V") or o.startswith("Some") or o.startswith("None")]
    verdict = outs[0] if outs else ""
    if verdict.startswith("VCex"):
        return "cex", {"path": verdict, "traces": outs[1] if len(outs) > 1 else ""}
    if verdict.startswith("VOk"):
        return "low_ok", {"log": (out + err)[-1500:]}
    return "error", {"log": (out + err)[-1500:]}


def features(prog, acc=None, depth=0):
    acc = acc if acc is not None else {}
    for s in prog:
        k = s[0]
        acc[k] = acc.get(k, 0) + 1
        acc["depth"] = max(acc.get("depth", 0), depth)
        if k == "if":
            features(s[2], acc, depth + 1)
            features(s[3], acc, depth + 1)
        elif k == "while":
            features(s[2], acc, depth + 1)
        elif k in ("call", "whilefalse"):
            features(s[1], acc, depth + 1)
    return acc


def expected_rejection(err):
    return ("continue-statement cannot be defined in first state" in err
            or "infinite recursion" in err)


def all_allow_zero(prog):
    for s in prog:
        if s[0] == "waitin" and not s[1]:
            return False
        for sub in s[1:]:
            if isinstance(sub, list) and not all_allow_zero(sub):
                return False
    return True


def make_case(ck, name, prog, vhdl, count=False, low=None):
    """low: None | "direct" | "derived" - the second case theorem (see LOW_DIRECT / LOW_DERIVED)"""
    ents, d = R.read_design(vhdl)
    term = R.design_to_coq(d)
    by = {x.name: x for x in d.sigs}
    cl = []
    for n in d.inputs:
        if by[n].ty.kind == "logic":
            cl.append("bit_cands")
        elif uses(prog, ("waitin",)) and not all_allow_zero(prog):
            cl.append("(tl (vec_cands KUns %d%%N))" % by[n].ty.w)
        else:
            cl.append("(vec_cands KUns %d%%N)" % by[n].ty.w)
    cands = "; ".join(cl)
    path = os.path.join(ck.gen, name + ".v")
    with open(path, "w") as f:
        f.write(CASE_TMPL.format(header=common.COQ_HEADER, design=term, prog=block_coq(prog), cands=cands,
                                 count=COUNT if count else "",
                                low={None: "", "direct": LOW_DIRECT, "derived": LOW_DERIVED, "derived_dur": LOW_DERIVED_DUR}[low]
                                .replace("GRAMMAR", grammar_of(prog) or "in_grammar")
                                .replace("DS", (grammar_of(prog) or "").split(" ")[-1])))
    return path


def classify(rc, out, err):
    """returns (status, info) with status in ok | failed"""
    outs = common.coq_outputs(out)
    verdict = outs[0] if outs else ""
    if rc == 0:
        if verdict.startswith("VOk"):
            nums = [int(x) for x in verdict.replace("%N", "").split()[1:3]]
            return "ok", {"states": nums[0], "transitions": nums[1]}
        return "ok", {"states": 0, "transitions": 0}
    return "failed", {"log": (out + err)[-800:]}
    # unreachable legacy branches below
    if verdict.startswith("VCex"):
        return "cex", {"path": verdict, "traces": outs[1] if len(outs) > 1 else ""}
    if verdict.startswith("VFuel"):
        return "fuel", {}
    return "error", {"log": (out + err)[-1500:]}


def run(ck: common.Check, replay=None):
    ck.check_props("C01_Properties.v")
    ck.trusted += [
        "fail-closed VHDL reader + net-collapse elaboration (harness/vhdl_reader.py)",
        "Vhdl.Sem as a rendering of the VHDL-93 simulation cycle, two-valued logic (modelled, validated on 167 upstream designs)",
        "Coro.ref (Models/Coro.v) as the rendering of 'executing the Python source as a coroutine' (DESIGN.md Appendix A)",
        "generator AST -> CoHDL source printer (harness/c01.py)",
        "Lower.lower (Models/Lower.v) as a rendering of IrGenerator's open-block lowering: tied per program "
        "(case_low: emitted design = mstep (lower p) for all input sequences; state counts compared), not proved about the Python code",
    ]
    ck.assumptions += [
        "programs quantifier: for the MODEL of the lowering it is proved (C01_lower_correct, all programs of Lower.in_grammar); "
        "for the real compiler it is sampled: corpus + seeded generator (sizes in coverage); inputs/schedules quantifier is proved per program by explore_sound",
        "inputs change while the clock is low; one rising edge per step",
    ]
    progs = []
    if replay is not None:
        progs = [("replay", replay["program"])]
    else:
        for i, p in enumerate(CORPUS):
            progs.append((f"corpus{i:03d}", p))
        n_rand = 60 if ck.tier == "quick" else 1500
        g = Gen(ck.rng, max_stmts=10 if ck.tier == "quick" else 14, max_depth=3)
        for i in range(n_rand):
            progs.append((f"rand{i:04d}", g.program()))
    # C01_NO_LOWER=1 switches the second (lowering-model) theorem off: only for timing comparisons
    run_programs(ck, progs, low=os.environ.get("C01_NO_LOWER") is None)


def vhdl_state_count(vhdl):
    """number of states of the emitted state machine (1 = collapsed to a plain process)"""
    import re
    m = re.search(r"type\s+state_\w+\s+is\s*\(([^)]*)\)", vhdl)
    return len(re.findall(r"state_\d+", m.group(1))) if m else 1


def run_programs(ck, progs, what="emitted state machine and coroutine semantics differ on an input sequence", low=False):
    designs = [{"name": n, "source": to_source(p), "entity": "E"} for n, p in progs]
    res = common.run_worker("compile_worker.py", {"dir": os.path.join(ck.gen, "src"), "designs": designs, "jobs": common.NCPU},
                            timeout=3000)["results"]
    cases = []
    n_gram = 0
    for (name, prog), r in zip(progs, res):
        ck.evaluations += 1
        f = features(prog)
        if not r["ok"]:
            ck.hist("rejected", r["error"][:60])
            if not expected_rejection(r["error"]):
                ck.count("unexpected_rejections")
                ck.sample({"rejected": r["error"][:200], "program": prog})
            continue
        mode = None
        gram = grammar_of(prog) if low else None
        if gram is not None:
            # explore design x lowered machine (corpus, replays, thorough tier: all; quick tier: three of
            # four generated programs); the others get the same statement through case_ok + lower_correct,
            # which exercises the all-programs theorem on a concrete in_grammar proof
            direct = ck.tier != "quick" or not name.startswith("rand") or n_gram % 4 != 3 or gram != "in_grammar"
            mode = "direct" if direct else "derived"
            if gram != "in_grammar" and ck.tier == "quick":
                # run-time durations: the product exploration over the duration alphabet is the long pole of the
                # quick tier; quick = composition with the all-programs theorem, thorough = exploration
                mode = "derived_dur"
            n_gram += 1
        try:
            path = make_case(ck, name, prog, r["vhdl"], count=(len(cases) % 10 == 0), low=mode)
        except R.Unparsed as e:
            ck.obligation(False)
            ck.violation({"program": json.dumps(prog)}, "emitted VHDL left the parsed subset: " + str(e),
                         {"program": prog, "source": to_source(prog), "vhdl": r["vhdl"]}, no_input=True)
            continue
        cases.append((name, prog, r["vhdl"], path, mode))
        for k in f:
            ck.hist("constructs", k)
        ck.hist("stmts", sum(v for k, v in f.items() if k != "depth"))
    outs = common.coqc_many([c[3] for c in cases], timeout=1800)
    states = trans = 0
    for (name, prog, vhdl, path, mode), (rc, out, err) in zip(cases, outs):
        status, info = classify(rc, out, err)
        low_status, low_info = ("ok" if status == "ok" else "unknown"), {}
        if status != "ok":
            status, info = diagnose(path)
            if status == "ref_ok" and mode is not None:
                # the property holds for this program; the second theorem is the one that failed
                status, info = "ok", {"states": 0, "transitions": 0}
                low_status, low_info = diagnose_low(path)
        if mode is not None and status == "ok":
            ck.hist("lower_tie", mode)
            if low_status == "ok":
                ck.obligation(True)
                nums = [o.strip() for o in common.coq_outputs(out)]
                n_model = int(nums[-1]) if nums and nums[-1].isdigit() else -1
                n_vhdl = vhdl_state_count(vhdl)
                ck.hist("lower_state_count", "equal" if n_model == n_vhdl else "model %d / emitted %d" % (n_model, n_vhdl))
                ck.hist("lower_states", n_model)
                if n_model != n_vhdl:
                    ck.sample({"state_count_differs": {"model": n_model, "emitted": n_vhdl}, "program": prog}, limit=8)
            else:
                ck.obligation(False)
                rep = {"program": prog, "source": to_source(prog), "vhdl": vhdl, "case_file": path,
                       "status": low_status, "correspondence": "Models/Lower.v lower  <->  IrGenerator._apply_impl (Await/While/"
                       "Break/Continue/If) + StatemachineContext: emitted design vs mstep (lower p)"}
                rep.update(low_info)
                ck.violation({"program": json.dumps(prog), "tie": "lower"},
                             "emitted design equals the coroutine semantics but differs from the Gallina model of the "
                             "lowering (Lower.lower is out of date or wrong; status %s)" % low_status, rep, no_input=True)
        if status == "ok":
            ck.obligation(True)
            states += info["states"]
            trans += info["transitions"]
            f = features(prog)
            if f.get("await", 0) + f.get("while", 0) >= 1:
                ck.nontrivial(prog)
            if info["states"]:
                ck.sample({"program": prog, "product_states": info["states"], "transitions": info["transitions"]}, limit=4)
            if low_status in ("ok", "unknown"):
                os.unlink(path)
                for ext in (".vo", ".glob", ".vok", ".vos"):
                    try:
                        os.unlink(path[:-2] + ext)
                    except OSError:
                        pass
        else:
            ck.obligation(False)
            rep = {"program": prog, "source": to_source(prog), "vhdl": vhdl, "case_file": path, "status": status}
            rep.update(info)
            if status == "cex":
                ck.violation({"program": json.dumps(prog)}, what, rep)
            elif status == "fuel":
                # state space of a generated program above the exploration budget, no difference found by the breadth-first
                # search within its budget: undecided for lack of resources, withdrawn (see explore.run_cases)
                ck.obligations -= 1
                ck.cov.setdefault("undecided_state_space_above_budget", []).append(json.dumps(prog))
            else:
                ck.violation({"program": json.dumps(prog)},
                             "case obligation not discharged (%s)" % status, rep, no_input=True)
    ck.cov["programs"] = len(cases)
    ck.cov["states"] = states
    ck.cov["transitions"] = trans
    if low:
        ck.cov["programs_in_lower_grammar"] = n_gram
    ck.cov["rule"] = ("programs = fixed corpus (one per anchored mechanism) + seeded random bodies over "
                      "if/while/await/break/continue/return/call; non-trivial = accepted, proved, and containing "
                      "at least one await or while; distinct by program text")
