"""Import the upstream reference designs (tests/reference_builds/**) without cocotb.

The test modules import cocotb, cocotb_test, cocotbext.*; none is installed.  We
put permissive stub modules into sys.modules so the module bodies (which define
the cohdl.Entity under test) can be executed.  Only the entity classes are used.
"""
from __future__ import annotations
import importlib
import os
import pkgutil
import sys
import types


class _Anything:
    def __init__(self, *a, **k):
        pass

    def __call__(self, *a, **k):
        # used as decorator (cocotb.test()) or constructor
        if len(a) == 1 and callable(a[0]) and not k:
            return a[0]
        return _Anything()

    def __getattr__(self, name):
        if name.startswith("__") and name.endswith("__"):
            raise AttributeError(name)
        return _Anything()

    def __mro_entries__(self, bases):
        return (object,)

    def __iter__(self):
        return iter(())


class _StubModule(types.ModuleType):
    def __getattr__(self, name):
        if name.startswith("__") and name.endswith("__"):
            raise AttributeError(name)
        return _Anything()


STUBS = [
    "cocotb", "cocotb.clock", "cocotb.triggers", "cocotb.binary", "cocotb.handle", "cocotb.types",
    "cocotb_test", "cocotb_test.simulator",
    "cocotbext", "cocotbext.axi", "cocotbext.spi", "cocotbext.uart",
]


def install_stubs():
    for name in STUBS:
        if name not in sys.modules:
            m = _StubModule(name)
            m.__path__ = []
            sys.modules[name] = m


def repo_root():
    return os.environ.get("COHDL_SRC", "/repo")


def iter_reference_modules():
    root = os.path.join(repo_root(), "tests", "reference_builds")
    for dirpath, dirnames, filenames in sorted(os.walk(root)):
        dirnames.sort()
        for f in sorted(filenames):
            if f.startswith("test_") and f.endswith(".py"):
                rel = os.path.relpath(os.path.join(dirpath, f), os.path.join(repo_root(), "tests"))
                yield rel[:-3].replace(os.sep, ".")


def load_entity(modname):
    """returns (entity class, module) for a reference test module; entity = the
    cohdl.Entity subclass defined in the module whose name equals the module's
    last component, else the last Entity subclass defined there"""
    import cohdl

    install_stubs()
    tests = os.path.join(repo_root(), "tests")
    if tests not in sys.path:
        sys.path.insert(0, tests)
    mod = importlib.import_module(modname)
    last = modname.split(".")[-1]
    cands = [
        v for v in vars(mod).values()
        if isinstance(v, type) and issubclass(v, cohdl.Entity) and v is not cohdl.Entity and v.__module__ == mod.__name__
    ]
    for c in cands:
        if c.__name__ == last:
            return c, mod
    if not cands:
        raise LookupError("no entity in " + modname)
    return cands[-1], mod
