"""Fail-closed reader for the VHDL-93 subset printed by cohdl's backend.

parse_library(text) -> Library (entities in emission order)
elaborate(lib, top) -> Design  (hierarchy flattened by net collapse)
design_to_coq(design) -> Coq term text of type Cohdl.Vhdl.Syntax.design

Anything outside the subset raises Unparsed (never skipped).
"""
from __future__ import annotations
import re
from dataclasses import dataclass, field


class Unparsed(Exception):
    def __init__(self, msg, line=None):
        super().__init__(f"{msg}" + (f"  [line: {line!r}]" if line is not None else ""))
        self.msg = msg
        self.line = line


# ----------------------------------------------------------------------------
# tokens
# ----------------------------------------------------------------------------

_TOKEN_RE = re.compile(
    r"""\s*(?:
      (?P<str>"[01]*")
    | (?P<chr>'[01]')
    | (?P<int>\d+)
    | (?P<id>[A-Za-z][A-Za-z0-9_]*)
    | (?P<op><=|>=|/=|=>|:=|[-+*/&=<>(),':;])
    )""",
    re.X,
)

KEYWORD_OPS = {"and", "or", "xor", "not", "mod", "rem", "abs", "downto", "to", "when", "others", "select", "with"}


def tokenize(s, line=None):
    pos = 0
    out = []
    s = s.rstrip()
    while pos < len(s):
        m = _TOKEN_RE.match(s, pos)
        if not m or m.end() == pos:
            raise Unparsed(f"cannot tokenize at {s[pos:pos+20]!r}", line or s)
        pos = m.end()
        kind = m.lastgroup
        out.append((kind, m.group(kind)))
    return out


# ----------------------------------------------------------------------------
# types
# ----------------------------------------------------------------------------

@dataclass(frozen=True)
class Ty:
    kind: str            # logic bool int vec enum arr
    vk: str = ""         # slv uns sgn
    w: int = 0
    name: str = ""       # enum / array type name
    n: int = 0           # number of literals / elements
    elem: "Ty|None" = None


VEC_TYPES = {"std_logic_vector": "slv", "unsigned": "uns", "signed": "sgn"}

FN1 = {
    "to_integer": "FToInteger",
    "cohdl_bool_to_std_logic": "FBoolToSl",
    "unsigned": "FConvUns",
    "signed": "FConvSgn",
    "std_logic_vector": "FConvSlv",
}
QUAL = {"unsigned": "FQualUns", "signed": "FQualSgn", "std_logic_vector": "FQualSlv"}
FN2 = {
    "resize": "FResize",
    "shift_left": "FShl",
    "shift_right": "FShr",
    "to_unsigned": "FToUnsigned",
    "to_signed": "FToSigned",
}
EDGE = {"rising_edge": True, "falling_edge": False}
PREDEFINED = set(FN1) | set(FN2) | set(EDGE) | {"std_logic", "boolean", "integer", "natural", "true", "false"}

BINOPS = {
    "+": "OAdd", "-": "OSub", "*": "OMul", "/": "ODiv", "mod": "OMod", "rem": "ORem",
    "and": "OAnd", "or": "OOr", "xor": "OXor", "&": "OConcat",
    "=": "OEq", "/=": "ONe", "<": "OLt", "<=": "OLe", ">": "OGt", ">=": "OGe",
}


# ----------------------------------------------------------------------------
# AST (plain tuples)
#   expr: ('lit', value) ('name', ident) ('idx', e, i) ('slice', e, hi, lo)
#         ('un', op, e) ('bin', op, a, b) ('f1', f, e) ('f2', f, a, b) ('edge', rising, ident)
#   value: ('L', b) ('V', kind, w, v) ('B', b) ('I', z) ('E', typename, pos, litname) ('A', [values])
#   target: (ident, [sel])  sel: ('idx', expr) | ('slice', hi, lo)
#   stmt: ('null',) ('sig', target, e) ('var', target, e) ('if', c, [s], [s])
#         ('case', e, [([choices], [s])], others|None) ('assert', e)
# ----------------------------------------------------------------------------

@dataclass
class Scope:
    objects: dict = field(default_factory=dict)     # lower name -> ('sig'|'var'|'const', decl)
    enum_lits: dict = field(default_factory=dict)   # lower name -> ('E', typename, pos, name)
    types: dict = field(default_factory=dict)       # lower name -> Ty
    parent: "Scope|None" = None

    def lookup_obj(self, name):
        s = self
        while s is not None:
            if name.lower() in s.objects:
                return s.objects[name.lower()]
            s = s.parent
        return None

    def lookup_lit(self, name):
        s = self
        while s is not None:
            if name.lower() in s.enum_lits:
                return s.enum_lits[name.lower()]
            s = s.parent
        return None

    def lookup_type(self, name):
        s = self
        while s is not None:
            if name.lower() in s.types:
                return s.types[name.lower()]
            s = s.parent
        return None


class ExprParser:
    def __init__(self, toks, scope: Scope, line):
        self.t = toks
        self.i = 0
        self.scope = scope
        self.line = line

    def peek(self):
        return self.t[self.i] if self.i < len(self.t) else (None, None)

    def next(self):
        tok = self.peek()
        self.i += 1
        return tok

    def expect(self, val):
        k, v = self.next()
        if v != val:
            raise Unparsed(f"expected {val!r}, got {v!r}", self.line)

    def at_end(self):
        return self.i >= len(self.t)

    def peek_kw(self):
        k, v = self.peek()
        return v.lower() if k == "id" else v

    # a bare bit-string literal takes its type from the other operand (overload resolution)
    def kind_of(self, e):
        k = e[0]
        if k == "lit":
            return e[1][1] if e[1][0] == "V" and len(e[1]) < 5 else None
        if k == "name":
            o = self.scope.lookup_obj(e[1])
            if o is not None and o[1].ty.kind == "vec":
                return o[1].ty.vk
            if o is not None and o[1].ty.kind == "arr" and o[1].ty.elem.kind == "vec":
                return "arr:" + o[1].ty.elem.vk
            return None
        if k == "slice":
            return self.kind_of(e[1])
        if k == "idx":
            kk = self.kind_of(e[1])
            return kk[4:] if kk and kk.startswith("arr:") else None
        if k == "f1":
            return {"FConvUns": "uns", "FConvSgn": "sgn", "FConvSlv": "slv", "FQualUns": "uns", "FQualSgn": "sgn",
                    "FQualSlv": "slv"}.get(e[1])
        if k == "f2":
            if e[1] in ("FResize", "FShl", "FShr"):
                return self.kind_of(e[2])
            return {"FToUnsigned": "uns", "FToSigned": "sgn"}.get(e[1])
        if k == "un":
            return self.kind_of(e[2])
        if k == "bin" and e[1] in ("OAdd", "OSub", "OMul", "ODiv", "OMod", "ORem", "OAnd", "OOr", "OXor"):
            return self.kind_of(e[2]) or self.kind_of(e[3])
        return None

    def retag(self, a, b):
        def bare(x):
            return x[0] == "lit" and x[1][0] == "V" and len(x[1]) == 5
        if bare(a) and not bare(b):
            kb = self.kind_of(b)
            if kb in ("uns", "sgn"):
                a = ("lit", ("V", kb, a[1][2], a[1][3]))
        elif bare(b) and not bare(a):
            ka = self.kind_of(a)
            if ka in ("uns", "sgn"):
                b = ("lit", ("V", ka, b[1][2], b[1][3]))
        return a, b

    # expression ::= relation { logop relation }
    def expression(self):
        e = self.relation()
        while self.peek_kw() in ("and", "or", "xor"):
            op = self.next()[1].lower()
            r = self.relation()
            e, r = self.retag(e, r)
            e = ("bin", BINOPS[op], e, r)
        return e

    def relation(self):
        e = self.simple()
        if self.peek()[1] in ("=", "/=", "<", "<=", ">", ">="):
            op = self.next()[1]
            r = self.simple()
            e, r = self.retag(e, r)
            e = ("bin", BINOPS[op], e, r)
        return e

    def simple(self):
        neg = False
        if self.peek()[1] == "-":
            self.next()
            neg = True
        elif self.peek()[1] == "+":
            self.next()
        e = self.term()
        if neg:
            e = self._neg(e)
        while self.peek()[1] in ("+", "-", "&"):
            op = self.next()[1]
            r = self.term()
            if op != "&":
                e, r = self.retag(e, r)
            e = ("bin", BINOPS[op], e, r)
        return e

    @staticmethod
    def _neg(e):
        if e[0] == "lit" and e[1][0] == "I":
            return ("lit", ("I", -e[1][1]))
        return ("un", "UNeg", e)

    def term(self):
        e = self.factor()
        while self.peek_kw() in ("*", "/", "mod", "rem"):
            op = self.next()[1].lower()
            r = self.factor()
            e = ("bin", BINOPS[op], e, r)
        return e

    def factor(self):
        kw = self.peek_kw()
        if kw == "abs":
            self.next()
            return ("un", "UAbs", self.primary())
        if kw == "not":
            self.next()
            return ("un", "UNot", self.primary())
        return self.primary()

    def primary(self):
        k, v = self.next()
        if k == "str":
            bits = v[1:-1]
            return ("lit", ("V", "slv", len(bits), int(bits, 2) if bits else 0, "bare"))
        if k == "chr":
            return ("lit", ("L", v[1] == "1"))
        if k == "int":
            return ("lit", ("I", int(v)))
        if v == "(":
            e = self.expression()
            self.expect(")")
            return e
        if v == "-":
            return self._neg(self.primary())
        if k != "id":
            raise Unparsed(f"unexpected token {v!r}", self.line)
        return self.name(v)

    def name(self, ident):
        low = ident.lower()
        obj = self.scope.lookup_obj(ident)
        # qualified expression  T'(expr)
        if self.peek()[1] == "'" and obj is None:
            if low not in QUAL:
                raise Unparsed(f"unsupported qualified expression {ident}'", self.line)
            self.next()
            self.expect("(")
            e = self.expression()
            self.expect(")")
            if e[0] == "lit" and e[1][0] == "V":
                kind = {"unsigned": "uns", "signed": "sgn", "std_logic_vector": "slv"}[low]
                return ("lit", ("V", kind, e[1][2], e[1][3]))
            return ("f1", QUAL[low], e)
        if obj is None:
            if low == "true":
                return ("lit", ("B", True))
            if low == "false":
                return ("lit", ("B", False))
            lit = self.scope.lookup_lit(ident)
            if lit is not None:
                return ("lit", lit)
            if low in EDGE:
                self.expect("(")
                k, sig = self.next()
                self.expect(")")
                if k != "id" or self.scope.lookup_obj(sig) is None:
                    raise Unparsed("edge function on a non-signal", self.line)
                return ("edge", EDGE[low], sig)
            if low in FN1:
                self.expect("(")
                e = self.expression()
                self.expect(")")
                return self.postfix(("f1", FN1[low], e))
            if low in FN2:
                self.expect("(")
                a = self.expression()
                self.expect(",")
                b = self.expression()
                self.expect(")")
                return self.postfix(("f2", FN2[low], a, b))
            raise Unparsed(f"undeclared identifier {ident!r}", self.line)
        if low in PREDEFINED or low in QUAL:
            # a declared object hides a predefined name; whether the text relies on the
            # predefined meaning is decided by the naming rules (C06); here the declared
            # object wins, as in VHDL
            pass
        return self.postfix(("name", ident))

    def postfix(self, e):
        while self.peek()[1] == "(":
            self.next()
            a = self.expression()
            kw = self.peek_kw()
            if kw in ("downto", "to"):
                self.next()
                b = self.expression()
                self.expect(")")
                if a[0] != "lit" or b[0] != "lit" or a[1][0] != "I" or b[1][0] != "I":
                    raise Unparsed("non-static slice bounds", self.line)
                if kw == "to" and a[1][1] != b[1][1]:
                    raise Unparsed("ascending slice not supported", self.line)
                e = ("slice", e, a[1][1], b[1][1])
            else:
                self.expect(")")
                e = ("idx", e, a)
        return e


def parse_expr(s, scope, line=None):
    p = ExprParser(tokenize(s, line), scope, line or s)
    e = p.expression()
    if not p.at_end():
        raise Unparsed(f"trailing tokens {p.t[p.i:]}", line or s)
    return e


def retag_for_target(scope, tgt_expr, rhs):
    """a bare bit-string literal assigned to a vector object takes the object's type"""
    if rhs[0] == "lit" and rhs[1][0] == "V" and len(rhs[1]) == 5:
        k = ExprParser([], scope, "").kind_of(tgt_expr)
        if k in ("uns", "sgn"):
            return ("lit", ("V", k, rhs[1][2], rhs[1][3]))
    return rhs


def expr_to_target(e, line):
    path = []
    while e[0] in ("idx", "slice"):
        if e[0] == "idx":
            path.append(("idx", e[2]))
            e = e[1]
        else:
            path.append(("slice", e[2], e[3]))
            e = e[1]
    if e[0] != "name":
        raise Unparsed("assignment target is not a name", line)
    path.reverse()
    return (e[1], path)


def split_top(s, sep):
    """index of the first occurrence of sep at parenthesis depth 0 outside literals, or -1"""
    depth = 0
    i = 0
    n = len(s)
    while i < n:
        c = s[i]
        if c == '"':
            j = s.index('"', i + 1)
            i = j + 1
            continue
        if c == "'" and i + 2 < n and s[i + 2] == "'":
            i += 3
            continue
        if c == "(":
            depth += 1
        elif c == ")":
            depth -= 1
        elif depth == 0 and s.startswith(sep, i):
            return i
        i += 1
    return -1


# ----------------------------------------------------------------------------
# declarations
# ----------------------------------------------------------------------------

def parse_type(s, scope, line):
    s = s.strip()
    low = s.lower()
    if low == "std_logic":
        return Ty("logic")
    if low == "boolean":
        return Ty("bool")
    if low in ("integer", "natural"):
        return Ty("int")
    m = re.fullmatch(r"(std_logic_vector|unsigned|signed)\s*\(\s*(\d+)\s+downto\s+0\s*\)", low)
    if m:
        return Ty("vec", vk=VEC_TYPES[m.group(1)], w=int(m.group(2)) + 1)
    m = re.fullmatch(r"(std_logic_vector|unsigned|signed)\s*\(\s*0\s+to\s+(\d+)\s*\)", low)
    if m:
        raise Unparsed("ascending vector range not supported", line)
    t = scope.lookup_type(s)
    if t is not None:
        return t
    raise Unparsed(f"unknown type {s!r}", line)


def zero_value(t: Ty):
    if t.kind == "logic":
        return ("L", False)
    if t.kind == "bool":
        return ("B", False)
    if t.kind == "int":
        return ("I", 0)
    if t.kind == "vec":
        return ("V", t.vk, t.w, 0)
    if t.kind == "enum":
        return ("E", t.name, 0, None)
    if t.kind == "arr":
        return ("A", [zero_value(t.elem) for _ in range(t.n)])
    raise AssertionError(t)


def parse_literal(s, t: Ty, scope, line):
    s = s.strip()
    if t.kind == "arr":
        if not (s.startswith("(") and s.endswith(")")):
            raise Unparsed("array literal expected", line)
        inner = s[1:-1].strip()
        elems = [None] * t.n
        other = None
        while inner:
            i = split_top(inner, ",")
            part, inner = (inner, "") if i < 0 else (inner[:i], inner[i + 1:].strip())
            k = split_top(part, "=>")
            if k < 0:
                raise Unparsed("positional aggregate not supported", line)
            key = part[:k].strip()
            val = parse_literal(part[k + 2:], t.elem, scope, line)
            if key.lower() == "others":
                other = val
            else:
                elems[int(key)] = val
        for j in range(t.n):
            if elems[j] is None:
                if other is None:
                    raise Unparsed("array aggregate leaves elements undefined", line)
                elems[j] = other
        return ("A", elems)
    e = parse_expr(s, scope, line)
    if e[0] != "lit":
        raise Unparsed(f"initial value is not a literal: {s}", line)
    v = e[1]
    return coerce_literal(v, t, line)


def coerce_literal(v, t: Ty, line):
    if t.kind == "vec":
        if v[0] != "V" or v[2] != t.w:
            raise Unparsed(f"literal {v} does not fit {t}", line)
        if v[1] != t.vk and not (v[1] == "slv"):
            raise Unparsed(f"literal kind {v[1]} for {t.vk}", line)
        return ("V", t.vk, t.w, v[3])
    ok = {"logic": "L", "bool": "B", "int": "I", "enum": "E"}[t.kind]
    if v[0] != ok:
        raise Unparsed(f"literal {v} does not fit {t}", line)
    return v


@dataclass
class Decl:
    name: str
    ty: Ty
    init: tuple
    hasdef: bool
    dir: str = "local"      # in out local
    proc: str | None = None


@dataclass
class Process:
    label: str
    sens: list
    vars: list
    body: list
    scope: Scope


@dataclass
class Instance:
    label: str
    entity: str
    arch: str | None
    portmap: list           # [(formal, actual expr)]
    lib: str = "work"       # library prefix of the instantiated unit ("entity lib.name")


@dataclass
class Entity:
    name: str
    ports: list             # [Decl]
    arch: str = ""
    signals: list = field(default_factory=list)
    conc: list = field(default_factory=list)   # ('assign', target, e) ('select', target, sel, alts, others) Process Instance
    scope: Scope = None
    names: list = field(default_factory=list)  # every declared identifier with its region: (region, kind, name)
    type_decls: list = field(default_factory=list)
    libraries: list = field(default_factory=list)   # library clauses of the unit's context clause (besides ieee)


FUNC_LINES = [
    "function cohdl_bool_to_std_logic(inp: boolean) return std_logic is",
    "begin",
    "if inp then",
    "return('1');",
    "else",
    "return('0');",
    "end if;",
    "end function cohdl_bool_to_std_logic;",
]


class LibraryParser:
    def __init__(self, text):
        self.lines = []
        for raw in text.split("\n"):
            s = raw.strip()
            if not s:
                continue
            self.lines.append(s)
        self.i = 0
        self.entities = []

    def peek(self):
        return self.lines[self.i] if self.i < len(self.lines) else None

    def next(self):
        s = self.peek()
        if s is None:
            raise Unparsed("unexpected end of text")
        self.i += 1
        return s

    def expect(self, s):
        got = self.next()
        if got.lower() != s.lower():
            raise Unparsed(f"expected {s!r}", got)

    def parse(self):
        while self.peek() is not None:
            self.parse_entity()
        return self.entities

    def parse_entity(self):
        libs = []
        while self.peek() is not None and (self.peek().lower().startswith("library ") or self.peek().lower().startswith("use ")):
            l = self.next().lower()
            ml = re.fullmatch(r"library\s+(\w+)\s*;", l)
            if ml and ml.group(1) != "ieee":
                libs.append(ml.group(1))      # a library clause only makes the library name visible
                continue
            if l not in ("library ieee;", "use ieee.std_logic_1164.all;", "use ieee.numeric_std.all;"):
                raise Unparsed("unsupported context clause", l)
        m = re.fullmatch(r"entity\s+(\w+)\s+is", self.next(), re.I)
        if not m:
            raise Unparsed("entity header expected", self.lines[self.i - 1])
        ent = Entity(m.group(1), [])
        ent.libraries = libs
        ent.scope = Scope()
        ent.names.append(("library", "entity", ent.name))
        if self.peek().lower() == "port (":
            self.next()
            while self.peek() != ");":
                l = self.next()
                m = re.fullmatch(r"(\w+)\s*:\s*(in|out|inout)\s+(.+?);?", l, re.I)
                if not m:
                    raise Unparsed("port declaration expected", l)
                if m.group(2).lower() == "inout":
                    raise Unparsed("inout port not supported", l)
                ty = parse_type(m.group(3), ent.scope, l)
                d = Decl(m.group(1), ty, zero_value(ty), False, m.group(2).lower())
                ent.ports.append(d)
                self.declare_obj(ent, ent.scope, "sig", d, "entity")
            self.next()
        m = re.fullmatch(r"end\s+(\w+);", self.next(), re.I)
        if not m or m.group(1).lower() != ent.name.lower():
            raise Unparsed("end of entity expected", self.lines[self.i - 1])
        m = re.fullmatch(r"architecture\s+(\w+)\s+of\s+(\w+)\s+is", self.next(), re.I)
        if not m or m.group(2).lower() != ent.name.lower():
            raise Unparsed("architecture header expected", self.lines[self.i - 1])
        ent.arch = m.group(1)
        ent.names.append(("entity", "architecture", ent.arch))
        for fl in FUNC_LINES:
            self.expect(fl)
        ent.names.append(("arch", "function", "cohdl_bool_to_std_logic"))
        # declarations
        while self.peek().lower() != "begin":
            self.parse_arch_decl(ent)
        self.next()
        while not re.fullmatch(r"end\s+architecture\s+\w+;", self.peek(), re.I):
            self.parse_concurrent(ent)
        m = re.fullmatch(r"end\s+architecture\s+(\w+);", self.next(), re.I)
        if m.group(1).lower() != ent.arch.lower():
            raise Unparsed("architecture name mismatch at end", self.lines[self.i - 1])
        self.entities.append(ent)

    def declare_obj(self, ent, scope, kind, d: Decl, region):
        ent.names.append((region, kind, d.name))
        scope.objects.setdefault(d.name.lower(), (kind, d))

    def parse_arch_decl(self, ent):
        l = self.next()
        if l.startswith("--"):
            return
        m = re.fullmatch(r"signal\s+(\w+)\s*:\s*(.+?)(?:\s*:=\s*(.+))?;", l, re.I)
        if m:
            ty = parse_type(m.group(2), ent.scope, l)
            if m.group(3) is not None:
                d = Decl(m.group(1), ty, parse_literal(m.group(3), ty, ent.scope, l), True)
            else:
                d = Decl(m.group(1), ty, zero_value(ty), False)
            ent.signals.append(d)
            self.declare_obj(ent, ent.scope, "sig", d, "arch")
            return
        m = re.fullmatch(r"constant\s+(\w+)\s*:\s*(.+?)\s*:=\s*(.+);", l, re.I)
        if m:
            ty = parse_type(m.group(2), ent.scope, l)
            d = Decl(m.group(1), ty, parse_literal(m.group(3), ty, ent.scope, l), True)
            self.declare_obj(ent, ent.scope, "const", d, "arch")
            return
        m = re.fullmatch(r"type\s+(\w+)\s+is\s+\((.+)\);", l, re.I)
        if m:
            lits = [x.strip() for x in m.group(2).split(",")]
            ty = Ty("enum", name=m.group(1), n=len(lits))
            ent.names.append(("arch", "type", m.group(1)))
            ent.scope.types.setdefault(m.group(1).lower(), ty)
            ent.type_decls.append((m.group(1), ty, lits))
            for pos, lit in enumerate(lits):
                if not re.fullmatch(r"[A-Za-z]\w*", lit):
                    raise Unparsed("enumeration literal expected", l)
                ent.names.append(("arch", "enumlit", lit))
                ent.scope.enum_lits.setdefault(lit.lower(), ("E", m.group(1), pos, lit))
            return
        m = re.fullmatch(r"type\s+(\w+)\s+is\s+array\s*\(\s*0\s+to\s+(\d+)\s*\)\s+of\s+(.+);", l, re.I)
        if m:
            elem = parse_type(m.group(3), ent.scope, l)
            ty = Ty("arr", name=m.group(1), n=int(m.group(2)) + 1, elem=elem)
            ent.names.append(("arch", "type", m.group(1)))
            ent.scope.types.setdefault(m.group(1).lower(), ty)
            ent.type_decls.append((m.group(1), ty, None))
            return
        raise Unparsed("unsupported declaration", l)

    def parse_concurrent(self, ent):
        l = self.next()
        if l.startswith("--"):
            return
        m = re.fullmatch(r"(\w+)\s*:\s*process\s*\((.*)\)", l, re.I)
        if m:
            self.parse_process(ent, m.group(1), m.group(2), l)
            return
        m = re.fullmatch(r"(\w+)\s*:\s*entity\s+(\w+)\.(\w+)(?:\((\w+)\))?", l, re.I)
        if m:
            self.parse_instance(ent, m, l)
            return
        m = re.fullmatch(r"with\s+(.+)\s+select\s+(.+?)\s*<=", l, re.I)
        if m:
            sel = parse_expr(m.group(1), ent.scope, l)
            tgt = expr_to_target(parse_expr(m.group(2), ent.scope, l), l)
            alts = []
            others = None
            while True:
                a = self.next()
                last = a.endswith(";")
                if not (a.endswith(",") or last):
                    raise Unparsed("select alternative expected", a)
                a = a[:-1]
                k = a.lower().rfind(" when ")
                if k < 0:
                    raise Unparsed("select alternative expected", a)
                val = parse_expr(a[:k], ent.scope, a)
                ch = a[k + 6:].strip()
                if ch.lower() == "others":
                    others = val
                else:
                    alts.append(([self.parse_choice(ch, ent.scope, a)], val))
                if last:
                    break
            ent.conc.append(("select", tgt, sel, alts, others))
            return
        m = re.fullmatch(r'assert\s+(.+?)(?:\s+report\s+".*")?;', l, re.I)
        if m:
            # concurrent assertion = a process sensitive to the signals of its condition (LRM 9.4)
            ent.conc.append(("cassert", parse_expr(m.group(1), ent.scope, l)))
            return
        k = split_top(l, "<=")
        if k > 0 and l.endswith(";"):
            te = parse_expr(l[:k], ent.scope, l)
            e = retag_for_target(ent.scope, te, parse_expr(l[k + 2:-1], ent.scope, l))
            ent.conc.append(("assign", expr_to_target(te, l), e))
            return
        raise Unparsed("unsupported concurrent statement", l)

    def parse_choice(self, s, scope, line):
        e = parse_expr(s, scope, line)
        if e[0] != "lit":
            raise Unparsed("choice is not a literal", line)
        return e[1]

    def parse_instance(self, ent, m, l):
        label, lib, name, arch = m.group(1), m.group(2), m.group(3), m.group(4)
        ent.names.append(("arch", "label", label))
        portmap = []
        if self.peek().lower().startswith("generic map"):
            raise Unparsed("generic map not supported", self.peek())
        if self.peek().lower() == "port map(":
            self.next()
            while self.peek() != ");":
                a = self.next()
                if a.endswith(","):
                    a = a[:-1]
                k = a.find("=>")
                if k < 0:
                    raise Unparsed("port association expected", a)
                formal = a[:k].strip()
                m2 = re.fullmatch(r"(std_logic_vector|unsigned|signed)\s*\(\s*(\w+)\s*\)", formal, re.I)
                if m2:
                    # type conversion on the formal side (output ports): actual <= conv(formal)
                    portmap.append((m2.group(2), parse_expr(a[k + 2:], ent.scope, a), m2.group(1).lower()))
                else:
                    if not re.fullmatch(r"\w+", formal):
                        raise Unparsed("unsupported formal designator", a)
                    portmap.append((formal, parse_expr(a[k + 2:], ent.scope, a), None))
            self.next()
        ent.conc.append(Instance(label, name, arch, portmap, lib.lower()))

    def parse_process(self, ent, label, sens_s, l):
        ent.names.append(("arch", "label", label))
        scope = Scope(parent=ent.scope)
        sens = []
        if sens_s.strip().lower() == "all":
            raise Unparsed("process(all) is not VHDL-93", l)
        for s in [x.strip() for x in sens_s.split(",") if x.strip()]:
            if not re.fullmatch(r"\w+", s):
                raise Unparsed("sensitivity entry is not a signal name", l)
            sens.append(s)
        proc = Process(label, sens, [], [], scope)
        while self.peek().lower() != "begin":
            d = self.next()
            m = re.fullmatch(r"variable\s+(\w+)\s*:\s*(.+?)(?:\s*:=\s*(.+))?;", d, re.I)
            if not m:
                if d.lower().startswith("attribute "):
                    continue
                raise Unparsed("variable declaration expected", d)
            ty = parse_type(m.group(2), scope, d)
            if m.group(3) is not None:
                dec = Decl(m.group(1), ty, parse_literal(m.group(3), ty, scope, d), True, proc=label)
            else:
                dec = Decl(m.group(1), ty, zero_value(ty), False, proc=label)
            proc.vars.append(dec)
            self.declare_obj(ent, scope, "var", dec, "process:" + label)
        self.next()
        proc.body = self.parse_stmts(scope, ("end process;",))
        self.next()
        ent.conc.append(proc)

    def parse_stmts(self, scope, terminators):
        out = []
        while True:
            l = self.peek()
            if l is None:
                raise Unparsed("unexpected end inside statements")
            low = l.lower()
            if low in terminators or any(low.startswith(t) for t in terminators if t.endswith(" ")):
                return out
            self.next()
            if l.startswith("--"):
                continue
            if low == "null;":
                out.append(("null",))
                continue
            m = re.fullmatch(r"if\s+(.+)\s+then", l, re.I)
            if m:
                c = parse_expr(m.group(1), scope, l)
                a = self.parse_stmts(scope, ("else", "end if;"))
                b = []
                if self.next().lower() == "else":
                    b = self.parse_stmts(scope, ("end if;",))
                    self.next()
                out.append(("if", c, a, b))
                continue
            m = re.fullmatch(r"case\s+(.+)\s+is", l, re.I)
            if m:
                e = parse_expr(m.group(1), scope, l)
                arms = []
                others = None
                seen_others = False
                while self.peek().lower() != "end case;":
                    w = self.next()
                    mm = re.fullmatch(r"when\s+(.+?)\s*=>", w, re.I)
                    if not mm:
                        raise Unparsed("when expected", w)
                    body = self.parse_stmts(scope, ("when ", "end case;"))
                    if seen_others:
                        raise Unparsed("choice after others", w)
                    if mm.group(1).lower() == "others":
                        others = body
                        seen_others = True
                    else:
                        chs = [self.parse_choice(c.strip(), scope, w) for c in mm.group(1).split("|")]
                        arms.append((chs, body))
                self.next()
                out.append(("case", e, arms, others))
                continue
            m = re.fullmatch(r'assert\s+(.+?)(?:\s+report\s+".*")?;', l, re.I)
            if m:
                out.append(("assert", parse_expr(m.group(1), scope, l)))
                continue
            if not l.endswith(";"):
                raise Unparsed("unsupported statement", l)
            k = split_top(l, ":=")
            if k > 0:
                te = parse_expr(l[:k], scope, l)
                out.append(("var", expr_to_target(te, l), retag_for_target(scope, te, parse_expr(l[k + 2:-1], scope, l))))
                continue
            k = split_top(l, "<=")
            if k > 0:
                te = parse_expr(l[:k], scope, l)
                out.append(("sig", expr_to_target(te, l), retag_for_target(scope, te, parse_expr(l[k + 2:-1], scope, l))))
                continue
            raise Unparsed("unsupported statement", l)


def parse_library(text):
    return LibraryParser(text).parse()


# ----------------------------------------------------------------------------
# elaboration: flatten the hierarchy by net collapse (formal := actual)
# ----------------------------------------------------------------------------

@dataclass
class Design:
    top: str
    sigs: list              # [Decl] with unique flat names; ports of top first
    vars: list              # [Decl]
    conc: list              # ('assign', tgt, e) ('select', ...) ('proc', label, sens, body)
    enums: dict             # type name -> literals
    inputs: list
    outputs: list
    clk: str | None


def _subst_expr(e, ren, sub):
    """ren: local name -> flat name; sub: formal -> actual expr (already in parent names)"""
    k = e[0]
    if k == "lit":
        return e
    if k == "name":
        n = e[1].lower()
        if n in sub:
            return sub[n]
        return ("name", ren[n])
    if k == "idx":
        return ("idx", _subst_expr(e[1], ren, sub), _subst_expr(e[2], ren, sub))
    if k == "slice":
        return ("slice", _subst_expr(e[1], ren, sub), e[2], e[3])
    if k == "un":
        return ("un", e[1], _subst_expr(e[2], ren, sub))
    if k == "f1":
        return ("f1", e[1], _subst_expr(e[2], ren, sub))
    if k in ("bin", "f2"):
        return (k, e[1], _subst_expr(e[2], ren, sub), _subst_expr(e[3], ren, sub))
    if k == "edge":
        n = e[2].lower()
        if n in sub:
            a = sub[n]
            if a[0] != "name":
                raise Unparsed("edge function on a port associated with a non-name actual")
            return ("edge", e[1], a[1])
        return ("edge", e[1], ren[n])
    raise AssertionError(e)


def _names_in(e):
    k = e[0]
    if k == "name":
        return [e[1]]
    if k == "edge":
        return [e[2]]
    if k == "lit":
        return []
    out = []
    for x in e[1:]:
        if isinstance(x, tuple):
            out += _names_in(x)
    return out


def _subst_target(t, ren, sub):
    name, path = t
    path2 = []
    for s in path:
        if s[0] == "idx":
            path2.append(("idx", _subst_expr(s[1], ren, sub)))
        else:
            path2.append(s)
    n = name.lower()
    if n in sub:
        root, apath = expr_to_target(sub[n], "port actual")
        return (root, _compose_path(apath, path2))
    return (ren[n], path2)


def _compose_path(apath, path):
    """actual path followed by the formal's own path; static slice then index/slice is folded"""
    res = list(apath)
    for s in path:
        if res and res[-1][0] == "slice":
            hi, lo = res[-1][1], res[-1][2]
            if s[0] == "slice":
                res[-1] = ("slice", lo + s[1], lo + s[2])
                continue
            if s[0] == "idx" and s[1][0] == "lit":
                res[-1] = ("idx", ("lit", ("I", lo + s[1][1][1])))
                continue
            if s[0] == "idx":
                res[-1] = ("idx", ("bin", "OAdd", s[1], ("lit", ("I", lo))))
                continue
        res.append(s)
    return res


def _subst_stmts(ss, ren, sub):
    out = []
    for s in ss:
        k = s[0]
        if k == "null":
            out.append(s)
        elif k in ("sig", "var"):
            out.append((k, _subst_target(s[1], ren, sub), _subst_expr(s[2], ren, sub)))
        elif k == "if":
            out.append(("if", _subst_expr(s[1], ren, sub), _subst_stmts(s[2], ren, sub), _subst_stmts(s[3], ren, sub)))
        elif k == "case":
            out.append(("case", _subst_expr(s[1], ren, sub),
                        [(chs, _subst_stmts(b, ren, sub)) for chs, b in s[2]],
                        None if s[3] is None else _subst_stmts(s[3], ren, sub)))
        elif k == "assert":
            out.append(("assert", _subst_expr(s[1], ren, sub)))
        else:
            raise AssertionError(s)
    return out


def elaborate(entities, top=None, clk="clk"):
    by_name = {}
    for e in entities:
        if e.name.lower() in by_name:
            raise Unparsed(f"entity {e.name} emitted twice")
        by_name[e.name.lower()] = e
    top_e = entities[-1] if top is None else by_name[top.lower()]
    d = Design(top_e.name, [], [], [], {}, [], [], None)
    used = set()
    nassert = [0]

    def fresh(base):
        n = base
        k = 0
        while n.lower() in used:
            k += 1
            n = f"{base}__{k}"
        used.add(n.lower())
        return n

    def inline(ent: Entity, prefix, sub, depth):
        if depth > 16:
            raise Unparsed("instantiation depth exceeded (recursive hierarchy?)")
        ren = {}
        for p in ent.ports:
            if p.name.lower() in sub:
                continue
            flat = fresh(prefix + p.name)
            ren[p.name.lower()] = flat
            d.sigs.append(Decl(flat, p.ty, p.init, p.hasdef, p.dir if depth == 0 else "local"))
        for s in ent.signals:
            flat = fresh(prefix + s.name)
            ren[s.name.lower()] = flat
            d.sigs.append(Decl(flat, s.ty, s.init, s.hasdef, "local"))
        for name, (kind, dec) in ent.scope.objects.items():
            if kind == "const":
                sub = dict(sub)
                sub[name] = ("lit", dec.init)
        for tname, ty, lits in ent.type_decls:
            if lits is not None:
                d.enums[prefix + tname] = lits
        for c in ent.conc:
            if isinstance(c, Process):
                pren = dict(ren)
                plabel = prefix + c.label
                for v in c.vars:
                    flat = fresh(plabel + "." + v.name)
                    pren[v.name.lower()] = flat
                    d.vars.append(Decl(flat, v.ty, v.init, v.hasdef, "local", plabel))
                sens = []
                for s in c.sens:
                    if s.lower() in sub:
                        sens.extend(_names_in(sub[s.lower()]))
                    else:
                        sens.append(ren[s.lower()])
                d.conc.append(("proc", plabel, sens, _subst_stmts(c.body, pren, sub)))
            elif isinstance(c, Instance):
                if c.lib != "work":
                    raise Unparsed("instance of an external entity", c.label)
                child = by_name.get(c.entity.lower())
                if child is None:
                    raise Unparsed(f"instance of unknown entity {c.entity}")
                if entities.index(child) >= entities.index(ent):
                    raise Unparsed(f"entity {c.entity} is emitted after its user {ent.name}")
                if c.arch is not None and c.arch.lower() != child.arch.lower():
                    raise Unparsed(f"instance names architecture {c.arch}, entity has {child.arch}")
                formals = {p.name.lower() for p in child.ports}
                csub = {}
                seen = set()
                post = []
                pdir = {p.name.lower(): p for p in child.ports}
                for formal, actual, conv in c.portmap:
                    f = formal.lower()
                    if f not in formals:
                        raise Unparsed(f"port map names unknown formal {formal}")
                    if f in seen:
                        raise Unparsed(f"formal {formal} associated twice")
                    seen.add(f)
                    if conv is None:
                        csub[f] = _subst_expr(actual, ren, sub)
                    else:
                        if pdir[f].dir != "out":
                            raise Unparsed("formal-side conversion on an input port")
                        # the formal keeps its own net; the actual is driven from it through the conversion
                        post.append((f, _subst_target(expr_to_target(actual, "port actual"), ren, sub), conv))
                missing = formals - seen
                if missing:
                    raise Unparsed(f"formals left unassociated: {sorted(missing)}")
                cren = inline(child, prefix + c.label + ".", csub, depth + 1)
                for f, tgt, conv in post:
                    d.conc.append(("assign", tgt, ("f1", FN1[conv], ("name", cren[f]))))
                continue
            elif c[0] == "cassert":
                e = _subst_expr(c[1], ren, sub)
                nassert[0] += 1
                sens = []
                for n in _names_in(e):
                    if n not in sens:
                        sens.append(n)
                d.conc.append(("proc", f"{prefix}assert__{nassert[0]}", sens, [("assert", e)]))
            elif c[0] == "assign":
                d.conc.append(("assign", _subst_target(c[1], ren, sub), _subst_expr(c[2], ren, sub)))
            elif c[0] == "select":
                d.conc.append(("select", _subst_target(c[1], ren, sub), _subst_expr(c[2], ren, sub),
                               [(chs, _subst_expr(v, ren, sub)) for chs, v in c[3]],
                               None if c[4] is None else _subst_expr(c[4], ren, sub)))
            else:
                raise AssertionError(c)
        return ren

    inline(top_e, "", {}, 0)
    for p in top_e.ports:
        if p.dir == "in":
            if clk is not None and p.name.lower() == clk.lower():
                d.clk = p.name
            else:
                d.inputs.append(p.name)
        else:
            d.outputs.append(p.name)
    return d


# ----------------------------------------------------------------------------
# Coq printer
# ----------------------------------------------------------------------------

VK = {"slv": "KSlv", "uns": "KUns", "sgn": "KSgn"}


def coq_bool(b):
    return "true" if b else "false"


def coq_value(v):
    k = v[0]
    if k == "L":
        return f"(VL {coq_bool(v[1])})"
    if k == "B":
        return f"(VB {coq_bool(v[1])})"
    if k == "I":
        return f"(VI ({v[1]})%Z)"
    if k == "V":
        return f"(VV {VK[v[1]]} {v[2]}%N {v[3]}%Z)"
    if k == "E":
        return f"(VE {v[2]}%N)"
    if k == "A":
        return "(VA [" + "; ".join(coq_value(x) for x in v[1]) + "])"
    raise AssertionError(v)


class CoqPrinter:
    def __init__(self, d: Design):
        self.d = d
        self.sig_ix = {s.name.lower(): i + 1 for i, s in enumerate(d.sigs)}
        self.var_ix = {v.name.lower(): i + 1 for i, v in enumerate(d.vars)}
        self.proc_ix = {}
        self.type_ix = {}

    def ty(self, t: Ty):
        if t.kind == "logic":
            return "TLogic"
        if t.kind == "bool":
            return "TBool"
        if t.kind == "int":
            return "TInt"
        if t.kind == "vec":
            return f"(TVec {VK[t.vk]} {t.w}%N)"
        ix = self.type_ix.setdefault(t.name.lower(), len(self.type_ix) + 1)
        if t.kind == "enum":
            return f"(TEnum {ix}%positive {t.n}%N)"
        return f"(TArr {ix}%positive {t.n}%N {self.ty(t.elem)})"

    def expr(self, e):
        k = e[0]
        if k == "lit":
            return f"(ELit {coq_value(e[1])})"
        if k == "name":
            n = e[1].lower()
            if n in self.var_ix:
                return f"(EVar {self.var_ix[n]}%positive)"
            return f"(ESig {self.sig_ix[n]}%positive)"
        if k == "idx":
            return f"(EIdx {self.expr(e[1])} {self.expr(e[2])})"
        if k == "slice":
            return f"(ESlice {self.expr(e[1])} {e[2]}%N {e[3]}%N)"
        if k == "un":
            return f"(EUn {e[1]} {self.expr(e[2])})"
        if k == "bin":
            return f"(EBin {e[1]} {self.expr(e[2])} {self.expr(e[3])})"
        if k == "f1":
            return f"(EF1 {e[1]} {self.expr(e[2])})"
        if k == "f2":
            return f"(EF2 {e[1]} {self.expr(e[2])} {self.expr(e[3])})"
        if k == "edge":
            return f"(EEdge {coq_bool(e[1])} {self.sig_ix[e[2].lower()]}%positive)"
        raise AssertionError(e)

    def path(self, p):
        out = []
        for s in p:
            if s[0] == "idx":
                out.append(f"SelIdx {self.expr(s[1])}")
            else:
                out.append(f"SelSlice {s[1]}%N {s[2]}%N")
        return "[" + "; ".join(out) + "]"

    def stmts(self, ss):
        if not ss:
            return "SNull"
        parts = [self.stmt(s) for s in ss]
        res = parts[-1]
        for p in reversed(parts[:-1]):
            res = f"(SSeq {p} {res})"
        return res

    def stmt(self, s):
        k = s[0]
        if k == "null":
            return "SNull"
        if k == "sig":
            n = s[1][0].lower()
            if n not in self.sig_ix:
                raise Unparsed(f"signal assignment to a non-signal {s[1][0]}")
            return f"(SSig {self.sig_ix[n]}%positive {self.path(s[1][1])} {self.expr(s[2])})"
        if k == "var":
            n = s[1][0].lower()
            if n not in self.var_ix:
                raise Unparsed(f"variable assignment to a non-variable {s[1][0]}")
            return f"(SVar {self.var_ix[n]}%positive {self.path(s[1][1])} {self.expr(s[2])})"
        if k == "if":
            return f"(SIf {self.expr(s[1])} {self.stmts(s[2])} {self.stmts(s[3])})"
        if k == "case":
            arms = "(ANil " + ("None" if s[3] is None else f"(Some {self.stmts(s[3])})") + ")"
            for chs, body in reversed(s[2]):
                arms = f"(ACons [{'; '.join(coq_value(c) for c in chs)}] {self.stmts(body)} {arms})"
            return f"(SCase {self.expr(s[1])} {arms})"
        if k == "assert":
            return f"(SAssert {self.expr(s[1])})"
        raise AssertionError(s)

    def conc(self, c):
        k = c[0]
        if k == "assign":
            n = c[1][0].lower()
            if n not in self.sig_ix:
                raise Unparsed(f"concurrent assignment to a non-signal {c[1][0]}")
            return f"CAssign {self.sig_ix[n]}%positive {self.path(c[1][1])} {self.expr(c[2])}"
        if k == "select":
            n = c[1][0].lower()
            alts = "; ".join(f"([{'; '.join(coq_value(x) for x in chs)}], {self.expr(v)})" for chs, v in c[3])
            oth = "None" if c[4] is None else f"(Some {self.expr(c[4])})"
            return f"CSelect {self.sig_ix[n]}%positive {self.path(c[1][1])} {self.expr(c[2])} [{alts}] {oth}"
        if k == "proc":
            ix = self.proc_ix.setdefault(c[1].lower(), len(self.proc_ix) + 1)
            sens = "; ".join(f"{self.sig_ix[s.lower()]}%positive" for s in c[2])
            return f"CProc {ix}%positive [{sens}] {self.stmts(c[3])}"
        raise AssertionError(c)

    def design(self):
        d = self.d
        dirs = {"in": "DIn", "out": "DOut", "local": "DLocal"}
        concs = [self.conc(c) for c in d.conc]
        sigs = [
            f"{{| sd_id := {i + 1}%positive; sd_ty := {self.ty(s.ty)}; sd_dir := {dirs[s.dir]}; sd_init := {coq_value(s.init)}; sd_hasdef := {coq_bool(s.hasdef)} |}}"
            for i, s in enumerate(d.sigs)
        ]
        vars_ = [
            f"{{| vd_id := {i + 1}%positive; vd_proc := {self.proc_ix.get((v.proc or '').lower(), 1)}%positive; vd_ty := {self.ty(v.ty)}; vd_init := {coq_value(v.init)}; vd_hasdef := {coq_bool(v.hasdef)} |}}"
            for i, v in enumerate(d.vars)
        ]
        clk = "None" if d.clk is None else f"(Some {self.sig_ix[d.clk.lower()]}%positive)"
        ins = "; ".join(f"{self.sig_ix[x.lower()]}%positive" for x in d.inputs)
        outs = "; ".join(f"{self.sig_ix[x.lower()]}%positive" for x in d.outputs)
        nl = ";\n    "
        return (
            "{| d_sigs := [\n    " + nl.join(sigs) + "];\n"
            "   d_vars := [\n    " + nl.join(vars_) + "];\n"
            "   d_conc := [\n    " + nl.join(concs) + "];\n"
            f"   d_clk := {clk};\n   d_inputs := [{ins}];\n   d_outputs := [{outs}] |}}"
        )


def design_to_coq(d: Design):
    return CoqPrinter(d).design()


def read_design(text, top=None, clk="clk"):
    ents = parse_library(text)
    return ents, elaborate(ents, top, clk)
