"""Compile generated CoHDL sources with the real compiler from $COHDL_SRC.

stdin : {"dir": scratch dir, "designs": [{"name":..., "source":..., "entity":..., "want": ["vhdl"]}], "jobs": n}
stdout: last line JSON {"results": [{"name", "ok", "vhdl" | "error", "error_type"}]}

Every design is compiled in its own forked child (after cohdl was imported once),
so a crash or leaked compiler state cannot contaminate the next design.
"""
import importlib.util
import json
import os
import sys
import traceback


def compile_one(dirpath, d):
    path = os.path.join(dirpath, d["name"] + ".py")
    with open(path, "w") as f:
        f.write(d["source"])
    spec = importlib.util.spec_from_file_location(d["name"], path)
    mod = importlib.util.module_from_spec(spec)
    sys.modules[d["name"]] = mod
    try:
        spec.loader.exec_module(mod)
        from cohdl import std
        ent = getattr(mod, d["entity"])
        if callable(ent) and not isinstance(ent, type):
            ent = ent()
        vhdl = std.VhdlCompiler.to_string(ent)
        return {"name": d["name"], "ok": True, "vhdl": vhdl}
    except BaseException as e:  # noqa
        tb = traceback.format_exc()
        return {"name": d["name"], "ok": False, "error": str(e)[-600:], "error_type": type(e).__name__,
                "trace": tb[-1500:]}


def main():
    req = json.load(sys.stdin)
    dirpath = req["dir"]
    os.makedirs(dirpath, exist_ok=True)
    import cohdl  # noqa: F401  (import once, children inherit)
    from cohdl import std  # noqa: F401
    designs = req["designs"]
    jobs = int(req.get("jobs", 8))
    results = [None] * len(designs)
    running = {}
    idx = 0
    devnull = os.open(os.devnull, os.O_WRONLY)
    while idx < len(designs) or running:
        while idx < len(designs) and len(running) < jobs:
            d = designs[idx]
            out = os.path.join(dirpath, d["name"] + ".result.json")
            pid = os.fork()
            if pid == 0:
                try:
                    os.dup2(devnull, 1)
                    r = compile_one(dirpath, d)
                except BaseException as e:  # noqa
                    r = {"name": d["name"], "ok": False, "error": "worker crash: " + repr(e), "error_type": "Crash"}
                with open(out, "w") as f:
                    json.dump(r, f)
                os._exit(0)
            running[pid] = (idx, out)
            idx += 1
        pid, status = os.wait()
        i, out = running.pop(pid)
        try:
            results[i] = json.load(open(out))
            os.unlink(out)
        except Exception as e:  # noqa
            results[i] = {"name": designs[i]["name"], "ok": False, "error": "no result (child died, status %r)" % (status,),
                          "error_type": "Crash"}
    print(json.dumps({"results": results}))


if __name__ == "__main__":
    main()
