"""C12 - instantiating an entity is equivalent to inlining it.

A generated netlist of cells is rendered twice: (H) every cell is an instance of a leaf entity template (the
same template for equal cells, consecutive cells optionally wrapped into a mid-level entity, actuals = whole signals,
slices and typed views), (F) every cell is a context placed inline in the top entity.  Both are compiled with the
real compiler; the emitted interface of every entity of (H) is compared with its declaration; the hierarchy of (H) is
elaborated by net collapse (formal := actual, each formal exactly once, template before user) and a kernel-checked
theorem states that (H) and (F) have the same trace for ALL input sequences."""
from __future__ import annotations
import os

import common
import explore as X
import vhdl_reader as R

KINDS = {
    # kind: (port types, body lines for the leaf (using self.a/self.b/self.o), clocked?)
    "ADD": ("u2", ["self.o <<= self.a + self.b"], False),
    "SUB": ("u2", ["self.o <<= self.a - self.b"], False),
    "REGADD": ("u2", ["self.o <<= self.a + self.b"], True),
    "REGMUX": ("u2", ["if self.a[0]:", "    self.o <<= self.b", "else:", "    self.o <<= self.o + 1"], True),
    "XOR": ("bv2", ["self.o <<= self.a ^ self.b"], False),
}
TY = {"u2": "Unsigned[2]", "bv2": "BitVector[2]"}


class Net:
    """cells: (kind, a_expr, b_expr, out_target, out_wire) in the parent's name space"""

    def __init__(self, rng):
        self.rng = rng
        self.cells = []
        self.wires = []          # internal wires (name, type)
        # self.acc: a parent-level register WITH a power-up value, updated from itself, used whole and as a view
        self.avail = {"u2": ["self.i0", "self.i1", "self.acc", "self.acc"], "bv2": ["self.i0.bitvector", "self.i1.bitvector", "self.acc.bitvector"]}
        self.bus_written = []

    def src(self, ty):
        return self.rng.choice(self.avail[ty])

    def add_avail(self, ty, expr):
        self.avail[ty].append(expr)
        other = "bv2" if ty == "u2" else "u2"
        view = ".bitvector" if ty == "u2" else ".unsigned"
        self.avail[other].append(expr + view)

    def build(self, n_cells):
        outs = ["o0", "o1"]
        # slices / views of the bus (driven as a whole in the top entity) are available as input actuals
        for h in ("[1:0]", "[3:2]", "[2:1]"):
            self.add_avail("bv2", f"self.bus{h}")
        pbus_half = self.rng.choice(["[1:0]", "[3:2]"])     # one cell drives a slice of pbus through a slice actual
        pbus_done = False
        for k in range(n_cells):
            kind = self.rng.choice(list(KINDS))
            ty = KINDS[kind][0]
            a, b = self.src(ty), self.src(ty)
            last = k >= n_cells - 2
            r = self.rng.random()
            if not pbus_done and (r < 0.3 or k == n_cells - 1):
                pbus_done = True
                target = f"self.pbus{pbus_half}" + (".unsigned" if ty == "u2" else "")
                self.cells.append((kind, a, b, target))
            elif outs and (last or r < 0.55):
                o = outs.pop(0)
                target = f"self.{o}" + ("" if ty == "u2" else ".bitvector")
                self.cells.append((kind, a, b, target))
            else:
                w = f"t{len(self.wires)}"
                self.wires.append((w, ty))
                self.cells.append((kind, a, b, f"self.{w}"))
                self.add_avail(ty, f"self.{w}")
        for o in outs:
            self.cells.append(("ADD", self.src("u2"), self.src("u2"), f"self.{o}"))


# class name of a leaf template; one kind gets a name that is a VHDL reserved word, so the emitted unit is renamed
# (Buffer -> e.g. Buffer1) and every instantiation must name the EMITTED unit
LEAF_NAME = {"XOR": "Buffer"}


def lname(kind):
    return LEAF_NAME.get(kind, "Leaf" + kind)


def emitted_matches(emitted, declared_name):
    """the emitted unit name of a template: its class name, or (renamed on collision) the class name plus a counter"""
    return emitted == declared_name or (declared_name in LEAF_NAME.values() and re.fullmatch(re.escape(declared_name) + r"\d*", emitted))


def inst(rng, cls, pairs):
    """an instantiation with its keyword arguments in a random order (ports are associated by NAME)"""
    pairs = list(pairs)
    if rng is not None:
        rng.shuffle(pairs)
    return f"{cls}(" + ", ".join(f"{k}={v}" for k, v in pairs) + ")"


def leaf_class(kind):
    ty, body, clocked = KINDS[kind]
    lines = [f"class {lname(kind)}(cohdl.Entity):"]
    if clocked:
        lines.append("    clk = Port.input(Bit)")
    lines += [f"    a = Port.input({TY[ty]})", f"    b = Port.input({TY[ty]})",
              f"    o = Port.output({TY[ty]}" + (", default=Null)" if clocked else ")"), "",
              "    def architecture(self):"]
    if clocked:
        lines += ["        @std.sequential(std.Clock(self.clk))", "        def proc():"]
    else:
        lines += ["        @std.concurrent", "        def logic():"]
    lines += ["            " + l for l in body]
    return lines


def mid_class(name, k1, k2, ctx=False, rng=None):
    """a two-level template: o = k2(k1(a, b), b); ctx: the two instances are created INSIDE a concurrent context"""
    t1, t2 = KINDS[k1][0], KINDS[k2][0]
    assert t1 == t2
    clocked = KINDS[k1][2] or KINDS[k2][2]
    lines = [f"class {name}(cohdl.Entity):"]
    if clocked:
        lines.append("    clk = Port.input(Bit)")
    lines += [f"    a = Port.input({TY[t1]})", f"    b = Port.input({TY[t1]})",
              f"    o = Port.output({TY[t1]}" + (", default=Null)" if KINDS[k2][2] else ")"), "",
              "    def architecture(self):"]
    ind = "        "
    if ctx:
        lines += ["        @std.concurrent", "        def inst_ctx():"]
        ind = "            "
    # inside a context a Signal with an initial value counts as written by that context (and the instance writes it too)
    lines += [f"{ind}m = Signal[{TY[t1]}](" + ("Null" if KINDS[k1][2] and not ctx else "") + ")"]
    c1 = [("clk", "self.clk")] if KINDS[k1][2] else []
    c2 = [("clk", "self.clk")] if KINDS[k2][2] else []
    lines += [ind + inst(rng, lname(k1), c1 + [("a", "self.a"), ("b", "self.b"), ("o", "m")]),
              ind + inst(rng, lname(k2), c2 + [("a", "m"), ("b", "self.b"), ("o", "self.o")])]
    return lines


HEAD = ["import cohdl", "from cohdl import Bit, BitVector, Port, Unsigned, Null, Signal", "from cohdl import std", ""]

TOP_PORTS = ["    clk = Port.input(Bit)", "    i0 = Port.input(Unsigned[2])", "    i1 = Port.input(Unsigned[2])",
             "    o0 = Port.output(Unsigned[2])", "    o1 = Port.output(Unsigned[2])", "    obus = Port.output(BitVector[4])"]


import re


def sub(line, a, b, o):
    m = {"a": a, "b": b, "o": o}
    return re.sub(r"\bself\.(a|b|o)\b", lambda mm: m[mm.group(1)], line)


def render(net: Net, hier: bool, mids, inl=frozenset()):
    """mids: {cell index k: "arch" | "ctx"}: cell k is rendered through a Mid template (as k1=k2=kind chain) whose own
    instances are created at architecture level / inside a concurrent context;
    inl: cell indices whose instance in Top is created inside a concurrent context"""
    lines = list(HEAD)
    if hier:
        used = []
        for kind, *_ in net.cells:
            if kind not in used:
                used.append(kind)
        for kind in used:
            lines += leaf_class(kind) + [""]
        for kind, fl in sorted({(net.cells[k][0], fl) for k, fl in mids.items()}):
            lines += mid_class(f"Mid{'C' if fl == 'ctx' else ''}{kind}", kind, kind, fl == "ctx", net.rng) + [""]
    lines += ["class Top(cohdl.Entity):"] + TOP_PORTS + ["", "    def architecture(self):",
                                                         "        self.bus = Signal[BitVector[4]]()",
                                                         "        self.pbus = Signal[BitVector[4]]()",
                                                         "        self.acc = Signal[Unsigned[2]](2)",
                                                         "        @std.sequential(std.Clock(self.clk))", "        def acc_proc():",
                                                         "            self.acc <<= self.acc + self.i1",
                                                         "        @std.concurrent", "        def drive_bus():",
                                                         "            self.bus <<= self.i0 @ self.i1"]
    for w, ty in net.wires:
        lines.append(f"        self.{w} = Signal[{TY[ty]}](" + ("Null)" if hier else ")"))
    regs = []
    for k, (kind, a, b, target) in enumerate(net.cells):
        ty, body, clocked = KINDS[kind]
        if hier:
            c = [("clk", "self.clk")] if clocked else []
            ind = "        "
            if k in inl:
                lines += ["        @std.concurrent", f"        def inst_ctx_{k}():"]
                ind = "            "
            if k in mids:
                lines.append(ind + inst(net.rng, f"Mid{'C' if mids[k] == 'ctx' else ''}{kind}", c + [("a", a), ("b", b), ("o", target)]))
            else:
                lines.append(ind + inst(net.rng, lname(kind), c + [("a", a), ("b", b), ("o", target)]))
        else:
            def inline(kind, a, b, target, suffix):
                ty, body, clocked = KINDS[kind]
                out = []
                if clocked:
                    # the register lives in a local signal with the leaf port's default, like the instance's port
                    reg = f"self.r{suffix}"
                    out.append(f"        {reg} = Signal[{TY[ty]}](Null)")
                    out += ["        @std.sequential(std.Clock(self.clk))", f"        def proc{suffix}():"]
                    out += ["            " + sub(l, a, b, reg) for l in body]
                    out += ["        @std.concurrent", f"        def wire{suffix}():", f"            {target} <<= {reg}"]
                else:
                    out += ["        @std.concurrent", f"        def logic{suffix}():"]
                    out += ["            " + sub(l, a, b, target) for l in body]
                return out
            if k in mids:
                m = f"self.m{k}"
                lines.append(f"        {m} = Signal[{TY[ty]}](" + ("Null)" if clocked else ")"))
                lines += inline(kind, a, b, m, f"_{k}a")
                lines += inline(kind, m, b, target, f"_{k}b")
            else:
                lines += inline(kind, a, b, target, f"_{k}")
    lines += ["        @std.concurrent", "        def out_bus():", "            self.obus <<= self.pbus"]
    return "\n".join(lines) + "\n"


CASE_TMPL = """{header}From Cohdl Require Import Equiv.VhdlTS Vhdl.DeadVars Equiv.StoreTS.
Definition dh : design := {dh}.
Definition df : design := {df}.
Definition alphabet : list (list value) := {alphabet}.
{count}Theorem case_ok : forall ins, Forall (fun i => In i alphabet) ins ->
  traceA (sstep dh false) (power_up_s dh) ins = traceA (sstep df false) (power_up_s df) ins.
Proof. apply (dcheck_s_sound dh df false alphabet 1000000); vm_cast_no_check (eq_refl true). Qed.
"""
DIAG = """Eval vm_compute in (conc_all_ok (auto_Ts dh) dh, conc_all_ok (auto_Ts df) df).
Definition verdict := Eval vm_compute in (dcheck_s_bfs dh df false alphabet 60000).
Eval vm_compute in verdict.
Eval vm_compute in (match verdict with
  | VCex path => Some (traceA (sstep dh false) (power_up_s dh) path, traceA (sstep df false) (power_up_s df) path)
  | _ => None end).
"""


def check_interface(ck, ents, declared, name, src):
    """emitted ports of every entity = declared (names, directions, types, order)"""
    ok = True
    for e in ents:
        want = declared.get(e.name)
        if want is None:
            cand = [w for dn, w in declared.items() if emitted_matches(e.name, dn)]      # a template renamed on emission
            want = cand[0] if cand else None
        if want is None:
            continue
        got = [(p.name, p.dir, p.ty.kind, p.ty.vk, p.ty.w) for p in e.ports]
        if got != want:
            ok = False
            ck.violation({"interface": e.name, "case": name}, "emitted entity interface differs from its declaration",
                         {"entity": e.name, "emitted": got, "declared": want, "source": src})
    return ok


def decl_of(kind_or_top, clocked=None):
    if kind_or_top == "Top":
        return [("clk", "in", "logic", "", 0), ("i0", "in", "vec", "uns", 2), ("i1", "in", "vec", "uns", 2),
                ("o0", "out", "vec", "uns", 2), ("o1", "out", "vec", "uns", 2), ("obus", "out", "vec", "slv", 4)]
    ty = KINDS[kind_or_top][0]
    vk = "uns" if ty == "u2" else "slv"
    ports = [("a", "in", "vec", vk, 2), ("b", "in", "vec", vk, 2), ("o", "out", "vec", vk, 2)]
    if KINDS[kind_or_top][2] if clocked is None else clocked:
        ports = [("clk", "in", "logic", "", 0)] + ports
    return ports


ORDER_INL = {}


FAMILY_SRC = """import cohdl
from cohdl import Bit, BitVector, Port, Signal
from cohdl import std


class Stage(cohdl.Entity):
    a = Port.input(BitVector[4])
    y = Port.output(BitVector[4])

    def architecture(self):
        @std.concurrent
        def logic():
            self.y <<= self.a


class Inv(Stage):
    def architecture(self):
        @std.concurrent
        def logic():
            self.y <<= ~self.a


class Gated(Stage):
    en = Port.input(Bit)

    def architecture(self):
        @std.concurrent
        def logic():
            self.y <<= self.a if self.en else ~self.a


class Wide(Gated):
    z = Port.output(BitVector[4])

    def architecture(self):
        @std.concurrent
        def logic():
            self.y <<= self.a
            self.z <<= ~self.a if self.en else self.a


class Top(cohdl.Entity):
    a = Port.input(BitVector[8])
    en = Port.input(Bit)
    y = Port.output(BitVector[8])
    z = Port.output(BitVector[4])

    def architecture(self):
        lo = Signal[BitVector[4]]()
        hi = Signal[BitVector[4]]()
        {insts}

        @std.concurrent
        def logic():
            self.y <<= hi @ lo
"""
FAMILY_TOPS = {
    "gated_only": "Gated(a=self.a[7:4], y=hi, en=self.en)\n        Wide(a=self.a[3:0], y=lo, en=self.en, z=self.z)",
    "all": "Inv(a=self.a[3:0], y=lo)\n        Gated(a=self.a[7:4], y=hi, en=self.en)\n        Wide(a=hi, y=Signal[BitVector[4]](), en=self.en, z=self.z)",
}
_BV4 = lambda n, d: (n, d, "vec", "slv", 4)
FAMILY_DECL = {
    "Stage": [_BV4("a", "in"), _BV4("y", "out")],
    "Inv": [_BV4("a", "in"), _BV4("y", "out")],
    "Gated": [_BV4("a", "in"), _BV4("y", "out"), ("en", "in", "logic", "", 0)],
    "Wide": [_BV4("a", "in"), _BV4("y", "out"), ("en", "in", "logic", "", 0), _BV4("z", "out")],
    "Top": [("a", "in", "vec", "slv", 8), ("en", "in", "logic", "", 0), ("y", "out", "vec", "slv", 8), _BV4("z", "out")],
}


def run_family(ck):
    """entity classes related through user-defined base entities (a usual way to generate leaf templates): a derived class
    that declares ports of its own must not change the interface of its base or of its siblings.  Every class of the family
    is compiled as a top entity after (and before) designs that instantiate its relatives; emitted interface = declaration."""
    designs = []
    for tn, insts in FAMILY_TOPS.items():
        src = FAMILY_SRC.replace("{insts}", insts)
        for ent in ("Top", "Stage", "Inv", "Gated", "Wide"):
            designs.append({"name": f"family_{tn}_{ent}", "source": src, "entity": ent})
    res = X.compile_designs(ck, designs)
    for dsg, r in zip(designs, res):
        ck.evaluations += 1
        if not r["ok"]:
            ck.obligation(False)
            ck.violation({"case": dsg["name"], "family": "rejected"},
                         "a design over a family of entity classes (base + derived entities) is no longer accepted: " + r["error"][:160],
                         {"source": dsg["source"], "entity": dsg["entity"], "error": r.get("trace", r["error"])[-1500:]})
            continue
        try:
            ents, _ = R.read_design(r["vhdl"], dsg["entity"])
        except R.Unparsed as e:
            ck.obligation(False)
            ck.violation({"case": dsg["name"]}, "emitted VHDL left the parsed subset: " + str(e), {"source": dsg["source"], "vhdl": r["vhdl"]}, no_input=True)
            continue
        ck.obligation(check_interface(ck, ents, FAMILY_DECL, dsg["name"], dsg["source"]))
        ck.nontrivial(dsg["name"])
    ck.cov["entity_class_families"] = len(designs)


def run(ck: common.Check, replay=None):
    ck.check_props("C12_Properties.v")
    if replay is None:
        run_family(ck)
    n = 40 if ck.tier == "quick" else 200
    items = []
    for k in range(n):
        net = Net(ck.rng)
        net.build(ck.rng.randint(2, 5))
        mids = {i: ck.rng.choice(["arch", "ctx"]) for i, c in enumerate(net.cells) if ck.rng.random() < 0.35}
        inl = frozenset(i for i, c in enumerate(net.cells) if ck.rng.random() < 0.25)
        items.append((f"tree{k:04d}", net, mids, render(net, True, mids, inl), render(net, False, mids)))
        ORDER_INL[f"tree{k:04d}"] = inl          # export for c12_order.run_trees
        for fl in set(mids.values()):
            ck.hist("mid_template_instances_created_in", fl)
        ck.hist("top_instances_inside_context", len(inl))
    designs = []
    for name, net, mids, hs, fs in items:
        designs.append({"name": name + "_h", "source": hs, "entity": "Top"})
        designs.append({"name": name + "_f", "source": fs, "entity": "Top"})
    res = X.compile_designs(ck, designs)
    files = []
    for k, (name, net, mids, hs, fs) in enumerate(items):
        rh, rf = res[2 * k], res[2 * k + 1]
        ck.evaluations += 1
        if not rh["ok"] or not rf["ok"]:
            ck.hist("rejected", (rh.get("error") or rf.get("error"))[:70])
            if rh["ok"] != rf["ok"]:
                ck.count("accepted_only_one_rendering")
                ck.sample({"hier_ok": rh["ok"], "flat_ok": rf["ok"], "error": (rh.get("error") or rf.get("error"))[:200], "source": hs})
            continue
        try:
            ents_h, dh = R.read_design(rh["vhdl"], "Top")
            ents_f, df = R.read_design(rf["vhdl"], "Top")
        except R.Unparsed as e:
            ck.obligation(False)
            ck.violation({"case": name}, "emitted VHDL left the parsed subset or the hierarchy is ill-formed: " + str(e),
                         {"source": hs, "vhdl": rh["vhdl"]}, no_input=True)
            continue
        # structural obligations
        declared = {"Top": decl_of("Top")}
        kinds = {c[0] for c in net.cells}
        for kd in kinds:
            declared[lname(kd)] = decl_of(kd)
        for i in mids:
            kd = net.cells[i][0]
            declared["Mid" + ("C" if mids[i] == "ctx" else "") + kd] = decl_of(kd)
        ok_if = check_interface(ck, ents_h, declared, name, hs)
        ck.obligation(ok_if)
        names = [e.name for e in ents_h]
        want_templates = {"Top"} | {lname(kd) for kd in kinds} | {"Mid" + ("C" if mids[i] == "ctx" else "") + net.cells[i][0] for i in mids}
        once = len(names) == len(want_templates) and all(any(emitted_matches(n_, w_) for n_ in names) for w_ in want_templates)
        ck.obligation(once)
        if not once:
            ck.violation({"case": name, "templates": "count"}, "entity templates are not emitted exactly once each",
                         {"emitted": names, "expected": sorted(want_templates), "source": hs})
        # sub-entities are emitted before the entities that use them
        seen, late = set(), []
        for e in ents_h:
            for c in e.conc:
                if isinstance(c, R.Instance) and c.entity not in seen:
                    late.append((e.name, c.entity))
            seen.add(e.name)
        ck.obligation(not late)
        if late:
            ck.violation({"case": name, "templates": "order"}, "an entity is emitted before a sub-entity it instantiates",
                         {"emission_order": names, "used_before_emitted": late, "source": hs})
        shapes = set()
        for i, c in enumerate(net.cells):
            if i not in mids and any(j in mids and net.cells[j][0] == c[0] for j in range(len(net.cells))):
                first_mid = min(j for j in mids if net.cells[j][0] == c[0])
                shapes.add("leaf_before_mid" if i < first_mid else "mid_before_leaf")
        for sh in shapes:
            ck.hist("template_at_two_depths", sh)
        n_inst = sum(1 for e in ents_h for c in e.conc if isinstance(c, R.Instance))
        ck.hist("instances", n_inst)
        ck.hist("depth", 3 if mids else 2)
        alpha = X.default_alphabet(dh)
        path = os.path.join(ck.gen, name + ".v")
        count = "Eval vm_compute in (dcheck_s dh df false alphabet 1000000).\n" if len(files) < 3 else ""
        with open(path, "w") as f:
            f.write(CASE_TMPL.format(header=common.COQ_HEADER, dh=R.design_to_coq(dh), df=R.design_to_coq(df), alphabet=alpha, count=count))
        files.append((name, path, hs, fs, rh["vhdl"], rf["vhdl"]))
    outs = common.coqc_many([f[1] for f in files], timeout=2400)
    for (name, path, hs, fs, vh, vf), (rc, out, err) in zip(files, outs):
        if rc == 0:
            ck.obligation(True)
            ck.nontrivial(name)
            o = common.coq_outputs(out)
            if o and o[0].startswith("VOk"):
                ck.sample({"case": name, "verdict": o[0]}, limit=4)
            common._cleanup_v(path)
            continue
        ck.obligation(False)
        src = open(path).read()
        src = src[:src.index("Theorem case_ok")]
        dpath = path[:-2] + "_diag.v"
        open(dpath, "w").write(src + DIAG)
        rc2, out2, err2 = common.coqc(dpath, 3000)
        o = common.coq_outputs(out2)
        while o and not o[0].startswith("V"):
            o = o[1:]
        rep = {"case": name, "hier_source": hs, "flat_source": fs, "hier_vhdl": vh, "flat_vhdl": vf, "case_file": path}
        if o and o[0].startswith("VCex"):
            rep.update({"path": o[0], "traces": o[1] if len(o) > 1 else ""})
            ck.violation({"case": name}, "instantiated and inlined designs differ on an input sequence", rep)
        elif o and o[0].startswith("VFuel"):
            ck.obligations -= 1      # undecided for lack of resources (see explore.run_cases)
            ck.cov.setdefault("undecided_state_space_above_budget", []).append(name)
        else:
            rep["log"] = (out + err + out2 + err2)[-1500:]
            ck.violation({"case": name}, "hierarchy obligation not discharged", rep, no_input=True)
    ck.cov["programs"] = len(files)
    ck.cov["rule"] = ("one instantiation tree per case (2-6 cells over 5 leaf templates, optional mid-level template, slice and view "
                      "actuals, repeated templates); obligations per tree: interface equality, templates once and ordered, "
                      "trace equality with the inlined rendering for all input sequences")
    ck.trusted += ["fail-closed VHDL reader and its net-collapse elaboration (the meaning given to port maps)", "Vhdl.Sem"]
    ck.assumptions += ["instantiation trees are sampled; nested std Blocks are not generated (std.block raises TypeError on this tree)"]
    # all-graphs model of the instantiation bookkeeping (Models/EmitOrder.v): these netlists + its own instantiation graphs
    __import__("c12_order").run_extra(ck, [(it[0], it[1], it[2], ORDER_INL[it[0]], it[3], r["vhdl"]) for it, r in zip(items, res[0::2]) if r["ok"]])
